import sys, os; sys.path.insert(0, os.getcwd())
# ---------------------------------------------------------------------------
# Demo for property C14: DiffEqSolver returns the per-mode Galerkin solution
# of  A phi'' + B phi' + C phi - m^2 D phi = E rho  (cylindrical measure).
# The real library solver is compared with an independent dense assembly
# built on scipy.interpolate.BSpline.
# exit 0: property holds, exit 1: violated
# ---------------------------------------------------------------------------
import types
import hashlib
import numpy as np

# --- small fake mpi4py (no MPI library in the sandbox) ----------------------
if 'mpi4py' not in sys.modules:
    _m = types.ModuleType('mpi4py')
    _MPI = types.ModuleType('mpi4py.MPI')

    class _Comm:
        def Get_rank(self): return 0
        def Get_size(self): return 1
        def Create_cart(self, *a, **k): return self
        def Sub(self, *a, **k): return self
        def Get_coords(self, *a): return [0]
        def Barrier(self): pass

    _MPI.Comm = _Comm
    _MPI.COMM_WORLD = _Comm()
    for _n in ('DOUBLE', 'MIN', 'MAX', 'SUM', 'IN_PLACE', 'DOUBLE_COMPLEX'):
        setattr(_MPI, _n, object())
    _m.MPI = _MPI
    sys.modules['mpi4py'] = _m
    sys.modules['mpi4py.MPI'] = _MPI

import pygyro
assert os.path.abspath(pygyro.__file__).startswith(os.path.abspath(os.getcwd()) + os.sep), pygyro.__file__

from scipy.interpolate import BSpline
from numpy.polynomial.legendre import leggauss
from pygyro.splines.splines import BSplines, make_knots
from pygyro.poisson.poisson_solver import DiffEqSolver


# --- duck-typed stand-in for pygyro.model.grid.Grid -------------------------
class _Layout:
    dims_order = (1, 2, 0)      # (theta-modes, z, r)


class FakeGrid:
    def __init__(self, modes, nz, r, dtype=np.complex128):
        self.modes = list(modes)
        self.r = np.asarray(r, float)
        self.currentLayout = 'mode_solve'
        self._f = np.zeros((len(self.modes), nz, self.r.size), dtype)

    def getLayout(self, name): return _Layout()
    def getGlobalIdxVals(self, d): assert d == 0; return self.modes
    def getCoords(self, d): assert d == 1; return enumerate(np.linspace(0, 1, self._f.shape[1]))
    def getCoordVals(self, d): assert d == 2; return self.r
    def get1DSlice(self, i, j): return self._f[i, j]


# --- independent reference ---------------------------------------------------
def ref_basis(breaks, d):
    t = np.concatenate([[breaks[0]]*d, breaks, [breaks[-1]]*d])
    nb = len(breaks)-1+d
    spl = BSpline(t, np.eye(nb), d)
    grev = np.array([t[i+1:i+d+1].sum()/d for i in range(nb)])
    return spl, nb, grev


def ref_solve(breaks, d, quad_degree, nTheta, lN, uN, A, B, C, D, E, modes, rho_vals=None, rho_func=None):
    spl, nb, grev = ref_basis(breaks, d)
    nq = quad_degree//2+1
    x, w = leggauss(nq)
    h = np.diff(breaks)
    pts = ((breaks[:-1]+breaks[1:])*0.5)[:, None] + x[None, :]*h[:, None]*0.5
    wts = (w[None, :]*h[:, None]*0.5).ravel()
    pts = pts.ravel()
    P = spl(pts)                    # (nq, nb)
    dP = spl(pts, 1)
    f = lambda g: np.array([float(g(p)) for p in pts])
    a, b, c, dd, e = f(A), f(B), f(C), f(D), f(E)
    r = pts
    # rows: test function, columns: trial function
    K0 = (-(dP*(wts*a*r)[:, None]).T @ dP - (P*(wts*a)[:, None]).T @ dP
          + (P*(wts*b*r)[:, None]).T @ dP + (P*(wts*c*r)[:, None]).T @ P)
    KD = (P*(wts*dd*r)[:, None]).T @ P
    M = (P*(wts*e*r)[:, None]).T @ P
    coll = spl(grev)
    freqs = np.fft.fftfreq(nTheta, 1/nTheta)
    out = []
    for k, I in enumerate(modes):
        m = freqs[I]
        lo = 0 if m in lN else 1
        hi = nb - (0 if m in uN else 1)
        Kmat = (K0 - m*m*KD)[lo:hi, lo:hi]
        rows = []
        if rho_func is not None:
            rhs = P.T @ (wts*r*np.array([rho_func(p) for p in pts]))
            cf = np.zeros(nb, complex)
            cf[lo:hi] = np.linalg.solve(Kmat, rhs[lo:hi])
            rows = [coll @ cf for _ in range(rho_vals)]     # rho_vals = nz here
        else:
            for j in range(rho_vals.shape[1]):
                rc = np.linalg.solve(coll, rho_vals[k, j])
                cf = np.zeros(nb, complex)
                cf[lo:hi] = np.linalg.solve(Kmat, (M @ rc)[lo:hi])
                rows.append(coll @ cf)
        out.append(rows)
    return np.array(out), grev


def make_solver(breaks, d, uniform, quad_degree, nTheta, lN, uN, A, B, C, D, E):
    knots = make_knots(breaks, d, False)
    bs = BSplines(knots, d, False, uniform)
    nb = bs.nbasis
    s = DiffEqSolver(quad_degree, bs, nb, nTheta, lNeumannIdx=lN, uNeumannIdx=uN,
                     ddrFactor=A, drFactor=B, rFactor=C, ddThetaFactor=D, rhoFactor=E)
    return s, bs


failures = []
outputs = []


def check(name, got, ref, tol=2e-9):
    scale = max(1.0, np.abs(ref).max())
    err = np.abs(got-ref).max()/scale
    outputs.append(np.ascontiguousarray(got))
    if not (err < tol):
        failures.append('%s: rel. deviation from the reference %.3e' % (name, err))


COEFFS = [
    # A (constant), B, C, D, E
    (lambda r: -1.0, lambda r: 0.0, lambda r: 0.0, lambda r: -1.0, lambda r: 1.0),
    (lambda r: -1.0, lambda r: -1.0/r - 0.3, lambda r: 2.0/(1.0+0.1*r), lambda r: -1.0/r**2, lambda r: 1.0+0.2*r),
    (lambda r: -2.5, lambda r: 0.4*np.sin(r), lambda r: 1.0+r*r*0.05, lambda r: -0.7/r, lambda r: np.exp(-0.1*r)),
]
BCS = [([], []), ([0.0], []), ([], [1, -1]), ([0, 2], [1, -2]), ([0, 1, -1, 3], [0, 3])]


def scenario_spread():
    rng = np.random.default_rng(1234)
    nTheta = 8
    modes = list(range(nTheta))
    nz = 2
    k = 0
    for d in (1, 2, 3, 4, 5):
        for ncells in (4, 7, 10):
            breaks = np.linspace(1.0, 5.0, ncells+1)
            co = COEFFS[k % len(COEFFS)]
            lN, uN = BCS[k % len(BCS)]
            uniform = (d == 3 and k % 2 == 0)
            qd = 2*d+1+(k % 3)
            k += 1
            ill_posed = co is COEFFS[0] and any(m in uN for m in lN)
            try:
                s, bs = make_solver(breaks, d, uniform, qd, nTheta, lN, uN, *co)
            except ValueError:
                if not ill_posed:
                    failures.append('well-posed configuration refused (d=%d n=%d)' % (d, ncells))
                continue
            if ill_posed:
                failures.append('ill-posed configuration accepted (d=%d n=%d)' % (d, ncells))
                continue
            nb = bs.nbasis
            rho = FakeGrid(modes, nz, bs.greville)
            phi = FakeGrid(modes, nz, bs.greville)
            rho._f[:] = rng.standard_normal(rho._f.shape)+1j*rng.standard_normal(rho._f.shape)
            rho0 = rho._f.copy()
            s.solveEquation(phi, rho)
            ref, grev = ref_solve(breaks, d, qd, nTheta, lN, uN, *co, modes, rho_vals=rho0)
            assert np.allclose(grev, bs.greville)
            check('spread d=%d n=%d bc=%s/%s discrete' % (d, ncells, lN, uN), phi._f, ref)
            # Dirichlet boundary values
            fr = np.fft.fftfreq(nTheta, 1/nTheta)
            for I in modes:
                if fr[I] not in lN and np.abs(phi._f[I, :, 0]).max() > 1e-12:
                    failures.append('Dirichlet value at r_min not zero, mode %d' % I)
                if fr[I] not in uN and np.abs(phi._f[I, :, -1]).max() > 1e-12:
                    failures.append('Dirichlet value at r_max not zero, mode %d' % I)
            # function right-hand side
            phi2 = FakeGrid(modes, nz, bs.greville)
            fn = lambda r: 1.0+0.5*r-0.1*r*r
            s.solveEquationForFunction(phi2, fn)
            ref2, _ = ref_solve(breaks, d, qd, nTheta, lN, uN, *co, modes, rho_vals=nz, rho_func=fn)
            check('spread d=%d n=%d bc=%s/%s function' % (d, ncells, lN, uN), phi2._f, ref2)


def scenario_call_sequence():
    """the same solver object used repeatedly: complex data, then real data
    (mode 0 of a real density is real), then the function interface"""
    rng = np.random.default_rng(7)
    nTheta, d, ncells, qd = 4, 3, 8, 7
    breaks = np.linspace(0.5, 3.0, ncells+1)
    co = COEFFS[1]
    lN, uN = [0], []
    s, bs = make_solver(breaks, d, True, qd, nTheta, lN, uN, *co)
    modes = [0, 1, 2, 3]
    shape = (4, 3, bs.nbasis)
    seq = [rng.standard_normal(shape)+1j*rng.standard_normal(shape),
           rng.standard_normal(shape)+0j,
           rng.standard_normal(shape)*(1+0j)]
    seq[2][1:] = seq[2][1:]*(0.3+1j)      # mode 0 real, the others complex
    for n, data in enumerate(seq):
        rho = FakeGrid(modes, 3, bs.greville)
        phi = FakeGrid(modes, 3, bs.greville)
        rho._f[:] = data
        s.solveEquation(phi, rho)
        ref, _ = ref_solve(breaks, d, qd, nTheta, lN, uN, *co, modes, rho_vals=data)
        check('call sequence, call %d' % n, phi._f, ref)
    phi = FakeGrid(modes, 3, bs.greville)
    fn = lambda r: np.cos(r)
    s.solveEquationForFunction(phi, fn)
    ref, _ = ref_solve(breaks, d, qd, nTheta, lN, uN, *co, modes, rho_vals=3, rho_func=fn)
    check('call sequence, function after discrete', phi._f, ref)
    # linearity in rho on the same object
    a = FakeGrid(modes, 3, bs.greville); b = FakeGrid(modes, 3, bs.greville)
    ra = FakeGrid(modes, 3, bs.greville); rb = FakeGrid(modes, 3, bs.greville)
    rab = FakeGrid(modes, 3, bs.greville); ab = FakeGrid(modes, 3, bs.greville)
    ra._f[:] = seq[0]; rb._f[:] = seq[1]; rab._f[:] = 2*seq[0]-3*seq[1]
    s.solveEquation(a, ra); s.solveEquation(b, rb); s.solveEquation(ab, rab)
    check('linearity', ab._f, 2*a._f-3*b._f)


def scenario_requested_exactness():
    """quadrature exactness requested well above 2*spline degree+1, with
    non-polynomial coefficient functions"""
    rng = np.random.default_rng(99)
    nTheta = 4
    modes = [0, 1, 2, 3]
    for d, qd, ncells in ((1, 9, 5), (2, 12, 6), (3, 15, 6), (3, 7, 6)):
        breaks = np.linspace(0.2, 2.0, ncells+1)
        co = (lambda r: -1.0, lambda r: -1.0/r, lambda r: 1.0/(0.3+r*r), lambda r: -1.0/r**2, lambda r: 1.0/(1.0+r))
        lN, uN = [0], [0, 1]
        s, bs = make_solver(breaks, d, d == 3, qd, nTheta, lN, uN, *co)
        rho = FakeGrid(modes, 1, bs.greville)
        phi = FakeGrid(modes, 1, bs.greville)
        rho._f[:] = rng.standard_normal(rho._f.shape)+1j*rng.standard_normal(rho._f.shape)
        rho0 = rho._f.copy()
        s.solveEquation(phi, rho)
        ref, _ = ref_solve(breaks, d, qd, nTheta, lN, uN, *co, modes, rho_vals=rho0)
        check('requested exactness d=%d degree=%d' % (d, qd), phi._f, ref)
        phi2 = FakeGrid(modes, 1, bs.greville)
        fn = lambda r: 1.0/(1.0+r*r)
        s.solveEquationForFunction(phi2, fn)
        ref2, _ = ref_solve(breaks, d, qd, nTheta, lN, uN, *co, modes, rho_vals=1, rho_func=fn)
        check('requested exactness d=%d degree=%d function' % (d, qd), phi2._f, ref2)


def scenario_ill_posed():
    breaks = np.linspace(1.0, 2.0, 6)
    try:
        make_solver(breaks, 3, False, 7, 4, [0, 1], [1], *COEFFS[0])
        failures.append('pure Neumann problem with C=0 was accepted')
    except ValueError:
        pass
    # well posed: C != 0
    try:
        make_solver(breaks, 3, False, 7, 4, [0, 1], [1], *COEFFS[1])
    except ValueError:
        failures.append('pure Neumann problem with C!=0 was refused')


def scenario_manufactured():
    """phi = (r-a)(b-r) r is in the cubic spline space; -phi'' - phi'/r + phi*m^2/r^2 ... use
    A=-1, B=-1/r, C=0, D=-1/r^2, E=1 and the function interface with exact quadrature"""
    a, b = 1.0, 3.0
    breaks = np.linspace(a, b, 7)
    nTheta = 4
    A, B, C, D, E = (lambda r: -1.0, lambda r: -1.0/r, lambda r: 0.0, lambda r: -1.0/r**2, lambda r: 1.0)
    # phi = r^2 (r-a)(b-r) = -r^4+(a+b)r^3-ab r^2 : needs degree 4
    d = 4
    s, bs = make_solver(breaks, d, False, 12, nTheta, [], [], A, B, C, D, E)
    modes = [0, 1, 2, 3]
    fr = np.fft.fftfreq(nTheta, 1/nTheta)
    for k, I in enumerate(modes):
        m2 = fr[I]**2
        exact = lambda r: -r**4+(a+b)*r**3-a*b*r**2
        d1 = lambda r: -4*r**3+3*(a+b)*r**2-2*a*b*r
        d2 = lambda r: -12*r**2+6*(a+b)*r-2*a*b
        rhs = lambda r: -d2(r)-d1(r)/r+m2*exact(r)/r**2
        phi = FakeGrid([I], 1, bs.greville)
        s.solveEquationForFunction(phi, rhs)
        check('manufactured mode %d' % I, phi._f[0, 0], exact(bs.greville)+0j, tol=1e-10)


def main(baseline_name='baseline.npy'):
    scenario_spread()
    scenario_call_sequence()
    scenario_requested_exactness()
    scenario_ill_posed()
    scenario_manufactured()
    flat = np.concatenate([o.ravel() for o in outputs])
    print('outputs: %d values, sha256 %s' % (flat.size, hashlib.sha256(flat.tobytes()).hexdigest()[:16]))
    base = os.path.join(os.path.dirname(os.path.abspath(__file__)), baseline_name)
    if os.path.exists(base):
        ref = np.load(base)
        if ref.shape != flat.shape:
            failures.append('output count differs from the recorded baseline')
        else:
            dev = np.abs(ref-flat).max()/max(1.0, np.abs(ref).max())
            print('max deviation from the outputs recorded on the unmodified library: %.3e' % dev)
            if dev > 1e-12:
                failures.append('outputs differ from the recorded baseline: %.3e' % dev)
    elif os.environ.get('C14_WRITE_BASELINE'):
        np.save(base, flat)
    if failures:
        print('PROPERTY C14 VIOLATED')
        for f in failures[:20]:
            print('  ', f)
        sys.exit(1)
    print('PROPERTY C14 HOLDS (%d comparisons)' % len(outputs))
    sys.exit(0)


if __name__ == '__main__':
    main()
