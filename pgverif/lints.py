"""Engine G: property-specific lints (DESIGN 4.6).

Soundness audit.  Every lint returns FACTS that the props files turn into VIOLATED verdicts ("written through an alias", "read but
never defined", "not refreshed", "stuck", "stale").  Each fact rests on assumptions about constructs the lint does or does not
model; they are written next to the place that produces the fact (`# AUDIT:`) and CHECKED there.  The result lists keep their shape
(the props files unpack them as before) and hold the ESTABLISHED facts only; whatever could be a finding but rests on an assumption
that was not established is kept apart in the attribute `.undecided` of the returned list (entries: the same tuple + a reason), for
the caller to report as UNDECIDED.  `stuck_iterations` keeps every candidate path in its list (its one caller re-examines them) and
marks each with `.verdict` (False: established, None: undecided) and `.why`.
"""
from __future__ import annotations

import ast

from .core import src, parent, AnalysisError

VIEW_METHODS = {"reshape", "transpose", "view", "ravel", "squeeze"}
MUTATING_METHODS = {"pop", "append", "extend", "insert", "remove", "sort", "reverse", "clear", "popitem", "update", "setdefault", "fill"}
COPY_CALLS = {"copy", "flatten", "astype", "array", "zeros_like", "empty_like"}
# methods that exist on list / dict / set / deque and NOT on numpy arrays: a receiver they are called on is no array
_CONTAINER_ONLY = {"pop", "append", "extend", "insert", "remove", "reverse", "clear", "popitem", "update", "setdefault"}
_ARRAY_ATTRS = {"shape", "T", "dtype", "ndim", "size", "flat", "real", "imag", "strides", "itemsize", "nbytes"}
_ARRAY_METHODS = {"fill", "reshape", "astype", "ravel", "flatten", "transpose", "squeeze", "swapaxes", "view", "dot", "sum", "mean", "max",
                  "min", "argmax", "argmin", "cumsum", "tolist", "conj", "round", "clip", "any", "all", "nonzero", "take", "repeat"}
_ARRAY_CTORS = {"empty", "zeros", "ones", "full", "array", "asarray", "ascontiguousarray", "linspace", "arange", "empty_like", "zeros_like",
                "ones_like", "full_like", "eye", "identity", "meshgrid", "concatenate", "stack", "hstack", "vstack", "tile", "repeat", "outer",
                "diff", "cumsum", "copy", "frombuffer", "fromiter", "ndarray", "logspace",
                "atleast_1d", "atleast_2d", "roll", "where", "transpose"}
_ELEMENTWISE = {"cos", "sin", "tan", "exp", "sqrt", "log", "abs", "real", "imag", "conj", "square", "negative", "floor", "ceil", "mod", "fmod"}
_NP = ("np", "numpy")


class Findings(list):
    """established findings; `.undecided`: possible findings whose assumptions were not established (same tuple + reason)"""

    def __init__(self, items=(), undecided=()):
        super().__init__(items)
        self.undecided = list(undecided)


# ======================================================================================================================
# G2: writes through aliases of shared state
# ======================================================================================================================
def _scope_of(node):
    """(enclosing class or None, module or None) through the parent links, when the tree is linked"""
    cls = mod = None
    n = parent(node)
    while n is not None:
        if isinstance(n, ast.ClassDef) and cls is None:
            cls = n
        if isinstance(n, ast.Module):
            mod = n
        n = parent(n)
    return cls, mod


_ARRAY_RETURNING = {"solve", "solve_banded", "solveh_banded", "inv", "pinv", "fft", "ifft", "rfft", "irfft", "spsolve", "solve_triangular"}


def _value_kind(v, mod=None):
    """kind of object an expression evaluates to: 'array' / 'list' / 'dict' / 'set' / 'tuple' / 'scalar' / None (not known)"""
    if isinstance(v, (ast.List, ast.ListComp)):
        return "list"
    if isinstance(v, (ast.Dict, ast.DictComp)):
        return "dict"
    if isinstance(v, (ast.Set, ast.SetComp)):
        return "set"
    if isinstance(v, ast.Tuple):
        return "tuple"
    if isinstance(v, ast.Constant):
        return "scalar" if isinstance(v.value, (int, float, complex, bool, str, bytes)) else None
    if isinstance(v, ast.BinOp) and isinstance(v.op, ast.Mult) and (isinstance(v.left, ast.List) or isinstance(v.right, ast.List)):
        return "list"
    if isinstance(v, ast.BinOp) and not isinstance(v.op, ast.MatMult):
        ks = {_value_kind(v.left, mod), _value_kind(v.right, mod)}
        return "array" if "array" in ks and not ks & {"list", "dict", "set", "tuple"} else None
    if isinstance(v, ast.UnaryOp):
        return _value_kind(v.operand, mod) if _value_kind(v.operand, mod) == "array" else None
    if isinstance(v, ast.Subscript) and _min_ndim(v) >= 1:
        return "array"          # `x[:, None]`, `x[a:b, c:d]`: tuple subscripts with slices exist for arrays only
    if isinstance(v, ast.Call):
        f = v.func
        if isinstance(f, ast.Name):
            k = {"list": "list", "sorted": "list", "dict": "dict", "set": "set", "tuple": "tuple", "defaultdict": "dict", "OrderedDict": "dict",
                 "deque": "list", "int": "scalar", "float": "scalar", "len": "scalar", "bool": "scalar", "str": "scalar",
                 "frozenset": "tuple"}.get(f.id)
            if k:
                return k
            if f.id in _ARRAY_RETURNING and mod is not None and any(
                    isinstance(i, ast.ImportFrom) and (i.module or "").split(".")[0] in ("numpy", "scipy")
                    and any((a.asname or a.name) == f.id for a in i.names) for i in ast.walk(mod)):
                return "array"
            return None
        if isinstance(f, ast.Attribute) and isinstance(f.value, ast.Name) and f.value.id in _NP:
            if f.attr in _ARRAY_CTORS:
                return "array"
            if f.attr in _ELEMENTWISE and v.args:
                return _value_kind(v.args[0], mod) if _value_kind(v.args[0], mod) == "array" else None
        if src(f).split(".")[0] in ("np", "numpy", "scipy", "sp", "linalg") and src(f).split(".")[-1] in _ARRAY_RETURNING:
            return "array"
        if isinstance(f, ast.Attribute) and f.attr in ("copy", "astype", "reshape", "transpose", "ravel", "flatten"):
            return _value_kind(f.value, mod) if f.attr == "copy" else "array"
    return None


def _annotation_kind(a):
    if a is None:
        return None
    s = a.value if isinstance(a, ast.Constant) and isinstance(a.value, str) else src(a)
    s = s.replace(" ", "")
    if "[:" in s or "ndarray" in s or "NDArray" in s:
        return "array"
    low = s.lower()
    if low.startswith(("list", "typing.list")):
        return "list"
    if low.startswith(("dict", "typing.dict")):
        return "dict"
    if low.startswith(("tuple", "typing.tuple")):
        return "tuple"
    if low in ("int", "float", "bool", "complex", "str"):
        return "scalar"
    return None


def _root_kind(fn, root: str, scope=None):
    """kind of the object the shared expression `root` denotes, from the definitions visible to the lint (parameter annotation;
    every assignment to that expression in the enclosing class / module / function; the returns of a memoised function):
    a kind only when every definition found has the same known kind, else None"""
    kinds = []
    cls, mod = _scope_of(fn)
    base = root.split("[")[0]
    if "(" in root:
        # result of a (memoised) function / method: what its definitions return
        name = root.split("(")[0].split(".")[-1]
        tree = scope if scope is not None else mod
        if tree is None:
            return None
        defs = [n for n in ast.walk(tree) if isinstance(n, (ast.FunctionDef, ast.AsyncFunctionDef)) and n.name == name]
        for d in defs:
            for r in ast.walk(d):
                if isinstance(r, ast.Return):
                    kinds.append(_value_kind(r.value, mod) if r.value is not None else None)
        return kinds[0] if kinds and all(k == kinds[0] for k in kinds) and kinds[0] is not None else None
    if "." not in base:
        for a in fn.args.args + fn.args.kwonlyargs + getattr(fn.args, "posonlyargs", []):
            if a.arg == base:
                k = _annotation_kind(a.annotation)
                if k:
                    return k
    trees = [t for t in ((cls if base.startswith("self.") else None), scope, fn if "." not in base else None,
                         mod if "." not in base else None) if t is not None]
    for tree in trees[:1] if base.startswith("self.") and cls is not None else trees:
        for n in ast.walk(tree):
            tg, val = [], None
            if isinstance(n, ast.Assign):
                tg, val = n.targets, n.value
            elif isinstance(n, ast.AnnAssign) and n.value is not None:
                tg, val = [n.target], n.value
                if src(n.target) == base and _annotation_kind(n.annotation):
                    kinds.append(_annotation_kind(n.annotation))
                    continue
            for t in tg:
                if src(t) == base:
                    kinds.append(_value_kind(val, mod))
    if kinds and kinds[0] is not None and all(k == kinds[0] for k in kinds):
        return kinds[0]
    return None


def _min_ndim(e):
    """a lower bound of the number of dimensions of the array an expression evaluates to (0: nothing known)"""
    if isinstance(e, ast.Subscript):
        elts = e.slice.elts if isinstance(e.slice, ast.Tuple) else [e.slice]
        kept = sum(1 for x in elts if isinstance(x, ast.Slice) or (isinstance(x, ast.Constant) and x.value is None)
                   or src(x) in ("np.newaxis", "numpy.newaxis"))
        return kept if all(isinstance(x, (ast.Slice, ast.Constant)) or src(x) in ("np.newaxis", "numpy.newaxis") for x in elts) else 0
    if isinstance(e, ast.BinOp) and not isinstance(e.op, ast.MatMult):
        return max(_min_ndim(e.left), _min_ndim(e.right))
    if isinstance(e, ast.UnaryOp):
        return _min_ndim(e.operand)
    if isinstance(e, ast.Call) and isinstance(e.func, ast.Attribute) and isinstance(e.func.value, ast.Name) and e.func.value.id in _NP:
        if e.func.attr in ("sqrt", "exp", "sin", "cos", "tan", "abs", "log", "real", "imag", "copy", "ascontiguousarray", "asarray", "negative",
                           "square", "conj") and e.args:
            return _min_ndim(e.args[0])
        if e.func.attr in ("empty", "zeros", "ones", "full", "ndarray") and e.args and isinstance(e.args[0], (ast.Tuple, ast.List)):
            return len(e.args[0].elts)
    return 0


def _root_min_ndim(fn, root: str) -> int:
    """lower bound of the dimensions of the stored array `root` (`self.X`), over every definition of it in the class"""
    cls, mod = _scope_of(fn)
    base = root.split("[")[0]
    if cls is None or not base.startswith("self.") or base != root:
        return 0
    dims = []
    for n in ast.walk(cls):
        if isinstance(n, ast.Assign) and any(src(t) == base for t in n.targets):
            dims.append(_min_ndim(n.value))
        elif isinstance(n, (ast.AugAssign, ast.AnnAssign)) and src(n.target) == base:
            dims.append(0)
    return min(dims) if dims else 0


def _int_names(fn):
    """local names that hold an integer by construction: counters of range() / first component of enumerate(), parameters annotated
    int, names assigned from integer literals, len() and integer arithmetic of such"""
    out = set()
    for a in fn.args.args + fn.args.kwonlyargs:
        if a.annotation is not None:
            s = a.annotation.value if isinstance(a.annotation, ast.Constant) and isinstance(a.annotation.value, str) else src(a.annotation)
            if s.strip() in ("int", "np.int64", "numpy.int64", "np.intp"):
                out.add(a.arg)
    stores = {}
    for n in ast.walk(fn):
        if isinstance(n, ast.Name) and isinstance(n.ctx, ast.Store):
            stores[n.id] = stores.get(n.id, 0) + 1

    def intish(e, names):
        if isinstance(e, ast.Constant):
            return type(e.value) is int
        if isinstance(e, ast.Name):
            return e.id in names
        if isinstance(e, ast.UnaryOp) and isinstance(e.op, (ast.USub, ast.UAdd)):
            return intish(e.operand, names)
        if isinstance(e, ast.BinOp) and isinstance(e.op, (ast.Add, ast.Sub, ast.Mult, ast.FloorDiv, ast.Mod)):
            return intish(e.left, names) and intish(e.right, names)
        if isinstance(e, ast.Call) and isinstance(e.func, ast.Name) and e.func.id in ("len", "int") and not e.keywords:
            return True
        return False
    for _ in range(3):
        cand = {}
        for n in ast.walk(fn):
            if isinstance(n, (ast.For, ast.comprehension)):
                it, tg = n.iter, n.target
                if isinstance(it, ast.Call) and isinstance(it.func, ast.Name) and it.func.id == "range" and isinstance(tg, ast.Name):
                    cand.setdefault(tg.id, []).append(True)
                elif isinstance(it, ast.Call) and isinstance(it.func, ast.Name) and it.func.id == "enumerate" and isinstance(tg, ast.Tuple) \
                        and tg.elts and isinstance(tg.elts[0], ast.Name):
                    cand.setdefault(tg.elts[0].id, []).append(True)
                    for el in tg.elts[1:]:
                        for x in ast.walk(el):
                            if isinstance(x, ast.Name):
                                cand.setdefault(x.id, []).append(False)
                else:
                    for x in ast.walk(tg):
                        if isinstance(x, ast.Name):
                            cand.setdefault(x.id, []).append(False)
            elif isinstance(n, ast.Assign):
                for t in n.targets:
                    if isinstance(t, ast.Name):
                        cand.setdefault(t.id, []).append(intish(n.value, out))
                    else:
                        for x in ast.walk(t):
                            if isinstance(x, ast.Name) and isinstance(x.ctx, ast.Store):
                                cand.setdefault(x.id, []).append(False)
            elif isinstance(n, ast.AugAssign) and isinstance(n.target, ast.Name):
                cand.setdefault(n.target.id, []).append(intish(n.value, out) and isinstance(n.op, (ast.Add, ast.Sub, ast.Mult, ast.FloorDiv, ast.Mod)))
            elif isinstance(n, (ast.NamedExpr,)) and isinstance(n.target, ast.Name):
                cand.setdefault(n.target.id, []).append(intish(n.value, out))
            elif isinstance(n, (ast.With, ast.ExceptHandler)):
                for x in ast.walk(n):
                    if isinstance(x, ast.withitem) and x.optional_vars is not None:
                        for y in ast.walk(x.optional_vars):
                            if isinstance(y, ast.Name):
                                cand.setdefault(y.id, []).append(False)
        new = {k for k, v in cand.items() if v and all(v) and len(v) == stores.get(k, 0)} | out
        if new == out:
            break
        out = new
    return out, intish


def shared_state_mutations(fn: ast.FunctionDef, shared_pred, scope=None):
    """Writes through aliases of shared state.

    `shared_pred(expr_src)` says whether an expression denotes shared, stored state
    (e.g. `self._basis.integrals`).  A local becomes an alias when it is assigned the
    shared expression, a slice/view of it, or another alias, without a copy.  Reported:
    subscript stores / augmented assignments through an alias, and calls that receive an
    alias together with an `overwrite_*=True` flag.  -> Findings [(node, description)]; `.undecided`: [(node, description, reason)]

    AUDIT - a finding says "this statement changes the stored object".  It is true when
      (A1) the name still holds the alias at the statement: every other store to the name (for / with / except targets, walrus,
           augmented assignment, del, tuple unpacking, a nested def) ends the alias - checked;
      (A2) the step from the stored object to the alias yields a VIEW of it, not a copy:
             `X[a:b]`      a view for a numpy array, a copy for a list / tuple / str;
             `X[i]`        (integer i) a row view of an array or the stored element object of a list / dict; a copy when i is an index
                           array / mask;
             `.T .real .imag .flat`, `.transpose() .view() .squeeze()`: array views; `.reshape() .ravel()`: views of a contiguous
                           array (stored tables are allocated contiguous; not checked, stated in the description);
             `np.asarray(X)` X itself for an array, a new array for a list;
           -> the kind of X is taken from evidence (definitions of the expression in the class / module, annotation, array-only
           attributes and tuple subscripts used on it, container-only methods called on it); the index from `_int_names`;
           without evidence the finding is UNDECIDED;
      (A3) the operation changes the object in place: a subscript store always does; `name op= v` does for arrays and lists and
           REBINDS the name for scalars and tuples; `.pop/.append/...` exist on containers only (so a receiver reached through a slice is
           a list slice, i.e. a copy: no finding); `overwrite_x=True` lets scipy write into array arguments.
    """
    aliases: dict[str, tuple] = {}
    alias_expr: dict[str, ast.AST] = {}
    display: dict[int, str] = {}
    out = Findings()
    int_names, intish = _int_names(fn)
    kind_cache: dict[str, object] = {}

    # usage evidence: names / expressions used as arrays (array-only attribute, tuple subscript) or as containers (container-only method)
    array_used, container_used, subscripted = set(), set(), set()
    for n in ast.walk(fn):
        if isinstance(n, ast.Attribute) and (n.attr in _ARRAY_ATTRS or (n.attr in _ARRAY_METHODS and isinstance(parent(n), ast.Call)
                                                                        and getattr(parent(n), "func", None) is n)):
            array_used.add(src(n.value))
        if isinstance(n, ast.Call) and isinstance(n.func, ast.Attribute) and n.func.attr in _ARRAY_METHODS:
            array_used.add(src(n.func.value))
        if isinstance(n, ast.Call) and isinstance(n.func, ast.Attribute) and n.func.attr in _CONTAINER_ONLY:
            container_used.add(src(n.func.value))
        if isinstance(n, ast.Subscript):
            subscripted.add(src(n.value))
            if isinstance(n.slice, ast.Tuple):
                array_used.add(src(n.value))

    def index_step(sl):
        """'slice' / 'index' / 'fancy?' and whether the subscript alone shows an array (tuple index)"""
        elts = sl.elts if isinstance(sl, ast.Tuple) else [sl]
        nd = isinstance(sl, ast.Tuple)
        step = "index"
        for x in elts:
            if isinstance(x, ast.Slice):
                if all(p is None or intish(p, int_names) or isinstance(p, (ast.Name, ast.Attribute, ast.BinOp, ast.Call, ast.UnaryOp, ast.Subscript))
                       for p in (x.lower, x.upper, x.step)):
                    step = "slice"
                continue
            if isinstance(x, ast.Constant) and (x.value is Ellipsis or x.value is None):
                nd = True
                continue
            if intish(x, int_names):
                continue
            return "fancy?", nd
        return step, nd

    def root_of(e):
        r = _root_of(e)
        if r is not None and isinstance(e, (ast.Attribute, ast.Subscript, ast.Call)) and shared_pred(src(e)):
            display[id(e)] = src(e)             # the longest expression the caller's predicate calls shared: shown in the description
        return r

    def shown(r, e):
        """the stored expression to quote for the alias / expression `e` with root info `r`"""
        seen = 0
        while e is not None and seen < 8:
            seen += 1
            if id(e) in display:
                return display[id(e)]
            if isinstance(e, ast.Name) and e.id in alias_expr:
                e = alias_expr[e.id]
                root_of(e)
                continue
            break
        return r[0]

    def _root_of(e):
        """(shared root, steps, array evidence) an expression is a view of, or None.  The deepest shared prefix is the root, so that
        the steps from it to the expression (slice / index / view) are all seen.  steps: 'slice' (of the root object), 'eslice' (slice
        of an element reached by an index), 'index', 'fancy?', 'reshape', 'asarray', 'dtype'"""
        if isinstance(e, ast.Name):
            if e.id in aliases:
                return aliases[e.id]
            return (e.id, frozenset(), False, None) if shared_pred(e.id) else None
        if isinstance(e, ast.Subscript):
            r = root_of(e.value)
            if r is not None:
                step, nd = index_step(e.slice)
                if step == "slice" and ("index" in r[1] or "eslice" in r[1] or "fancy?" in r[1]):
                    step = "eslice"
                    if src(e.value) in array_used:
                        nd = True
                return r[0], r[1] | {step}, r[2] or nd, step
        elif isinstance(e, ast.Attribute) and e.attr in ("T", "real", "imag", "flat"):
            r = root_of(e.value)
            if r is not None:
                return r[0], r[1], True, "view"
        elif isinstance(e, ast.Call) and isinstance(e.func, ast.Attribute):
            if e.func.attr in VIEW_METHODS:
                r = root_of(e.func.value)
                if r is not None:
                    return r[0], r[1] | ({"reshape"} if e.func.attr in ("reshape", "ravel") else set()), True, "view"
            # np.asarray & co. return their argument itself when it already is an array of the right type: a view, not a copy
            elif src(e.func) in ("np.asarray", "np.asanyarray", "np.ascontiguousarray", "numpy.asarray", "np.atleast_1d") and e.args \
                    and not any(k.arg == "copy" for k in e.keywords):
                r = root_of(e.args[0])
                if r is not None:
                    extra = {"asarray"} | ({"dtype"} if (len(e.args) > 1 or any(k.arg == "dtype" for k in e.keywords)) else set())
                    return r[0], r[1] | extra, r[2], "asarray"
        # only a reference (attribute / element / slice / call result) can denote shared storage; an arithmetic expression is a new value
        if isinstance(e, (ast.Attribute, ast.Subscript, ast.Call)) and shared_pred(src(e)):
            return src(e), frozenset(), False, None
        return None

    def kind_of(root, arr_ev, *exprs):
        if arr_ev or any(x in array_used for x in exprs) or root in array_used:
            return "array"
        if root not in kind_cache:
            kind_cache[root] = _root_kind(fn, root, scope) or ("array" if _root_min_ndim(fn, root) >= 1 else None)
        return kind_cache[root]

    ndim_cache: dict[str, int] = {}

    def min_ndim_of(root):
        if root not in ndim_cache:
            ndim_cache[root] = _root_min_ndim(fn, root)
        return ndim_cache[root]

    def depth_of(expr):
        """number of integer subscripts applied on the way from the root to `expr` (through aliases)"""
        d = 0
        while True:
            if isinstance(expr, ast.Subscript):
                d += len([x for x in (expr.slice.elts if isinstance(expr.slice, ast.Tuple) else [expr.slice]) if not isinstance(x, ast.Slice)
                          and not (isinstance(x, ast.Constant) and x.value is None)])
                expr = expr.value
            elif isinstance(expr, ast.Name) and expr.id in alias_expr:
                expr = alias_expr[expr.id]
            else:
                return d

    def judge(r, op, expr, meth=None, binop=None):
        """-> (True: established / None: undecided / 'no': no change of the stored object, reason)"""
        root, steps, arr_ev, last = r
        es = src(expr)
        k = kind_of(root, arr_ev, es)
        if op == "method" and meth in _CONTAINER_ONLY:
            # AUDIT: the receiver has a method that only containers (list / dict / set / deque) have.  Reached by `X[k]` it is the element
            # object stored in X (containers have no index-array subscripts; an element picked out of a shallow copy is still the stored
            # object); reached by a slice / np.asarray it is a new list / an array (which has no such method): not the stored object
            if last in ("slice", "eslice", "asarray", "view"):
                return "no", "a container method on a slice: the receiver is a list slice, a copy"
            return True, ""
        if "fancy?" in steps:
            return None, f"`{es}` is reached through a subscript whose index is not known to be an integer or a slice: an index array / mask gives a copy"
        if "dtype" in steps:
            return None, "np.asarray with a dtype returns a copy when the type differs"
        copyish = steps & {"slice", "asarray"}
        if "eslice" in steps and k != "array":
            # a slice of an ELEMENT of the stored object: the element's kind is what matters, and only usage evidence can show it
            return None, (f"`{es}` is a slice of an element of `{root}`: a view when the element is an array, a copy when it is a list; "
                          "which it is is not known")
        if op == "method":
            if meth == "sort" and copyish and k != "array":
                return ("no", "slice of a list") if k in ("list", "tuple") else (None, f"`.sort()` on `{es}`, a slice: a view for an array, a copy for a list; which one `{root}` is is not known")
            return True, ""
        if op == "aug":
            container = es in subscripted or root in subscripted or any(a_ in subscripted for a_ in (es,))
            if k in ("tuple", "scalar"):
                return "no", "augmented assignment rebinds a name that holds an immutable value"
            if "index" in steps and k != "array" and not (es in array_used or es in subscripted):
                return None, (f"`{es}` is an element of `{root}`: `{es} op= ...` changes the stored object only when the element is itself an "
                              "array / list (a row), not when it is a number")
            if "index" in steps and not (es in array_used or es in subscripted) and \
                    not (steps == {"index"} and depth_of(expr) < min_ndim_of(root)):
                return None, f"`{es}` is `{root}` at an integer index: a row (changed in place) or a number (rebound); which is not known"
            if copyish and k != "array":
                return ("no", "slice of a list") if k in ("list", "tuple") else (None, f"`{es}` is a slice: a view for an array, a copy for a list; which one `{root}` is is not known")
            if k in ("array", "list", "dict", "set"):
                return True, ""
            if container and isinstance(binop, (ast.Sub, ast.Div, ast.Pow, ast.MatMult, ast.FloorDiv, ast.Mod, ast.Mult, ast.Add)) \
                    and not isinstance(binop, (ast.Add, ast.Mult)):
                return True, ""          # a subscriptable object that supports -=, /=, ...: a numeric array
            if container:
                # subscriptable and += / *=: array or list (in place) - or a tuple (rebound), which no visible definition shows
                return None, f"`{es} op= ...` changes `{root}` in place if it is an array or a list and rebinds the name if it is a tuple: kind not known"
            return None, f"`{es} op= ...` changes the stored object in place only if `{root}` is mutable (array, list): its kind is not known"
        # subscript store / overwrite flag
        if copyish and k != "array":
            if k in ("list", "tuple", "dict", "set", "scalar"):
                return "no", "slice / asarray of a list is a copy"
            return None, f"`{es}` is a slice (or np.asarray) of `{root}`: a view for an array, a copy for a list; which one `{root}` is is not known"
        return True, ""

    def record(node, desc, r, op, expr, **kw):
        v, why = judge(r, op, expr, **kw)
        if v == "no":
            return
        if "reshape" in r[1]:
            desc += " (reshape/ravel of a contiguous array is a view)"
        if v is True:
            if not any(x[0] is node and x[1] == desc for x in out):
                out.append((node, desc))
        elif not any(x[0] is node and x[1] == desc for x in out.undecided):
            out.undecided.append((node, desc, why))

    def kill(names):
        for nm in names:
            aliases.pop(nm, None)

    def stores_in(node):
        return {n.id for n in ast.walk(node) if isinstance(n, ast.Name) and isinstance(n.ctx, (ast.Store, ast.Del))}

    def own_exprs(st):
        """the expressions evaluated by the statement itself (for a compound statement: its header, not its blocks)"""
        if isinstance(st, (ast.If, ast.While)):
            roots = [st.test]
        elif isinstance(st, ast.For):
            roots = [st.iter]
        elif isinstance(st, ast.With):
            roots = [i.context_expr for i in st.items]
        elif isinstance(st, (ast.Try, ast.FunctionDef, ast.AsyncFunctionDef, ast.ClassDef)):
            roots = []
        elif hasattr(ast, "Match") and isinstance(st, getattr(ast, "Match")):
            roots = [st.subject]
        else:
            roots = [st]
        return roots

    def calls_of(st):
        return [n for r in own_exprs(st) for n in ast.walk(r) if isinstance(n, ast.Call)]

    def visit(stmts):
        for st in stmts:
            if isinstance(st, (ast.FunctionDef, ast.AsyncFunctionDef, ast.ClassDef)):
                kill({st.name})
                if not isinstance(st, ast.ClassDef):
                    # a nested function sees the aliases of the moment it is defined (closure), except the names it binds itself
                    saved, saved_e = dict(aliases), dict(alias_expr)
                    kill({a.arg for a in st.args.args + st.args.kwonlyargs + getattr(st.args, "posonlyargs", [])} |
                         ({st.args.vararg.arg} if st.args.vararg else set()) | ({st.args.kwarg.arg} if st.args.kwarg else set()))
                    visit(st.body)
                    aliases.clear(), aliases.update(saved)
                    alias_expr.clear(), alias_expr.update(saved_e)
                continue
            if isinstance(st, ast.Assign):
                r = root_of(st.value)
                for t in st.targets:
                    if isinstance(t, ast.Name):
                        if r is not None:
                            aliases[t.id] = r
                            alias_expr[t.id] = st.value
                        else:
                            aliases.pop(t.id, None)
                    elif isinstance(t, ast.Subscript):
                        rt = root_of(t.value)
                        if rt is not None:
                            record(st, f"store through `{src(t.value)}`, a view of the stored `{shown(rt, t.value)}`", rt, "store", t.value)
                    elif isinstance(t, (ast.Tuple, ast.List)):
                        for el in ast.walk(t):
                            if isinstance(el, ast.Name) and isinstance(el.ctx, ast.Store):
                                aliases.pop(el.id, None)
                            elif isinstance(el, ast.Subscript) and isinstance(el.ctx, ast.Store) and root_of(el.value) is not None:
                                record(st, f"store through `{src(el.value)}`, a view of the stored `{shown(root_of(el.value), el.value)}`",
                                       root_of(el.value), "store", el.value)
            elif isinstance(st, ast.AugAssign):
                t = st.target
                base = t.value if isinstance(t, ast.Subscript) else t
                rt = root_of(base)
                if rt is not None:
                    record(st, f"in-place update of `{src(base)}`, a view of the stored `{shown(rt, base)}`", rt,
                           "store" if isinstance(t, ast.Subscript) else "aug", base, binop=st.op)
            elif isinstance(st, ast.AnnAssign) and isinstance(st.target, ast.Name):
                r = root_of(st.value) if st.value is not None else None
                if r is not None:
                    aliases[st.target.id] = r
                else:
                    aliases.pop(st.target.id, None)
            elif isinstance(st, ast.For):
                kill(stores_in(st.target))                       # (A1) the loop target is rebound by the loop
            elif isinstance(st, ast.With):
                for i in st.items:
                    if i.optional_vars is not None:
                        kill(stores_in(i.optional_vars))
            elif isinstance(st, ast.Delete):
                kill(stores_in(st))
            elif isinstance(st, (ast.Import, ast.ImportFrom)):
                kill({(a.asname or a.name).split(".")[0] for a in st.names})
            # (A1) a walrus anywhere in the statement's own expressions rebinds its target
            for n in (x for c in own_exprs(st) for x in ast.walk(c)):
                if isinstance(n, ast.NamedExpr) and isinstance(n.target, ast.Name):
                    kill({n.target.id})
            for c in calls_of(st):
                if isinstance(c.func, ast.Attribute) and c.func.attr in MUTATING_METHODS:
                    rt = root_of(c.func.value)
                    if rt is not None and not any(x[0] is c for x in out):
                        record(c, f"`.{c.func.attr}()` modifies `{src(c.func.value)}`, which is the stored `{shown(rt, c.func.value)}`", rt, "method",
                               c.func.value, meth=c.func.attr)
                flags = [k for k in c.keywords if k.arg and k.arg.startswith("overwrite")
                         and isinstance(k.value, ast.Constant) and k.value.value]
                if flags:
                    for a in list(c.args) + [k.value for k in c.keywords]:
                        rt = root_of(a)
                        if rt is not None:
                            record(c, f"`{flags[0].arg}=True` lets `{src(c.func)}` overwrite `{src(a)}`, which is the stored `{shown(rt, a)}`",
                                   rt, "store", a)
            for f in ("body", "orelse", "finalbody"):
                sub = getattr(st, f, None)
                if sub and isinstance(sub, list) and isinstance(sub[0], ast.stmt):
                    visit(sub)
            for h in getattr(st, "handlers", []) or []:
                if h.name:
                    kill({h.name})
                visit(h.body)
            for case in getattr(st, "cases", []) or []:
                kill(stores_in(case.pattern))
                visit(case.body)
    visit(fn.body)
    return out


# ======================================================================================================================
# G1: self.X read but never defined
# ======================================================================================================================
def undefined_self_attrs(mod, cls_name: str, extra_defined=()):
    """G-attr: `self.X` reads in methods of cls with no definition of X in the class (or bases in the same module)
    -> (reads: Findings [(method, node)], defined names); `reads.undecided`: [(method, node, reason)]

    AUDIT - "read but never defined: AttributeError" assumes that EVERY place that can give an instance the attribute was looked at:
      * all base classes are in this module (followed transitively); a base defined elsewhere / computed -> UNDECIDED;
      * the class does not define attributes dynamically: no __getattr__ / __getattribute__ / __setattr__ / __slots__, no `self.__dict__`,
        `vars(self)`, `setattr(self, ...)`, no class decorator (dataclass & co. generate attributes), no metaclass keyword -> else UNDECIDED;
      * class-level statements (assignments incl. annotated ones, in any nested if / for / with / try block) define attributes; an
        annotation without a value declares an attribute that something else is meant to fill -> UNDECIDED;
      * nobody stores the attribute from outside (`obj.X = ...` on another receiver anywhere in the module) -> else UNDECIDED;
      * the read is unconditional: not under `hasattr(self, 'X')` / inside a try that catches AttributeError -> else UNDECIDED;
      * `self` is the instance: the first parameter of a method that is no staticmethod, not rebound in it."""
    cls = mod.cls(cls_name)
    defined = set(extra_defined)
    classes, foreign, seen = [], [], set()
    todo = [cls]
    while todo:
        c = todo.pop()
        if id(c) in seen:
            continue
        seen.add(id(c))
        classes.append(c)
        for b in c.bases:
            bs = src(b)
            if bs == "object":
                continue
            bn = bs.split(".")[-1]
            if isinstance(b, (ast.Name, ast.Attribute)) and mod.has(bn) and isinstance(mod.get(bn), ast.ClassDef):
                todo.append(mod.cls(bn))
            else:
                foreign.append(bs)
    dynamic = []
    declared = set()
    for c in classes:
        if c.decorator_list:
            dynamic.append(f"class decorator `@{src(c.decorator_list[0])}`")
        if c.keywords:
            dynamic.append(f"class keyword `{c.keywords[0].arg}`")
        # class-level statements, whatever block they sit in (not inside methods / nested classes)
        stack = list(c.body)
        while stack:
            st = stack.pop()
            if isinstance(st, (ast.FunctionDef, ast.AsyncFunctionDef)):
                defined.add(st.name)
                if st.name in ("__getattr__", "__getattribute__", "__setattr__"):
                    dynamic.append(f"`{st.name}`")
                continue
            if isinstance(st, ast.ClassDef):
                defined.add(st.name)
                continue
            if isinstance(st, ast.AnnAssign) and isinstance(st.target, ast.Name):
                (defined if st.value is not None else declared).add(st.target.id)
            elif isinstance(st, (ast.Import, ast.ImportFrom)):
                defined |= {(a.asname or a.name).split(".")[0] for a in st.names}
            else:
                for n in ast.walk(st) if not hasattr(st, "body") else [x for t_ in ([getattr(st, "target", None)] +
                                                                                     [i.optional_vars for i in getattr(st, "items", [])]) if t_ is not None
                                                                        for x in ast.walk(t_)]:
                    if isinstance(n, ast.Name) and isinstance(n.ctx, ast.Store):
                        defined.add(n.id)
                        if n.id == "__slots__":
                            dynamic.append("`__slots__`")
            for f in ("body", "orelse", "finalbody"):
                stack.extend(getattr(st, f, []) or [])
            for h in getattr(st, "handlers", []) or []:
                stack.extend(h.body)
        for n in ast.walk(c):
            if isinstance(n, ast.Attribute) and isinstance(n.value, ast.Name) and n.value.id == "self" \
                    and isinstance(n.ctx, ast.Store):
                defined.add(n.attr)
            if isinstance(n, ast.Call) and isinstance(n.func, ast.Name) and n.func.id == "setattr" and n.args \
                    and isinstance(n.args[0], ast.Name) and n.args[0].id == "self":
                defined.add("*")
            if isinstance(n, ast.Attribute) and n.attr == "__dict__":
                dynamic.append("`__dict__`")
            if isinstance(n, ast.Call) and isinstance(n.func, ast.Name) and n.func.id == "vars":
                dynamic.append("`vars(...)`")
    # attributes stored on another receiver anywhere in the module (`g._x = ...`, `setattr(g, 'x', ...)`)
    external = set()
    any_setattr = False
    for n in ast.walk(mod.tree):
        if isinstance(n, ast.Attribute) and isinstance(n.ctx, ast.Store) and not (isinstance(n.value, ast.Name) and n.value.id == "self"):
            external.add(n.attr)
        if isinstance(n, ast.Call) and isinstance(n.func, ast.Name) and n.func.id == "setattr" and len(n.args) >= 2:
            if isinstance(n.args[1], ast.Constant) and isinstance(n.args[1].value, str):
                external.add(n.args[1].value)
            elif not (isinstance(n.args[0], ast.Name) and n.args[0].id == "self"):
                any_setattr = True
    reads = Findings()
    for st in cls.body:
        if isinstance(st, ast.FunctionDef):
            is_static = any(src(d).split(".")[-1] == "staticmethod" for d in st.decorator_list)
            first = st.args.args[0].arg if st.args.args else (st.args.posonlyargs[0].arg if getattr(st.args, "posonlyargs", None) else None)
            self_rebound = any(isinstance(n, ast.Name) and n.id == "self" and isinstance(n.ctx, ast.Store) for n in ast.walk(st)) or \
                any(isinstance(n, (ast.FunctionDef, ast.Lambda)) and n is not st and any(a.arg == "self" for a in n.args.args) for n in ast.walk(st))
            guarded = {n.args[1].value for n in ast.walk(st) if isinstance(n, ast.Call) and isinstance(n.func, ast.Name)
                       and n.func.id in ("hasattr", "getattr") and len(n.args) >= 2 and isinstance(n.args[1], ast.Constant)
                       and isinstance(n.args[1].value, str)}
            tries = [t for t in ast.walk(st) if isinstance(t, ast.Try) and any(
                h.type is None or any(x in src(h.type) for x in ("AttributeError", "Exception", "BaseException")) for h in t.handlers)]
            for n in ast.walk(st):
                if isinstance(n, ast.Attribute) and isinstance(n.value, ast.Name) and n.value.id == "self" \
                        and isinstance(n.ctx, ast.Load) and n.attr not in defined and "*" not in defined:
                    why = None
                    if foreign:
                        why = f"{cls_name} inherits from `{foreign[0]}`, which is not defined in this module: its attributes were not followed"
                    elif dynamic:
                        why = f"{cls_name} defines attributes dynamically ({dynamic[0]})"
                    elif n.attr in declared:
                        why = f"`{n.attr}` is declared at class level (annotation without a value): what fills it was not followed"
                    elif n.attr in external or any_setattr:
                        why = f"an attribute `{n.attr}` is stored on an object outside the methods of the class (or through setattr): may be this one"
                    elif is_static or first != "self" or self_rebound:
                        why = f"`self` in {st.name} is not known to be the instance"
                    elif n.attr in guarded:
                        why = f"{st.name} tests for the attribute with hasattr / getattr"
                    elif any(any(x is n for b_ in t.body for x in ast.walk(b_)) for t in tries):
                        why = "the read sits in a try block that catches AttributeError"
                    elif n.attr.startswith("__") and n.attr.endswith("__"):
                        why = f"`{n.attr}` is a special attribute provided by the interpreter"
                    if why is None:
                        reads.append((st, n))
                    else:
                        reads.undecided.append((st, n, why))
    return reads, defined


# ======================================================================================================================
# G4: caches of an attribute are refreshed where the attribute is rebound
# ======================================================================================================================
def derived_state_refresh(cls: ast.ClassDef, source_attr: str):
    """G-derived-state: attributes of `cls` whose stored value is computed from `self.<source_attr>`
    (assigned, or filled through a subscript store, in any method) are caches of that attribute.
    Every method that rebinds `self.<source_attr>` must rebind or clear each of them afterwards.
    -> (derived: {attr: (node, method)}, missing: Findings [(method_node, assign_node, attr)]); `missing.undecided`: [(.., .., .., reason)]

    AUDIT - "method M rebinds the source and leaves cache A as it was" assumes that every way M can refresh A was looked at:
      * any store / del of `self.A` after the rebinding (plain, augmented, annotated, tuple, loop or with target) - checked;
      * `self.A.clear()` - checked; another in-place refill (`self.A[...] = ...`, `.update() / .fill() / ...`) may or may not renew every
        entry -> UNDECIDED;
      * a method of the class called after the rebinding that (transitively) stores A - checked (refreshed); a call of a `self.` method
        that is not defined in the class (inherited) or `setattr(self, ...)` -> UNDECIDED;
      * a property setter of the source attribute that stores A runs at every rebinding - checked (refreshed);
      * A was computed BEFORE the rebinding from the very object that becomes the source (`x = new; self.A = f(x); self.S = x`) - checked;
      * M is an internal helper (`_name`) and every method that calls it refreshes A after the call - checked (refreshed); some do,
        some do not -> UNDECIDED;
      * a snapshot (`self.A = self.S`, put back later with `self.S = self.A`) is no cache - checked (not derived).
      "after" is decided by line number inside one method: a refresh that sits on another branch than the rebinding -> UNDECIDED."""
    s_src = f"self.{source_attr}"

    def mentions(e, aliases=()):
        return any((isinstance(n, ast.Attribute) and src(n) == s_src) or (isinstance(n, ast.Name) and n.id in aliases) for n in ast.walk(e))

    def self_attr(t):
        while isinstance(t, ast.Subscript):
            t = t.value
        if isinstance(t, ast.Attribute) and isinstance(t.value, ast.Name) and t.value.id == "self":
            return t.attr
        return None

    derived = {}
    methods = [st for st in cls.body if isinstance(st, ast.FunctionDef)]
    by_name = {}
    for m in methods:
        by_name.setdefault(m.name, []).append(m)
    for m in methods:
        aliases = {n.targets[0].id for n in ast.walk(m) if isinstance(n, ast.Assign) and isinstance(n.targets[0], ast.Name)
                   and src(n.value) == s_src}
        for n in ast.walk(m):
            if isinstance(n, ast.Assign) and mentions(n.value, aliases):
                for t in n.targets:
                    for el in (t.elts if isinstance(t, ast.Tuple) else [t]):
                        a = self_attr(el)
                        if a and a != source_attr:
                            derived.setdefault(a, (n, m.name))
    # a snapshot of the source, put back later, keeps the source of the moment it was taken: not a cache
    for a, (node, meth) in list(derived.items()):
        if isinstance(node, ast.Assign) and src(node.value) == s_src and \
                any(isinstance(n, ast.Assign) and any(src(t) == s_src for t in n.targets) and src(n.value) == f"self.{a}" for n in ast.walk(cls)):
            del derived[a]

    def stores(fs, a, depth=3, seen=None):
        """True: a function of `fs` stores self.a (itself or through methods of the class); None: it may (inherited method, setattr)"""
        seen = set() if seen is None else seen
        res = False
        for f_ in fs:
            if id(f_) in seen:
                continue
            seen.add(id(f_))
            for n in ast.walk(f_):
                if isinstance(n, ast.Attribute) and isinstance(n.ctx, (ast.Store, ast.Del)) and src(n) == f"self.{a}":
                    return True
                if isinstance(n, ast.Call) and isinstance(n.func, ast.Attribute) and n.func.attr == "clear" and src(n.func.value) == f"self.{a}":
                    return True
                if isinstance(n, ast.Call) and isinstance(n.func, ast.Attribute) and isinstance(n.func.value, ast.Name) and n.func.value.id == "self":
                    if n.func.attr in by_name:
                        if depth > 0:
                            r = stores(by_name[n.func.attr], a, depth - 1, seen)
                            if r is True:
                                return True
                            res = res or r
                        else:
                            res = None
                    else:
                        res = None
                if isinstance(n, ast.Call) and isinstance(n.func, ast.Name) and n.func.id == "setattr" and n.args and src(n.args[0]) == "self":
                    res = None
        return res

    setters = [f_ for f_ in by_name.get(source_attr, []) if any(src(d).endswith(".setter") for d in f_.decorator_list)]

    def refresh_in(m, after_line, a):
        """does `m` renew self.a at or after line `after_line`?  True / False / (None, reason)"""
        maybe = None
        for n in ast.walk(m):
            ln = getattr(n, "lineno", None)
            if ln is None or ln < after_line:
                continue
            if isinstance(n, ast.Attribute) and isinstance(n.ctx, (ast.Store, ast.Del)) and src(n) == f"self.{a}":
                return True
            if isinstance(n, ast.Call) and isinstance(n.func, ast.Attribute):
                recv = n.func.value
                if src(recv) == f"self.{a}":
                    if n.func.attr == "clear":
                        return True
                    if n.func.attr in MUTATING_METHODS:
                        maybe = f"`{src(n)[:50]}` changes self.{a} in place: whether every entry is renewed is not followed"
                elif isinstance(recv, ast.Name) and recv.id == "self":
                    if n.func.attr in by_name:
                        r = stores(by_name[n.func.attr], a)
                        if r is True:
                            return True
                        if r is None:
                            maybe = maybe or f"self.{n.func.attr}() calls code outside the class: whether it renews self.{a} is not followed"
                    else:
                        maybe = maybe or f"self.{n.func.attr}() is not defined in the class: whether it renews self.{a} is not followed"
            if isinstance(n, ast.Call) and isinstance(n.func, ast.Name) and n.func.id == "setattr" and n.args and src(n.args[0]) == "self":
                maybe = maybe or "setattr(self, ...) may renew it"
            if isinstance(n, ast.Subscript) and isinstance(n.ctx, ast.Store) and self_attr(n) == a:
                maybe = maybe or f"`{src(n)[:50]} = ...` refills self.{a} in place: whether every entry is renewed is not followed"
        return (None, maybe) if maybe else False

    def from_new_source(m, a):
        new = {n.value.id for n in ast.walk(m) if isinstance(n, ast.Assign) and any(src(t) == s_src for t in n.targets)
               and isinstance(n.value, ast.Name)}
        new = {x for x in new if sum(1 for y in ast.walk(m) if isinstance(y, ast.Name) and y.id == x and isinstance(y.ctx, ast.Store)) <= 1}
        return any(isinstance(n, ast.Assign) and any(src(t) == f"self.{a}" for t in n.targets) and
                   any(isinstance(x, ast.Name) and x.id in new for x in ast.walk(n.value)) for n in ast.walk(m))

    missing = Findings()
    for m in methods:
        if m in setters:
            continue
        rebinds = [n for n in ast.walk(m) if isinstance(n, ast.Assign)
                   and any(isinstance(t, ast.Attribute) and src(t) == s_src for t in n.targets)]
        if not rebinds:
            continue
        last = max(rebinds, key=lambda n: n.lineno)
        for a in derived:
            r = refresh_in(m, last.lineno, a)
            if r is True:
                continue
            if from_new_source(m, a):
                continue
            if setters:
                rs = stores(setters, a)
                if rs is True:
                    continue
                if rs is None and r is False:
                    r = (None, f"the setter of the `{source_attr}` property calls code that may renew self.{a}")
            why = r[1] if isinstance(r, tuple) else None
            if why is None:
                # a refresh before the last rebinding (another branch / an earlier statement) - line order alone does not decide
                earlier = refresh_in(m, 0, a)
                if earlier is True and len(rebinds) > 1:
                    why = f"self.{a} is stored in {m.name} before the last of {len(rebinds)} rebindings: which rebinding each store follows is not followed"
            if why is None and m.name.startswith("_") and not (m.name.startswith("__") and m.name.endswith("__")):
                # an internal helper: do the methods that call it renew the cache after the call?
                verdicts = []
                for c_m in methods:
                    for c in ast.walk(c_m):
                        if c_m is not m and isinstance(c, ast.Call) and isinstance(c.func, ast.Attribute) and c.func.attr == m.name \
                                and isinstance(c.func.value, ast.Name) and c.func.value.id == "self":
                            verdicts.append(refresh_in(c_m, c.lineno, a))
                if verdicts and all(v is True for v in verdicts):
                    continue
                if verdicts and any(v is True or isinstance(v, tuple) for v in verdicts):
                    why = f"{m.name} is an internal helper; some of its callers renew self.{a} after the call"
            if why is None:
                missing.append((m, last, a))
            else:
                missing.undecided.append((m, last, a, why))
    return derived, missing


# ======================================================================================================================
# G-progress: iterations that leave the loop-carried state unchanged
# ======================================================================================================================
class StuckPath(tuple):
    """(decisions, terminator) of an iteration path that stores none of the loop-carried names, with
    `.verdict`: False - established: the state is exactly the names (S1), and the decisions on the path can hold together (S2)
                None  - not established, see `.why`
    `.feasible`: True / False / None (S2 alone), `.gaps`: constructs outside the state model (S1)"""
    verdict = None
    why = ""
    feasible = None
    gaps = ()


_PURE_BUILTINS = {"min", "max", "abs", "int", "float", "len", "round", "bool"}


def state_model_gaps(loop):
    """(S1) constructs in the loop that the name-based model of the loop-carried state does not cover -> [description]
    the loop may contain only names, literals, arithmetic, comparisons and calls of pure builtins; state read from or kept in an object
    (attribute, element), an iterator, a generator, a foreign call, a nested function, a try / with / for block is outside the model"""
    gaps = []
    for n in ast.walk(loop):
        if isinstance(n, ast.Call):
            if not (isinstance(n.func, ast.Name) and n.func.id in _PURE_BUILTINS) or n.keywords or any(isinstance(a, ast.Starred) for a in n.args):
                gaps.append(f"the call `{src(n)[:50]}` (line {n.lineno})")
        elif isinstance(n, (ast.Attribute, ast.Subscript)):
            gaps.append(f"`{src(n)[:50]}` (line {n.lineno}): state read from or kept in an object")
        elif isinstance(n, (ast.NamedExpr, ast.Yield, ast.YieldFrom, ast.Await, ast.Lambda, ast.ListComp, ast.SetComp, ast.DictComp, ast.GeneratorExp,
                            ast.Starred, ast.Try, ast.With, ast.For, ast.FunctionDef, ast.AsyncFunctionDef, ast.ClassDef, ast.Global, ast.Nonlocal,
                            ast.Delete, ast.Import, ast.ImportFrom, ast.AsyncFor, ast.AsyncWith)) or \
                (hasattr(ast, "Match") and isinstance(n, getattr(ast, "Match"))):
            gaps.append(f"`{src(n).splitlines()[0][:50]}` (line {getattr(n, 'lineno', '?')})")
    return gaps


def _lin(e):
    """e = base + c with an integer constant c -> (base node or None for a pure number, c); None when not of that form"""
    if isinstance(e, ast.Constant) and type(e.value) is int:
        return None, e.value
    if isinstance(e, ast.UnaryOp) and isinstance(e.op, ast.USub) and isinstance(e.operand, ast.Constant) and type(e.operand.value) is int:
        return None, -e.operand.value
    if isinstance(e, ast.BinOp) and isinstance(e.op, (ast.Add, ast.Sub)):
        if isinstance(e.right, ast.Constant) and type(e.right.value) is int:
            r = _lin(e.left)
            if r is None:
                return None
            return r[0], r[1] + (e.right.value if isinstance(e.op, ast.Add) else -e.right.value)
        if isinstance(e.op, ast.Add) and isinstance(e.left, ast.Constant) and type(e.left.value) is int:
            r = _lin(e.right)
            if r is None:
                return None
            return r[0], r[1] + e.left.value
        return None
    if isinstance(e, ast.Name):
        return e, 0
    if isinstance(e, ast.Call) and isinstance(e.func, ast.Name) and e.func.id in ("min", "max") and not e.keywords and e.args \
            and not any(isinstance(a, ast.Starred) for a in e.args):
        return e, 0
    return None


def _path_dnf(test, taken, ver, variables):
    """the decision as a disjunction of conjunctions of atoms; None when a part is outside the fragment
    atoms ('cmp', (var, version), 'le'|'lt'|'ge'|'gt', base key, k): var REL base + k   (base key '' for a number, (name, version) else)
          ('div', (A, version), (B, version), divisible)"""
    if isinstance(test, ast.UnaryOp) and isinstance(test.op, ast.Not):
        return _path_dnf(test.operand, not taken, ver, variables)
    if isinstance(test, ast.BoolOp):
        subs = [_path_dnf(v, taken, ver, variables) for v in test.values]
        if any(s is None for s in subs):
            return None
        if isinstance(test.op, ast.And) == taken:
            out = [[]]
            for s in subs:
                out = [a + b for a in out for b in s]
                if len(out) > 64:
                    return None
            return out
        return [c for s in subs for c in s]
    if isinstance(test, ast.Constant):
        return [[]] if bool(test.value) == taken else []

    def mod(e):
        return (e.left.id, e.right.id) if isinstance(e, ast.BinOp) and isinstance(e.op, ast.Mod) and isinstance(e.left, ast.Name) \
            and isinstance(e.right, ast.Name) else None
    if mod(test):                                      # `if M % v:` - true when not divisible
        A, B = mod(test)
        return [[("div", (A, ver.get(A, 0)), (B, ver.get(B, 0)), not taken)]]
    if not isinstance(test, ast.Compare):
        return None
    if len(test.ops) > 1:
        # a < b < c: the conjunction of the links (operands are evaluated once; they are names / arithmetic here)
        links = [ast.Compare(left=l, ops=[o], comparators=[r]) for l, o, r in zip([test.left] + test.comparators[:-1], test.ops, test.comparators)]
        return _path_dnf(ast.BoolOp(op=ast.And(), values=links), taken, ver, variables)
    l, op, r = test.left, test.ops[0], test.comparators[0]
    for x, y, o in ((l, r, op), (r, l, {ast.Lt: ast.Gt, ast.Gt: ast.Lt, ast.LtE: ast.GtE, ast.GtE: ast.LtE}.get(type(op), type(op))())):
        if mod(x) and isinstance(y, ast.Constant) and type(y.value) is int:
            c = y.value
            A, B = mod(x)
            if (isinstance(o, ast.Eq) and c == 0) or (isinstance(o, ast.Lt) and c == 1) or (isinstance(o, ast.LtE) and c == 0):
                return [[("div", (A, ver.get(A, 0)), (B, ver.get(B, 0)), taken)]]
            if (isinstance(o, ast.NotEq) and c == 0) or (isinstance(o, ast.Gt) and c == 0) or (isinstance(o, ast.GtE) and c == 1):
                return [[("div", (A, ver.get(A, 0)), (B, ver.get(B, 0)), not taken)]]
            return None
    rel = {ast.Lt: "lt", ast.LtE: "le", ast.Gt: "gt", ast.GtE: "ge"}.get(type(op))
    if rel is None:
        return None
    ll, lr = _lin(l), _lin(r)
    if ll is None or lr is None:
        return None
    # bring to  var REL base + k  with var a variable (a name the function stores)
    if isinstance(ll[0], ast.Name) and ll[0].id in variables:
        var, base, k = ll[0].id, lr[0], lr[1] - ll[1]
    elif isinstance(lr[0], ast.Name) and lr[0].id in variables:
        var, base, k = lr[0].id, ll[0], ll[1] - lr[1]
        rel = {"lt": "gt", "le": "ge", "gt": "lt", "ge": "le"}[rel]
    else:
        return None
    if not taken:
        rel = {"lt": "ge", "le": "gt", "gt": "le", "ge": "lt"}[rel]
    key = (var, ver.get(var, 0))

    def atom(b):
        if b is None:
            return ("cmp", key, rel, "", k)
        if isinstance(b, ast.Name):
            return ("cmp", key, rel, (b.id, ver.get(b.id, 0)), k)
        return None
    if isinstance(base, ast.Call):
        parts = []
        for a in base.args:
            la = _lin(a)
            if la is None or isinstance(la[0], ast.Call):
                return None
            p = ("cmp", key, rel, "" if la[0] is None else (la[0].id, ver.get(la[0].id, 0)), k + la[1])
            parts.append(p)
        # v <= min(a, b): both ; v > min(a, b): one of them ; max: the other way round
        conj = (base.func.id == "min") == (rel in ("le", "lt"))
        return [parts] if conj else [[p] for p in parts]
    a = atom(base)
    return [[a]] if a is not None else None


def _conj_status(atoms, variables):
    """one conjunction: True - satisfiable (integers and reals alike) for suitable values of the free quantities;
    False - contradictory whatever the quantities are; None - not modelled.  + text"""
    def show(a):
        if a[0] == "cmp":
            b = a[3][0] if a[3] else ""
            rhs = (b + (f" {'+' if a[4] > 0 else '-'} {abs(a[4])}" if a[4] else "")) if b else str(a[4])
            sym = {"le": "<=", "lt": "<", "ge": ">=", "gt": ">"}[a[2]]
            return f"{a[1][0]} {sym} {rhs}"
        return f"{a[1][0]} % {a[2][0]} {'==' if a[3] else '!='} 0"
    text = ", ".join(dict.fromkeys(show(a) for a in atoms)) or "no condition"
    ups, los = {}, {}          # key -> (bound, strict)
    for a in atoms:
        if a[0] != "cmp":
            continue
        key = (a[1], a[3])
        if a[2] in ("le", "lt"):
            cur = ups.get(key)
            new = (a[4], a[2] == "lt")
            if cur is None or new[0] < cur[0] or (new[0] == cur[0] and new[1]):
                ups[key] = new
        else:
            cur = los.get(key)
            new = (a[4], a[2] == "gt")
            if cur is None or new[0] > cur[0] or (new[0] == cur[0] and new[1]):
                los[key] = new
    int_tight = False
    for key, (lo, ls) in los.items():
        if key in ups:
            hi, hs = ups[key]
            if lo > hi or (lo == hi and (ls or hs)):
                return False, text                       # contradictory over the reals, hence over the integers
            # an integer exists in the interval?  (lo, hi] / [lo, hi) / (lo, hi) / [lo, hi] with integer offsets
            n_int = (hi - (1 if hs else 0)) - (lo + (1 if ls else 0)) + 1
            if n_int < 1:
                int_tight = True                          # satisfiable for reals only: not decided (the quantities may be integers)
    divs = {}
    for a in atoms:
        if a[0] == "div" and divs.setdefault((a[1], a[2]), a[3]) != a[3]:
            return False, text
    if int_tight:
        return None, f"`{text}` holds for non-integer values only: whether the quantities are integers is not known"
    vs = {a[1] for a in atoms if a[0] == "cmp"} | {a[2] for a in atoms if a[0] == "div"}
    if len(vs) > 1:
        return None, f"the decisions concern several values ({sorted(v[0] for v in vs)}) whose relation is not modelled"
    for a in atoms:
        if a[0] == "cmp" and a[3] and a[3][0] in variables:
            return None, f"`{show(a)}` compares with the local `{a[3][0]}`, whose value is not modelled"
        if a[0] == "div" and a[1][0] in variables:
            return None, f"`{show(a)}` divides the local `{a[1][0]}`, whose value is not modelled"
    if any(a[0] == "div" for a in atoms):
        for (var, base), (k, strict) in ups.items():
            if not base and k - (1 if strict else 0) < 2:
                return None, f"`{text}`: a value below 2 divides everything / is outside the admissible range"
    return True, text


def path_feasible(loop, dec, variables):
    """(S2) can the iteration path `dec` be taken?  Joint satisfiability of the loop test, the decisions on the path and what inner
    `while` loops establish on leaving, over atoms `v REL B + k` (v a local, B a quantity the function does not store, or a number;
    min / max bounds split) and `M % v == 0 / != 0`.  -> (True, atoms) / (False, why) / (None, what is not modelled).
    AUDIT: True means the decisions do not exclude each other for suitable values of the local and the free quantities - NOT that the
    program reaches such a state; the caller's diagnosis has to say 'if this state is reached'."""
    taken = {id(t): v for t, v in dec}
    items = []

    def walk(stmts):
        for st in stmts:
            if isinstance(st, ast.If):
                if id(st.test) not in taken:
                    return None
                items.append(("dec", st.test, taken[id(st.test)]))
                r = walk(st.body if taken[id(st.test)] else st.orelse)
                if r is not True:
                    return r
            elif isinstance(st, (ast.Break, ast.Return, ast.Raise)):
                return None
            elif isinstance(st, ast.Continue):
                return "back"
            else:
                items.append(("stmt", st))
        return True
    if walk(loop.body) not in (True, "back"):
        return None, "the path could not be replayed statement by statement"
    ver = {}
    first = _path_dnf(loop.test, True, ver, variables)
    if first is None:
        return None, f"the loop test `{src(loop.test)[:60]}` is outside the modelled fragment"
    clauses = [first]
    for it in items:
        if it[0] == "dec":
            d = _path_dnf(it[1], it[2], ver, variables)
            if d is None:
                return None, f"the decision `{src(it[1])[:60]}` is outside the modelled fragment (comparisons of a local with a free quantity, divisibility tests)"
            clauses.append(d)
            continue
        st = it[1]
        for nm in {n.id for n in ast.walk(st) if isinstance(n, ast.Name) and isinstance(n.ctx, (ast.Store, ast.Del))}:
            ver[nm] = ver.get(nm, 0) + 1
        if isinstance(st, ast.While) and not st.orelse and not any(isinstance(n, (ast.Break, ast.Return)) for n in ast.walk(st)):
            d = _path_dnf(st.test, False, ver, variables)       # on leaving an inner loop its test is false
            if d is not None:
                clauses.append(d)
    conjs = [[]]
    for d in clauses:
        conjs = [a + b for a in conjs for b in d]
        if len(conjs) > 256:
            return None, "too many cases"
    unknown = None
    for c in conjs:
        v, text = _conj_status(c, variables)
        if v is True:
            return True, text
        if v is None:
            unknown = text
    if unknown is not None:
        return None, unknown
    return False, "the decisions on the path contradict each other"


def stuck_iterations(loop: ast.While):
    """G-progress: paths through one iteration of `loop` that reach the back edge (end of body or `continue`)
    without assigning any loop-carried name.  The body is deterministic in its local state, so such a path,
    if feasible, repeats forever.  Nested loops count as (possible) writes of everything they assign, calls with
    side effects (method calls on names, subscript stores) count as progress too - only a definitely state-preserving
    path is returned.  -> (carried names, [StuckPath], number of paths) with path = (list of (test node, taken: bool), terminator)

    AUDIT - "the same iteration repeats forever" follows from "no loop-carried NAME is stored on the path" only when
      (S1) the names are the whole state of the iteration: nothing it reads lives in an object (attribute, element), an iterator
           (`next`), a generator, or behind a call - `state_model_gaps(loop)`; any gap -> every path of the loop is UNDECIDED;
      (S2) the path can be taken: its decisions are jointly satisfiable - `path_feasible`; contradictory -> the path does not exist
           (dropped); not modelled -> UNDECIDED.
    Each returned path carries `.verdict` (False: S1 and S2 established; None: not) and `.why`."""
    assigned = set()
    for n in ast.walk(loop):
        if isinstance(n, ast.Name) and isinstance(n.ctx, ast.Store):
            assigned.add(n.id)

    def reads(e):
        return {n.id for n in ast.walk(e) if isinstance(n, ast.Name) and isinstance(n.ctx, ast.Load)}

    carried = set(reads(loop.test)) & assigned
    paths = []       # (decisions, written, effect, end)

    def run(stmts, k, dec, written, effect, cont):
        """walk stmts[k:], then the continuation `cont` (list of (stmts, k) frames)"""
        if k == len(stmts):
            if cont:
                (s2, k2), rest = cont[0], cont[1:]
                run(s2, k2, dec, written, effect, rest)
            else:
                paths.append((dec, written, effect, "end of body"))
            return
        st = stmts[k]
        if isinstance(st, ast.If):
            for r in reads(st.test):
                if r in assigned and r not in written:
                    carried.add(r)
            # a walrus in the test stores a name
            w_t = {n.target.id for n in ast.walk(st.test) if isinstance(n, ast.NamedExpr) and isinstance(n.target, ast.Name)}
            # (a call in the test is no progress by itself: it is a gap of the state model, see state_model_gaps)
            run(st.body, 0, dec + [(st.test, True)], written | w_t, effect, [(stmts, k + 1)] + cont)
            run(st.orelse, 0, dec + [(st.test, False)], written | w_t, effect, [(stmts, k + 1)] + cont)
            return
        if isinstance(st, (ast.Break, ast.Return, ast.Raise)):
            return
        if isinstance(st, ast.Continue):
            paths.append((dec, written, effect, f"continue (line {st.lineno})"))
            return
        if isinstance(st, (ast.While, ast.For, ast.With, ast.Try)) or hasattr(st, "body"):
            for r in reads(st):
                if r in assigned and r not in written:
                    carried.add(r)
            w = {n.id for n in ast.walk(st) if isinstance(n, ast.Name) and isinstance(n.ctx, ast.Store)}
            eff = effect or any(isinstance(n, ast.Call) for n in ast.walk(st))
            # a nested block that can leave the loop / the function on some path is not followed: the path through it is kept (it may
            # also fall through), its exits are someone else's paths
            run(stmts, k + 1, dec, written | w, eff, cont)
            return
        rd = set()
        wr = set()
        eff = effect
        if isinstance(st, ast.Assign):
            rd = reads(st.value)
            for t in st.targets:
                for n in ast.walk(t):
                    if isinstance(n, ast.Name) and isinstance(n.ctx, ast.Store):
                        wr.add(n.id)
                if not isinstance(t, (ast.Name, ast.Tuple)):
                    eff = True
                    rd |= reads(t)
        elif isinstance(st, ast.AugAssign):
            rd = reads(st.value) | ({st.target.id} if isinstance(st.target, ast.Name) else reads(st.target))
            if isinstance(st.target, ast.Name):
                wr.add(st.target.id)
            else:
                eff = True
        else:
            rd = reads(st)
            wr |= {n.id for n in ast.walk(st) if isinstance(n, ast.Name) and isinstance(n.ctx, (ast.Store, ast.Del))}
        wr |= {n.target.id for n in ast.walk(st) if isinstance(n, ast.NamedExpr) and isinstance(n.target, ast.Name)}
        if any(isinstance(n, ast.Call) and isinstance(n.func, ast.Attribute) and isinstance(n.func.value, ast.Name)
               and n.func.value.id not in ("np", "math") for n in ast.walk(st)):
            eff = True
        for r in rd:
            if r in assigned and r not in written:
                carried.add(r)
        run(stmts, k + 1, dec, written | wr, eff, cont)

    run(loop.body, 0, [], frozenset(), False, [])
    gaps = state_model_gaps(loop)
    # the variables of the feasibility argument: every name stored anywhere in the enclosing function (else: in the loop)
    fn = parent(loop)
    while fn is not None and not isinstance(fn, (ast.FunctionDef, ast.AsyncFunctionDef)):
        fn = parent(fn)
    variables = {n.id for n in ast.walk(fn if fn is not None else loop) if isinstance(n, ast.Name) and isinstance(n.ctx, (ast.Store, ast.Del))}
    params_stored = fn is not None and bool({a.arg for a in fn.args.args + fn.args.kwonlyargs} & variables)
    stuck = []
    for dec, written, effect, end in paths:
        if effect or (set(written) & carried):
            continue
        p = StuckPath((dec, end))
        p.gaps = tuple(gaps)
        if gaps:
            p.feasible, ftext = None, ""
            p.verdict, p.why = None, (f"the loop holds {gaps[0]}" + (f" and {len(gaps) - 1} more such constructs" if len(gaps) > 1 else "") +
                                      ": the names are not known to be the whole state of the iteration")
        else:
            p.feasible, ftext = path_feasible(loop, dec, variables)
            if p.feasible is True and not params_stored:
                p.verdict, p.why = False, f"the decisions on the path can hold together ({ftext})"
            elif p.feasible is True:
                p.verdict, p.why = None, "a parameter is changed in the function: the free quantities of the feasibility argument are not free"
            elif p.feasible is False:
                p.verdict, p.why = None, f"the path cannot be taken: {ftext}"
            else:
                p.verdict, p.why = None, f"cannot decide that the path can be taken: {ftext}"
        stuck.append(p)
    return carried, stuck, len(paths)


# ======================================================================================================================
# G-memo: in-place changes of memoised results
# ======================================================================================================================
CACHE_DECORATORS = ("lru_cache", "cache", "functools.lru_cache", "functools.cache", "cached_property", "functools.cached_property")


def memoised_functions(tree: ast.Module):
    """names of module-level functions (and methods) whose result is memoised by a decorator"""
    out = set()
    for n in ast.walk(tree):
        if isinstance(n, ast.FunctionDef):
            for d in n.decorator_list:
                f = d.func if isinstance(d, ast.Call) else d
                if src(f) in CACHE_DECORATORS:
                    out.add(n.name)
    return out


def memoised_result_mutations(tree: ast.Module):
    """G-memo: in-place changes of an object returned by a memoised function: the cache hands out the same
    object to every later caller with the same arguments.  -> (memoised names, Findings [(function, node, description)])
    AUDIT: (M1) the callee IS the memoised function: calls are matched by name, so every definition of that name in the module must be
    memoised (a second, plain definition of the name -> UNDECIDED); (M2) the object changed is the cached one (alias rules A1-A3 of
    shared_state_mutations, with the kind of the result read off the `return` statements of the memoised function)."""
    memo = memoised_functions(tree)
    out = Findings()
    if not memo:
        return memo, out
    ambiguous = set()
    for n in ast.walk(tree):
        if isinstance(n, (ast.FunctionDef, ast.AsyncFunctionDef)) and n.name in memo:
            if not any(src(d.func if isinstance(d, ast.Call) else d) in CACHE_DECORATORS for d in n.decorator_list):
                ambiguous.add(n.name)

    def pred(s_):
        return any(s_.startswith(m + "(") or s_.startswith("self." + m + "(") or s_ == "self." + m for m in memo)
    for fn in [n for n in ast.walk(tree) if isinstance(n, ast.FunctionDef)]:
        # a local or parameter named like the memoised function hides it
        shadow = {a.arg for a in fn.args.args + fn.args.kwonlyargs} | {n.id for n in ast.walk(fn) if isinstance(n, ast.Name) and isinstance(n.ctx, ast.Store)}
        res = shared_state_mutations(fn, pred, scope=tree)
        for node, desc in res:
            root = desc.split("`")[-2] if "`" in desc else ""
            name = root.split("(")[0].split(".")[-1]
            rec = (fn, node, desc.replace("the stored", "the memoised result"))
            if name in ambiguous or name in shadow:
                out.undecided.append(rec + (f"`{name}` is also defined without a cache decorator / rebound locally: which one is called is not followed",))
            else:
                out.append(rec)
        for node, desc, why in res.undecided:
            out.undecided.append((fn, node, desc.replace("the stored", "the memoised result"), why))
    return memo, out


_MEMO_SELFTEST = """
from functools import lru_cache
@lru_cache(maxsize=None)
def table(n):
    return [i for i in range(n)]
def user(n):
    t = table(n)
    t.pop(0)
    return t
def reader(n):
    t = list(table(n))
    t.pop(0)
    return t
def slicer(n):
    t = table(n)[1:]
    t.pop(0)
    t[0] = 5
    return t
"""


def memo_selftest():
    memo, out = memoised_result_mutations(ast.parse(_MEMO_SELFTEST))
    return memo == {"table"} and [f.name for f, _, _ in out] == ["user"] and not out.undecided


# ======================================================================================================================
# G5: values kept between calls under a guard
# ======================================================================================================================
def stale_cache_keys(fn: ast.FunctionDef):
    """G-cache-key: `if <guard>: <recompute self.X from parameters>` keeps self.X from the previous call when the
    guard is false, so the guard must mention every parameter the recomputed value depends on.
    -> Findings [(if node, attribute, parameters missing from the guard)]; `.undecided`: [(if node, attribute, missing, reason)]

    AUDIT - "a later call with the same guard value and another <p> reuses the previous value" assumes
      (K1) the guard's value is a function of the parameters it mentions and of remembered keys only: the test is built from
           parameters, constants, comparisons / and / or / not, locals computed from parameters (expanded), and attributes of self
           that the guarded block sets from parameters (the remembered keys).  A call in the test, another attribute of self (a
           validity flag that other code may reset when <p> changes), a local that is not followed -> UNDECIDED;
      (K2) when the guard is false the value of the previous call is what is read: no else branch (checked), the attribute is read
           outside the guarded block (checked) and is not stored anywhere else in the method (else UNDECIDED);
      (K3) nothing else invalidates on <p>: no other `if` of the method whose test mentions <p> stores the attribute or one of the
           remembered keys (else UNDECIDED)."""
    params = {a.arg for a in fn.args.args + fn.args.kwonlyargs + getattr(fn.args, "posonlyargs", []) if a.arg != "self"}
    if fn.args.vararg is not None:
        params.add(fn.args.vararg.arg)
    if fn.args.kwarg is not None:
        params.add(fn.args.kwarg.arg)
    out = Findings()

    def pnames(e):
        return {n.id for n in ast.walk(e) if isinstance(n, ast.Name) and n.id in params}

    def self_attr(t):
        while isinstance(t, ast.Subscript):
            t = t.value
        if isinstance(t, ast.Attribute) and isinstance(t.value, ast.Name) and t.value.id == "self":
            return t.attr
        return None

    # locals of the method: name -> list of value expressions (None for a store that is not a plain assignment)
    local_defs: dict[str, list] = {}
    for n in ast.walk(fn):
        if isinstance(n, ast.Assign):
            for t in n.targets:
                if isinstance(t, ast.Name):
                    local_defs.setdefault(t.id, []).append(n.value)
                else:
                    for x in ast.walk(t):
                        if isinstance(x, ast.Name) and isinstance(x.ctx, ast.Store):
                            local_defs.setdefault(x.id, []).append(None)
        elif isinstance(n, ast.Name) and isinstance(n.ctx, ast.Store) and not isinstance(parent(n), ast.Assign):
            local_defs.setdefault(n.id, []).append(None)

    def guard_params(test, block_keys):
        """(parameters the guard's value depends on, reason why that set is not established or None)"""
        gp, why = set(), None
        seen = set()

        def visit(e, depth=0):
            nonlocal why
            for n in ast.walk(e):
                if isinstance(n, ast.Call):
                    f = n.func
                    if not (isinstance(f, ast.Name) and f.id in ("abs", "len", "float", "int", "tuple", "id", "round", "min", "max", "bool", "isinstance")) and \
                            not (isinstance(f, ast.Attribute) and isinstance(f.value, ast.Name) and f.value.id in _NP):
                        why = why or f"the guard calls `{src(f)}`: what its value depends on is not followed"
                elif isinstance(n, ast.Attribute) and isinstance(n.value, ast.Name) and n.value.id == "self" and isinstance(n.ctx, ast.Load):
                    if n.attr not in block_keys and not isinstance(parent(n), ast.Call):
                        why = why or (f"the guard reads `self.{n.attr}`, which the guarded block does not set from the arguments: other code may "
                                      "reset it when an argument changes")
                elif isinstance(n, ast.Name) and isinstance(n.ctx, ast.Load):
                    if n.id in params:
                        gp.add(n.id)
                    elif n.id in local_defs and n.id not in seen:
                        seen.add(n.id)
                        for v in local_defs[n.id]:
                            if v is None or depth > 3:
                                why = why or f"the guard reads the local `{n.id}`, whose value is not followed"
                            else:
                                visit(v, depth + 1)
                elif isinstance(n, (ast.Lambda, ast.ListComp, ast.GeneratorExp, ast.NamedExpr, ast.Await, ast.Starred)):
                    why = why or f"the guard contains `{src(n)[:40]}`: not followed"
        visit(test)
        return gp, why

    for iff in ast.walk(fn):
        if not isinstance(iff, ast.If) or iff.orelse:
            continue
        # the guard compares against remembered state
        if not any(isinstance(n, ast.Attribute) and isinstance(n.value, ast.Name) and n.value.id == "self" for n in ast.walk(iff.test)):
            continue
        # locals computed inside the guarded block from parameters
        local_dep = {}
        writes = []
        for st in iff.body:
            for n in ast.walk(st):
                if isinstance(n, ast.Assign):
                    dep = pnames(n.value) | {d for x in ast.walk(n.value) if isinstance(x, ast.Name) for d in local_dep.get(x.id, ())}
                    for t in n.targets:
                        for el in (t.elts if isinstance(t, (ast.Tuple, ast.List)) else [t]):
                            a = self_attr(el)
                            if a:
                                writes.append((a, dep))
                            elif isinstance(el, ast.Name):
                                local_dep[el.id] = dep
                elif isinstance(n, ast.AugAssign):
                    a = self_attr(n.target)
                    if a:
                        writes.append((a, pnames(n.value) | {d for x in ast.walk(n.value) if isinstance(x, ast.Name) for d in local_dep.get(x.id, ())}))
                elif isinstance(n, ast.Call):
                    for k in n.keywords:
                        if k.arg == "out" and self_attr(k.value):
                            dep = set()
                            for x in list(n.args) + [kk.value for kk in n.keywords if kk.arg != "out"]:
                                dep |= pnames(x) | {d for y in ast.walk(x) if isinstance(y, ast.Name) for d in local_dep.get(y.id, ())}
                            writes.append((self_attr(k.value), dep))
        block_keys = {a for a, dep in writes}
        gp0 = pnames(iff.test)
        gp, gwhy = guard_params(iff.test, block_keys)
        in_iff = {id(x) for x in ast.walk(iff)}
        for a, dep in writes:
            # the remembered key itself (self._last = c) is no cached value
            missing = dep - gp
            if missing and dep != gp and not (len(dep) == 1 and dep <= gp):
                # only values read again outside the guarded block are caches
                used_outside = any(isinstance(n, ast.Attribute) and n.attr == a and isinstance(n.value, ast.Name) and n.value.id == "self"
                                   and id(n) not in in_iff for n in ast.walk(fn))
                if not used_outside:
                    continue
                why = gwhy
                # (K2) stored elsewhere in the method as well
                if why is None and any(isinstance(n, ast.Attribute) and n.attr == a and isinstance(n.value, ast.Name) and n.value.id == "self"
                                       and isinstance(n.ctx, (ast.Store, ast.Del)) and id(n) not in in_iff for n in ast.walk(fn)):
                    why = f"self.{a} is also stored outside the guarded block: which value is read when the guard is false is not followed"
                if why is None and any(isinstance(n, ast.Subscript) and isinstance(n.ctx, ast.Store) and self_attr(n) == a and id(n) not in in_iff
                                       for n in ast.walk(fn)):
                    why = f"self.{a} is also filled outside the guarded block: which value is read when the guard is false is not followed"
                # (K3) another test on the missing parameter that resets the cache or a key
                if why is None:
                    for other in ast.walk(fn):
                        if isinstance(other, ast.If) and other is not iff and (pnames(other.test) & missing) and id(other) not in in_iff:
                            st_attrs = {self_attr(n) for b_ in other.body + other.orelse for n in ast.walk(b_)
                                        if isinstance(n, (ast.Attribute, ast.Subscript)) and isinstance(n.ctx, (ast.Store, ast.Del))}
                            if st_attrs & (block_keys | {a}) or any(isinstance(n, ast.Call) for b_ in other.body + other.orelse for n in ast.walk(b_)):
                                why = (f"`if {src(other.test)[:50]}` (line {other.lineno}) tests {sorted(pnames(other.test) & missing)} and "
                                       "changes remembered state: it may invalidate the value")
                                break
                if why is None:
                    out.append((iff, a, sorted(missing)))
                else:
                    out.undecided.append((iff, a, sorted(missing), why))
    return out


_CACHE_SELFTEST = """
class A:
    def step(self, f, c, dt):
        if c != self._last:
            self._feet[:] = self._pts - c * dt
            self._last = c
        use(self._feet)
    def good(self, f, c, dt):
        if c != self._last or dt != self._lastdt:
            self._feet[:] = self._pts - c * dt
            self._last = c
            self._lastdt = dt
        use(self._feet)
    def keyed(self, f, c, dt):
        key = (c, dt)
        if key != self._last:
            self._feet[:] = self._pts - c * dt
            self._last = key
        use(self._feet)
    def flagged(self, f, c, dt):
        if not self._valid or c != self._last:
            self._feet[:] = self._pts - c * dt
            self._last = c
        use(self._feet)
"""


def cache_selftest():
    cls = ast.parse(_CACHE_SELFTEST).body[0]
    for n in ast.walk(cls):
        for ch in ast.iter_child_nodes(n):
            ch._parent = n
    a = stale_cache_keys(cls.body[0])
    b = stale_cache_keys(cls.body[1])
    c = stale_cache_keys(cls.body[2])
    d = stale_cache_keys(cls.body[3])
    return len(a) == 1 and a[0][1] == "_feet" and a[0][2] == ["dt"] and not a.undecided and not b and not b.undecided \
        and not c and not c.undecided and not d and len(d.undecided) == 1


def check_cache_keys(chk, rel, cls_name):
    """rule G5-cache-key over every method of a class"""
    if not cache_selftest():
        raise AnalysisError("the cache-key lint no longer recognises its own positive example")
    cls = chk.mod(rel).cls(cls_name)
    n = 0
    for m in [st for st in cls.body if isinstance(st, ast.FunctionDef)]:
        res = stale_cache_keys(m)
        for iff, a, missing in res:
            n += 1
            # AUDIT: assumptions K1-K3 of stale_cache_keys, established there
            chk.ob("G5-cache-key", iff, f"self.{a} recomputed only if {src(iff.test)[:60]}", False,
                   f"`self.{a}` is recomputed from the arguments only when `{src(iff.test)}`, but it also depends on {missing}: a later call "
                   f"with the same guard value and another {'/'.join(missing)} reuses the value of the previous call",
                   file=rel, func=f"{cls_name}.{m.name}")
        for iff, a, missing, why in res.undecided:
            chk.ob("G5-cache-key", iff, f"self.{a} recomputed only if {src(iff.test)[:60]}", None,
                   f"`self.{a}` is recomputed from the arguments only when `{src(iff.test)}` and also depends on {missing}; {why}: "
                   "cannot decide that a stale value is reused", file=rel, func=f"{cls_name}.{m.name}")
    chk.ob("G5-cache-key", cls, f"{cls_name}: values kept between calls", n == 0,
           "no value remembered across calls is reused under a guard that ignores an argument it depends on" if n == 0 else
           f"{n} remembered value(s) reused under an incomplete guard", file=rel, func=cls_name,
           nontrivial=False)
