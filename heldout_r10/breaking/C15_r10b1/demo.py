import sys, os
sys.path.insert(0, os.getcwd())
import types
import numpy as np


def _install_fake_mpi():
    try:
        import mpi4py.MPI  # noqa
        return
    except Exception:
        pass

    class Comm:
        def __init__(self, ndims=1): self._nd = ndims
        def Get_rank(self): return 0
        def Get_size(self): return 1
        def Create_cart(self, dims, periods=None, reorder=False): return Comm(len(dims))
        def Sub(self, remain): return Comm()
        def Get_coords(self, rank): return [0]*self._nd
        def Split(self, color=0, key=0): return Comm()
        def Barrier(self): pass
        def Alltoall(self, s, r): np.asarray(r)[...] = np.asarray(s)
        def gather(self, x, root=0): return [x]
        def bcast(self, x, root=0): return x
        def reduce(self, x, op=None, root=0): return x
        def allreduce(self, x, op=None): return x
        def Free(self): pass
    MPI = types.ModuleType('mpi4py.MPI')
    MPI.Comm = Comm
    MPI.Intracomm = Comm
    MPI.Cartcomm = Comm
    MPI.COMM_WORLD = Comm()
    for n in ('DOUBLE', 'MIN', 'MAX', 'SUM', 'IN_PLACE', 'COMPLEX', 'DOUBLE_COMPLEX', 'INT'):
        setattr(MPI, n, n)
    pkg = types.ModuleType('mpi4py')
    pkg.MPI = MPI
    sys.modules['mpi4py'] = pkg
    sys.modules['mpi4py.MPI'] = MPI


_install_fake_mpi()
import pygyro
assert os.path.abspath(pygyro.__file__).startswith(os.path.abspath(os.getcwd()) + os.sep), pygyro.__file__

from math import pi
from mpi4py import MPI
from scipy.interpolate import BSpline
from numpy.polynomial.legendre import leggauss
from pygyro.model.layout import getLayoutHandler
from pygyro.model.grid import Grid
from pygyro.initialisation.constants import Constants
from pygyro.initialisation import initialiser_funcs as init
from pygyro import splines as spl
from pygyro.poisson.poisson_solver import QuasiNeutralitySolver, DiffEqSolver

comm = MPI.COMM_WORLD


def make_space(npts, rlims=None, constants=None):
    constants = constants or Constants()
    if rlims is None:
        rlims = [constants.rMin, constants.rMax]
    domain = [list(rlims), [0, 2*pi], [0, 1]]
    degree = [3, 3, 3]
    period = [False, True, True]
    nkts = [n+1+d*(int(p)-1) for (n, d, p) in zip(npts, degree, period)]
    breaks = [np.linspace(*lims, num=num) for (lims, num) in zip(domain, nkts)]
    knots = [spl.make_knots(b, d, p) for (b, d, p) in zip(breaks, degree, period)]
    bsplines = [spl.BSplines(k, d, p, True) for (k, d, p) in zip(knots, degree, period)]
    eta_grid = [b.greville for b in bsplines]
    layouts = {'mode_solve': [1, 2, 0], 'v_parallel': [0, 2, 1]}
    remapper = getLayoutHandler(comm, layouts, [1], eta_grid)
    return constants, bsplines, eta_grid, remapper, breaks[0]


def new_grids(eta_grid, bsplines, remapper):
    rho = Grid(eta_grid, bsplines, remapper, 'v_parallel', comm, dtype=np.complex128)
    phi = Grid(eta_grid, bsplines, remapper, 'mode_solve', comm, dtype=np.complex128)
    return rho, phi


def run_pipeline(solver, rho, phi, dens):
    """dens : array (nr, nz, ntheta).  Returns (modes, phi_real_space) as arrays (nr,nz,ntheta)."""
    if rho.currentLayout != 'v_parallel':
        rho.setLayout('v_parallel')
    if phi.currentLayout != 'mode_solve':
        phi.setLayout('mode_solve')
    rho._f[:] = dens
    solver.getModes(rho)
    modes = rho._f.copy()
    rho.setLayout('mode_solve')
    solver.solveEquation(phi, rho)
    phi.setLayout('v_parallel')
    rho.setLayout('v_parallel')
    solver.findPotential(phi)
    return modes, phi._f.copy()


class Reference:
    """Independent mode-by-mode FEM solve of
       -[d_r^2 + (1/r + n0'/n0) d_r - m^2/r^2] phi + [B^2/Te](phi - chi <phi>) = B^2 rho / n0
       with clamped cubic B-splines (scipy), dense algebra, homogeneous Neumann at rMin for m=0,
       Dirichlet elsewhere."""

    def __init__(self, breaks, rpts, degree, constants, adiabatic, chi, B=1.0):
        d = 3
        t = np.concatenate([[breaks[0]]*d, breaks, [breaks[-1]]*d])
        nb = len(t)-d-1
        self.nb = nb
        basis = [BSpline(t, np.eye(nb)[k], d, extrapolate=False) for k in range(nb)]
        n = degree//2+1
        x, w = leggauss(n)
        h = 0.5*(breaks[1:]-breaks[:-1])
        mid = 0.5*(breaks[1:]+breaks[:-1])
        q = (mid[:, None]+x[None, :]*h[:, None]).ravel()
        wq = (w[None, :]*h[:, None]).ravel()
        V = np.array([np.nan_to_num(b(q)) for b in basis])
        D = np.array([np.nan_to_num(b.derivative()(q)) for b in basis])
        n0 = init.n0(q, constants.CN0, constants.kN0, constants.deltaRN0, constants.rp)
        dn = init.n0deriv_normalised(q, constants.kN0, constants.rp, constants.deltaRN0)
        Te = init.Te(q, constants.CTe, constants.kTe, constants.deltaRTe, constants.rp)
        # rows: test function a, columns: trial function b
        self.M = np.einsum('aq,bq,q->ab', V, V, wq*q*B*B/n0)
        self.K = np.einsum('aq,bq,q->ab', D, D, wq*q) + np.einsum('aq,bq,q->ab', V, D, wq)
        self.A = np.einsum('aq,bq,q->ab', V, D, -wq*q*(1/q+dn))
        self.R = np.einsum('aq,bq,q->ab', V, V, wq*q*B*B/Te) if adiabatic else np.zeros((nb, nb))
        self.T = np.einsum('aq,bq,q->ab', V, V, wq/q)
        self.chi = chi if adiabatic else 0
        Ct = np.array([np.nan_to_num(b(rpts)) for b in basis])   # (nb, nr)
        # the last greville point is the end of the domain
        Ct[-1, -1] = 1.0
        self.C = Ct.T

    def solve_mode(self, m, rhs):
        """rhs : (nr,) complex values of mode m of rho at the r points; returns phi_m at the r points"""
        c = np.linalg.solve(self.C.astype(complex), rhs)
        S = self.K + self.A + m*m*self.T
        if m == 0:
            if self.chi == 0:
                S = S + self.R
            free = slice(0, self.nb-1)
        else:
            S = S + self.R
            free = slice(1, self.nb-1)
        u = np.zeros(self.nb, complex)
        u[free] = np.linalg.solve(S[free, free].astype(complex), (self.M @ c)[free])
        return self.C @ u

    def potential(self, dens):
        """dens (nr,nz,ntheta) -> phi (nr,nz,ntheta), plain DFT written out explicitly"""
        nr, nz, nt = dens.shape
        k = np.arange(nt)
        F = np.exp(-2j*np.pi*np.outer(k, k)/nt)          # forward DFT matrix
        modes = dens.astype(complex) @ F.T                 # (nr,nz,nt) index = fft order
        mnum = np.where(k <= (nt-1)//2, k, k-nt)           # signed mode numbers, fft order
        out = np.empty_like(modes)
        for a in range(nt):
            for z in range(nz):
                out[:, z, a] = self.solve_mode(int(mnum[a]), modes[:, z, a])
        return modes, (out @ np.conj(F).T)/nt


def relerr(a, b):
    s = np.abs(b).max()
    return np.abs(a-b).max()/(s if s > 0 else 1.0)

# ---------------------------------------------------------------- demo body
TOL = 1e-10
EXPECTED = None


def main():
    rng = np.random.default_rng(1234)
    bad = []
    finger = []
    configs = [(nr, nt, ad, chi) for nr in (16,) for nt in (8, 9, 12) for (ad, chi) in ((True, 0), (True, 1), (False, 0))]
    for nr, nt, adiabatic, chi in configs:
        npts = [nr, nt, 3]
        constants, bsplines, eta_grid, remapper, rbreaks = make_space(npts)
        kw = dict(chi=chi) if adiabatic else {}
        solver = QuasiNeutralitySolver(eta_grid, 6, bsplines[0], constants,
                                       adiabaticElectrons=adiabatic, **kw)
        ref = Reference(rbreaks, eta_grid[0], 6, constants, adiabatic, chi)
        rho, phi = new_grids(eta_grid, bsplines, remapper)
        theta = eta_grid[1]
        r = eta_grid[0]
        env = np.sin(np.pi*(r-r[0])/(r[-1]-r[0]))[:, None, None]
        tag = (nr, nt, adiabatic, chi)

        # 1. exact round trip getModes -> findPotential
        dens = rng.standard_normal((nr, 3, nt))
        rho._f[:] = dens
        solver.getModes(rho)
        if relerr(rho._f, np.fft.fft(dens, axis=-1)) > TOL:
            bad.append((tag, 'modes'))
        solver.findPotential(rho)
        if relerr(rho._f, dens) > TOL:
            bad.append((tag, 'round trip'))

        # 2. full pipeline on random density and on single perturbation modes
        cases = [dens]
        for m in (0, 1, nt//2, (nt-1)//2):
            cases.append(1e-3*env*np.cos(m*theta[None, None, :]+0.3)*np.ones((1, 3, 1)))
        for k, d in enumerate(cases):
            modes, pot = run_pipeline(solver, rho, phi, d)
            rmodes, rpot = ref.potential(d)
            e = relerr(pot, rpot)
            if e > TOL:
                bad.append((tag, 'potential case %d err %.2e' % (k, e)))
            if np.abs(pot.imag).max() > TOL*np.abs(pot).max():
                bad.append((tag, 'not real case %d' % k))
            finger.append(float(np.abs(pot).sum()))
            finger.append(float(pot.real[nr//2, 1, :].dot(np.arange(nt))))

        # 3. equilibrium: zero perturbed density gives zero potential
        modes, pot = run_pipeline(solver, rho, phi, np.zeros((nr, 3, nt)))
        if np.abs(pot).max() != 0:
            bad.append((tag, 'equilibrium'))

    finger = np.array(finger)
    if EXPECTED is None:
        pass
    else:
        exp = np.array(EXPECTED)
        if exp.shape != finger.shape or not np.allclose(finger, exp, rtol=1e-11, atol=0):
            bad.append(('all', 'outputs differ from the ones recorded on the unmodified library'))
    if bad:
        for b in bad[:20]:
            print('VIOLATION', b)
        return 1
    print('property C15 holds on %d configurations' % len(configs))
    return 0


if __name__ == '__main__':
    try:
        code = main()
    except Exception as e:  # an exception inside the pipeline is a failure of the property too
        import traceback
        traceback.print_exc()
        code = 1
    sys.exit(code)
