"""C12 - poloidal advection traces 2nd-order ExB characteristics and interpolates at the foot.

Engine F: the predictor, corrector, boundary fill and (implicit scheme) fixed-point map and
convergence measure are extracted from the kernels as formulas and compared with the
specification written from the property statement.  Plus dispatch / argument-role agreement.

Verdicts: a formula comparison is decisive (HOLDS / VIOLATED, the latter with the name of the wrong variant the
code equals when it is one of the known ones); whatever prevents extraction or comparison is UNDECIDED.  The rules
on the Python call site (argument roles, point order, work-array storage, interpolation before evaluation, loop
test) are three-valued: VIOLATED only for a recognised wrong form.  They are relational: both sides of an agreement
(constructor and call site, interpolation destination and spline handed to the kernel, writer and reader of the
per-plane potential splines) are extracted from the code and compared with each other, not with today's names.

Soundness audit (pass 4): every place that can say VIOLATED carries an `AUDIT` comment with the assumptions under which
the diagnosis is true of the code, and checks them (else UNDECIDED).  The main ones: the only observable of the explicit
kernel is f, so its stage rules are subordinated to the end-to-end comparison (`check_explicit`); the implicit kernel's
rules hold for the storage convention "the iterate is the only state carried between passes, in endPts_k1_*", which is
read off the code (`_pass_conventions`), everything a pass writes being unknown at the start of a pass; constructs that
the symbolic execution approximates are screened (`extraction_hazards`); atoms of conditions are identified up to
positive factors and sign, and a foot exactly on the radial boundary is not a case (`_Atoms`, `_boundary_tie`); role
tables apply only while the callee still has parameters of those names; "not found" (no iteration, no interpolation, no
writer of the cached splines) is a verdict only when every place it could be has been looked at.  Normalisations added
before extraction: whole-array constant fills and element-wise row statements become the loops they are, the axes of a
sweep are read off its subscripts (loop interchange), max/min take any number of operands.  New rule E2-result-in-place:
the array the kernel writes is the array object handed to step().
"""
from __future__ import annotations

import ast
import itertools
import re

import sympy as sp
from sympy import Symbol, Rational, Integer
from sympy.core.function import AppliedUndef

from ..core import src, guards_of, parent
from .. import units as U
from ..symx import (SymExec, Arr, ITE, Wrap, PI, make_args, Undecided, canon_rel, consistent, collect_ites,
                    alg_equal)
from ..kernels import SPLINE_HANDLERS, S2, FEQ, h_cross, h_scalar2
from .. import agree

WORK = ("drPhi_0", "dthetaPhi_0", "drPhi_k", "dthetaPhi_k", "endPts_k1_q", "endPts_k1_r", "endPts_k2_q", "endPts_k2_r")
EXPL = "general_poloidal_advection_step_expl"
IMPL = "general_poloidal_advection_step_impl"


def _scalar_args(ex, call, fold_ok):
    """the scalar operands of a builtin max/min call with two or more positional operands (numpy's maximum/minimum take
    exactly two: a third positional is `out`)"""
    if len(call.args) < 2 or call.keywords or any(isinstance(a, ast.Starred) for a in call.args) \
            or (len(call.args) > 2 and not fold_ok):
        raise Undecided(f"call `{src(call)[:60]}`")
    vals = [ex.ev(a) for a in call.args]
    if not all(isinstance(v, sp.Basic) for v in vals):
        raise Undecided(f"call `{src(call)[:60]}` on non-scalar operands")
    return vals


def _h_max(ex, call):
    """max(a, b, c, ...) = max(max(a, b), c): folded from the left (value-identical for real operands)"""
    vals = _scalar_args(ex, call, isinstance(call.func, ast.Name) and call.func.id == "max")
    out = vals[0]
    for b in vals[1:]:
        out = ITE(sp.Gt(b, out), b, out)
    return out


def _h_min(ex, call):
    vals = _scalar_args(ex, call, isinstance(call.func, ast.Name) and call.func.id == "min")
    out = vals[0]
    for b in vals[1:]:
        out = ITE(sp.Lt(b, out), b, out)
    return out


class FMod(sp.Function):
    """math.fmod(x, 2 pi) / numpy.fmod: the remainder with the sign of the DIVIDEND (C semantics), in (-2 pi, 2 pi)"""
    nargs = 1

    def _eval_is_extended_real(self):
        return True


def _h_mod(ex, call):
    """numpy.mod / numpy.remainder(x, m): the same function as the operator `x % m` (result has the sign of m)"""
    if len(call.args) != 2 or call.keywords:
        raise Undecided(f"call `{src(call)[:60]}`")
    return ex.binop(ast.Mod(), ex.ev(call.args[0]), ex.ev(call.args[1]), call)


def _h_fmod(ex, call):
    if len(call.args) != 2 or call.keywords:
        raise Undecided(f"call `{src(call)[:60]}`")
    a, b = ex.ev(call.args[0]), ex.ev(call.args[1])
    if isinstance(a, sp.Basic) and isinstance(b, sp.Basic) and sp.simplify(b - 2 * PI) == 0:
        return FMod(a)
    raise Undecided(f"call `{src(call)[:60]}`")


FMOD = ("the angle is reduced with fmod, whose result has the sign of the dividend: a negative angle (a characteristic that "
        "crosses theta = 0 backwards) stays in (-2 pi, 0) instead of being brought into [0, 2 pi), and the splines of phi and f "
        "are evaluated outside their domain; `x % (2 pi)` and numpy.mod give the result the sign of the divisor")


def setup(fn, mod=None, exclude=()):
    args = make_args(fn, funcs={"eval_spline_2d_cross": h_cross, "eval_spline_2d_scalar": h_scalar2})
    _RANK.update(_param_ranks(fn))
    calls = dict(SPLINE_HANDLERS)
    calls.update({"max": _h_max, "min": _h_min, "maximum": _h_max, "minimum": _h_min, "fmax": _h_max, "fmin": _h_min,
                  "mod": _h_mod, "remainder": _h_mod, "fmod": _h_fmod})
    env = dict(args)
    for q_ in exclude:
        # composed with the call site: a scalar parameter whose actual is an expression of the quantities of step() has that
        # value in the kernel (the specification keeps the plain symbols, which denote the quantities of step())
        for sym_, val_ in _SCALAR_SUBST.get(q_, {}).items():
            if sym_.name in env and isinstance(env[sym_.name], sp.Basic):
                env[sym_.name] = val_
    ex = SymExec(fn, env, calls=calls)
    if mod is not None:
        # helper functions of the kernel module (a scalar helper with several returns, a phase moved to a function of
        # its own) are analysed together with their caller: the call is replaced by the helper's body with the arguments
        # substituted (the engine's own inlining, bounded in depth)
        ex.module_funcs = {q: n for q, n in mod.functions().items()
                           if "." not in q and q not in calls and n is not fn and q not in exclude}
    return ex, args


def _tie_equalities(val):
    """expressions e with e = 0 implied by the truth assignment: `e < 0` false with `e <= 0` true; `e < 0` and `-e < 0` both
    false; `e <= 0` and `-e <= 0` both true; `e == 0` true"""
    out = []
    items = list(val.items())
    by = {}
    for (k, e), v in items:
        by.setdefault(e, {})[k] = v
    for e, d in by.items():
        if (d.get("lt") is False and d.get("le") is True) or d.get("eq") is True:
            out.append(e)
    for a_ in range(len(items)):
        for b_ in range(a_ + 1, len(items)):
            (k1, e1), v1 = items[a_]
            (k2, e2), v2 = items[b_]
            if k1 == k2 and k1 in ("lt", "le") and v1 == v2 and v1 == (k1 == "le") and _same_rational(e1, -e2):
                out.append(e1)
    return out


def _apply_equality(a, b, e):
    """the pairs (a, b) rewritten with e = 0 solved for one of its generators (a symbol or an applied function in which e
    is linear with a numeric coefficient)"""
    try:
        e = sp.expand(e)
    except Exception:
        return
    gens = sorted({g for g in e.atoms(Symbol, AppliedUndef, sp.Abs, Wrap)}, key=str)
    for g in gens:
        try:
            c = e.coeff(g)
            rest = sp.expand(e - c * g)
            if c == 0 or not c.is_number or rest.has(g):
                continue
            sol = -rest / c
            yield a.xreplace({g: sol}), b.xreplace({g: sol})
        except Exception:
            continue


def _boundary_tie(val):
    """the truth assignment puts a foot EXACTLY on the radial boundary: for one expression e that contains r_0 or r_max both
    `e < 0` is false and `e <= 0` is true.  The property compares only at nodes "whose foot is not within rounding distance
    of the radial boundary": whether such a foot counts as inside (`<`) or outside (`<=`) is not specified, so a case of
    this kind is not a counterexample.  (Comparisons of integers - loop counters, extents - are never skipped.)"""
    by = {}
    for (k, e), v in val.items():
        if k in ("lt", "le"):
            by.setdefault(e, {})[k] = v
    for e, d in by.items():
        if d.get("lt") is False and d.get("le") is True and e.is_integer is not True:
            for a_ in e.atoms(AppliedUndef):
                if str(a_.func) == "rPts" and len(a_.args) == 1 and not a_.args[0].has(Symbol("j", integer=True)) \
                        and not a_.args[0].has(Symbol("i", integer=True)):
                    return True
    return False


def _grid_order_ok(val):
    """the radial grid is increasing: r_0 < r_max.  A truth assignment that contradicts it is not a case."""
    r0 = sp.Function("rPts")(Integer(0))
    rmax = sp.Function("rPts")(Symbol("n0_rPts", integer=True, positive=True) - 1)
    d = rmax - r0
    for (k, e), v in val.items():
        if k in ("lt", "le"):
            if sp.expand(e - d) == 0 and v:          # r_max - r_0 < 0 (<= 0)
                return False
            if sp.expand(e + d) == 0 and not v:      # r_0 - r_max < 0 (<= 0)
                return False
    return True


def spec_symbols(args):
    i, j = Symbol("i", integer=True), Symbol("j", integer=True)
    q = args["qPts"].fn(i)
    r = args["rPts"].fn(j)
    dt, B0, v = args["dt"], args["B0"], args["v"]
    phi = tuple(Symbol("arr_" + n) if n.startswith(("kts", "coeffs")) else args[n]
                for n in ("kts1Phi", "deg1Phi", "kts2Phi", "deg2Phi", "coeffsPhi"))
    pol = tuple(Symbol("arr_" + n) if n.startswith(("kts", "coeffs")) else args[n]
                for n in ("kts1Pol", "deg1Pol", "kts2Pol", "deg2Pol", "coeffsPol"))
    consts = [args[n] for n in ("CN0", "kN0", "deltaRN0", "rp", "CTi", "kTi", "deltaRTi")]
    r0 = args["rPts"].fn(Integer(0))
    nr = Symbol("n0_rPts", integer=True, positive=True)
    rmax = args["rPts"].fn(nr - 1)

    def dr_phi(th, rr):
        return S2(th, rr, 0, 1, *phi)

    def dth_phi(th, rr):
        return S2(th, rr, 1, 0, *phi)
    return dict(i=i, j=j, q=q, r=r, dt=dt, B0=B0, v=v, phi=phi, pol=pol, consts=consts, r0=r0, rmax=rmax,
                dr_phi=dr_phi, dth_phi=dth_phi)


def fill_spec(S, th_foot, r_foot, nul):
    inside = S2(Wrap(th_foot), r_foot, 0, 0, *S["pol"])
    null_fill = ITE(sp.Lt(r_foot, S["r0"]), Integer(0), ITE(sp.Gt(r_foot, S["rmax"]), Integer(0), inside))
    feq_fill = ITE(sp.Lt(r_foot, S["r0"]), FEQ(S["r0"], S["v"], *S["consts"]),
                   ITE(sp.Gt(r_foot, S["rmax"]), FEQ(r_foot, S["v"], *S["consts"]), inside))
    return ITE(nul, null_fill, feq_fill)


# ---------------------------------------------------------------------------------------------------------
# comparison of conditionals level by level
#
# `symx.sym_equal` builds one truth table over the atomic comparisons of all conditionals as they are written.  An
# atom whose operands themselves contain a conditional (the corrected foot is compared with the radial bounds, and
# the corrector contains the in/out-of-domain conditional of the predictor point) is then only recognised as the
# same atom when the inner conditional is written the same way (`ITE(not c, a, b)` vs `ITE(c, b, a)` are two
# different texts).  Here the conditionals are resolved from the inside out: first the conditions that contain no
# conditional are given truth values, the conditionals they decide are replaced by the chosen arm, which makes the
# next layer of conditions conditional-free, and so on.  Atoms are identified up to polynomial identity.
# ---------------------------------------------------------------------------------------------------------

class _Atoms:
    """truth assignment over canonical atoms `(kind, expr)`; atoms whose expressions are identical as rational
    functions are one atom"""

    def __init__(self):
        self.rep = {}            # syntactic key -> (representative key, negated)

    def key2(self, k, e):
        """-> (representative atom, negated): `e < 0` and `2 e < 0` are one atom (positive rational factor removed);
        `e < 0` is the negation of `-e <= 0` and `e <= 0` the negation of `-e < 0`.  AUDIT: without this, two spellings of one
        condition (`d > pi` and `2 pi - d < d`) are independent atoms and the case analysis visits impossible cases, in which
        two equal formulas differ - a false difference."""
        if (k, e) in self.rep:
            return self.rep[(k, e)]
        e0 = e
        if k in ("lt", "le", "eq") and isinstance(e, sp.Basic):
            try:
                c_, p_ = sp.expand(e).primitive()
                if c_.is_positive:
                    e = p_
            except Exception:
                pass
        r = ((k, e), False)
        if k != "atom":
            for (k2, e2) in {x[0] for x in self.rep.values()}:
                if k2 == k and (e2 is e or _same_rational(e, e2)):
                    r = ((k2, e2), False)
                    break
                if k in ("lt", "le") and k2 in ("lt", "le") and k2 != k and _same_rational(e, -e2):
                    r = ((k2, e2), True)
                    break
        self.rep[(k, e0)] = r
        return r

    def key(self, k, e):
        return self.key2(k, e)[0]


def _opposite_consistent(val):
    """`e < 0` and `-e < 0` cannot both be true; `e <= 0` and `-e <= 0` cannot both be false"""
    items = [(k, e, v) for (k, e), v in val.items() if k in ("lt", "le")]
    for a_ in range(len(items)):
        for b_ in range(a_ + 1, len(items)):
            k1, e1, v1 = items[a_]
            k2, e2, v2 = items[b_]
            if k1 == k2 and v1 == v2 and v1 == (k1 == "lt") and _same_rational(e1, -e2):
                return False
    return True


def _same_rational(a, b):
    if a == b:
        return True
    if a.free_symbols != b.free_symbols:
        return False
    try:
        n, _ = sp.fraction(sp.together(a - b))
        return sp.expand(n) == 0
    except Exception:
        return False


def _cond_atoms(c, A, acc):
    if isinstance(c, (sp.And, sp.Or)) or (isinstance(c, sp.Not) and isinstance(c.args[0], (sp.And, sp.Or))):
        for a in (c.args if not isinstance(c, sp.Not) else c.args[0].args):
            _cond_atoms(a, A, acc)
    elif c in (sp.true, sp.false):
        return
    else:
        k, e, _n = canon_rel(c)
        acc.add(A.key(k, e))


def _cond_eval(c, A, val):
    """truth value of an ITE-free condition under `val`, None when one of its atoms has no value yet"""
    if c is sp.true:
        return True
    if c is sp.false:
        return False
    if isinstance(c, (sp.And, sp.Or)):
        vs = [_cond_eval(a, A, val) for a in c.args]
        if isinstance(c, sp.And):
            return False if any(v is False for v in vs) else None if any(v is None for v in vs) else True
        return True if any(v is True for v in vs) else None if any(v is None for v in vs) else False
    if isinstance(c, sp.Not) and isinstance(c.args[0], (sp.And, sp.Or)):
        v = _cond_eval(c.args[0], A, val)
        return None if v is None else not v
    k, e, n = canon_rel(c)
    key, neg = A.key2(k, e)
    if key not in val:
        return None
    return (not val[key]) if (n != neg) else val[key]


def _resolve(e, A, val):
    """replace, bottom-up, every conditional whose condition is decided by `val` by the chosen arm"""
    if not getattr(e, "args", None) or not e.has(ITE):
        return e
    if isinstance(e, ITE):
        c = _resolve(e.args[0], A, val)
        if not c.has(ITE):
            v = _cond_eval(c, A, val)
            if v is not None:
                return _resolve(e.args[1] if v else e.args[2], A, val)
        return ITE(c, _resolve(e.args[1], A, val), _resolve(e.args[2], A, val))
    return e.func(*[_resolve(a, A, val) for a in e.args])


def shift_once(x):
    """`if x < 0: x += 2 pi elif x >= 2 pi: x -= 2 pi`: equals x mod 2 pi only for x in [-2 pi, 4 pi)"""
    return ITE(sp.Lt(x, 0), x + 2 * PI, ITE(sp.Ge(x, 2 * PI), x - 2 * PI, x))


ONE_SHIFT = ("the angle is brought back towards [0, 2 pi) by ONE conditional shift of a period instead of being reduced modulo "
             "2 pi: as soon as the angular displacement of a characteristic exceeds one turn in a step (|d_r phi| dt/(r B0) > "
             "2 pi) theta stays outside [0, 2 pi) and the splines of phi and f are evaluated outside their domain")


def layered_equal(a, b, max_atoms=14):
    """equality of two extracted expressions with nested conditionals -> (bool, witness)"""
    A = _Atoms()

    def rec(a, b, val):
        ites = []
        collect_ites(a, ites)
        collect_ites(b, ites)
        if not ites:
            if alg_equal(a, b):
                return True, None
            # AUDIT: a case may put two compared quantities in a TIE (`x > y` false and `y > x` false, or `e < 0` false and
            # `e <= 0` true): then x = y holds in that case, and `max(x, y)` written as `x if x > y else y` and as `y if y > x
            # else x` select different but EQUAL operands.  The equalities the case implies are applied before the two sides
            # are declared different.
            for eq_ in _tie_equalities(val):
                try:
                    if alg_equal(a - b, eq_) or alg_equal(a - b, -eq_):       # the two sides differ by exactly the quantity
                        return True, None                                        # that is zero in this case
                except Exception:
                    pass
                for a2, b2 in _apply_equality(sp.expand(a), sp.expand(b), eq_):
                    if alg_equal(a2, b2):
                        return True, None
            return False, {"case": {f"{k}:{e}": v for (k, e), v in val.items()}, "code": str(a)[:300], "spec": str(b)[:300]}
        ready = [t for t in ites if not t.args[0].has(ITE)]
        if not ready:
            raise Undecided("conditional whose condition cannot be freed of conditionals")
        atoms = set()
        for t in ready:
            _cond_atoms(t.args[0], A, atoms)
        new = sorted(atoms - set(val), key=str)
        if not new:
            raise Undecided("conditional not resolved by its own atoms")
        if len(val) + len(new) > max_atoms:
            raise Undecided(f"{len(val) + len(new)} atomic conditions")
        for bits in itertools.product([False, True], repeat=len(new)):
            v2 = dict(val)
            v2.update(zip(new, bits))
            if not consistent(v2) or not _grid_order_ok(v2) or _boundary_tie(v2) or not _opposite_consistent(v2):
                continue
            ok, wit = rec(_resolve(a, A, v2), _resolve(b, A, v2), v2)
            if not ok:
                return ok, wit
        return True, None
    return rec(a, b, {})


def unify_shapes(e, args):
    """every two-dimensional argument of the kernels lives on the (theta, r) grid: `X.shape[0]` is the number of
    theta points and `X.shape[1]` the number of r points whatever array X it is read from (the kernels' precondition,
    asserted by PoloidalAdvection.step for f and true by construction for the work arrays)"""
    if not isinstance(e, sp.Basic):
        return e
    sub = {}
    for s_ in e.free_symbols:
        m = _SHAPE_SYM.match(s_.name)
        if m and m.group(2) in args and isinstance(args[m.group(2)], Arr) and m.group(2) not in ("qPts", "rPts") \
                and not m.group(2).startswith(("kts", "coeffs")) and _RANK.get(m.group(2), 2) == 2:
            sub[s_] = Symbol("n0_qPts" if m.group(1) == "0" else "n0_rPts", integer=True, positive=True)
    # a negative constant index counts from the end
    for a_ in e.atoms(AppliedUndef):
        nm = str(a_.func)
        if nm in ("qPts", "rPts") and len(a_.args) == 1 and a_.args[0].is_Integer and a_.args[0] < 0:
            sub[a_] = a_.func(Symbol("n0_" + nm, integer=True, positive=True) + a_.args[0])
    return e.xreplace(sub) if sub else e


_SHAPE_SYM = re.compile(r"^n([01])_(\w+)$")
# rank of the array parameters of the kernel under analysis, read from its annotations ('float[:,:]' -> 2) by setup(): the
# shape assumption (n_theta, n_r) is only applied to arrays declared two-dimensional (a packed (2, n_theta, n_r) array is not)
_RANK: dict = {}


# scalar parameters of a kernel whose actual at the call site in PoloidalAdvection.step is not the quantity of that name
# but an expression of the quantities of step() (a factor applied by the caller instead of the callee): {kernel: {symbol of
# the parameter: expression}}.  The extracted formulas are functions of the parameters; composed with the call site they are
# functions of the quantities the specification is written in.
_SCALAR_SUBST: dict = {}
# kernel -> reason why the composition with the call site could NOT be made (binding not established, actual not followed):
# a formula difference of that kernel is then UNDECIDED (assumption (d) of `compare`)
_SCALAR_UNKNOWN: dict = {}


def kernel_scalar_actuals(chk):
    """fills _SCALAR_SUBST from the kernel calls of PoloidalAdvection.step (see selected_kernel_calls / resolved_call).
    Only arithmetic of step()'s own parameters, attributes of the constants object and numbers is followed; any other
    actual leaves the parameter as it is (the call-site rules E2-* then decide what it denotes)."""
    _SCALAR_SUBST.clear()
    _SCALAR_UNKNOWN.clear()
    try:
        mod, kmod = chk.mod(U.ADV), chk.mod(U.ADVK)
        cls = mod.cls("PoloidalAdvection")
        fn = chk.func(U.ADV, "PoloidalAdvection.step")
    except Exception:
        return
    prov = ctor_provenance(cls)
    const_recv = next((a_ for a_, p_ in prov.items() if p_ == "constants"), "self._constants")
    aliases, kwtables = local_aliases(fn), local_kwtables(fn)
    sparams = {a.arg for a in fn.args.args[1:]}
    knames = ("poloidal_advection_step_expl", "poloidal_advection_step_impl")
    try:
        sites = selected_kernel_calls(fn, knames)
    except Exception:
        return
    for kname, general in zip(knames, (EXPL, IMPL)):
        calls = [(c, ab) for kn_, c, ab in sites if kn_ == kname]
        if len(calls) != 1 or not kmod.has(kname) or not kmod.has(general):
            continue
        c0, arm = calls[0]
        al2, kt2 = dict(aliases), dict(kwtables)
        for nm_, v_ in arm.items():
            if isinstance(v_, ast.Dict) or (isinstance(v_, ast.Call) and src(v_.func) == "dict"):
                items = _kw_items(v_, kt2)
                if items is not None and _only_unpacked(fn, nm_):
                    kt2[nm_] = items
            elif _pure_path(v_):
                al2[nm_] = v_
        c = resolved_call(splice_property_tuples(fn, c0), al2, kt2)
        formals = [a.arg for a in kmod.func(kname).args.args]
        status, b, bwhy = agree.bind_status(c, formals, kmod.func(kname))
        if status != "bound":
            # assumption (d) of `compare` (what the scalar parameters denote) is not established for this kernel
            _SCALAR_UNKNOWN[general] = (f"the call of {kname} in PoloidalAdvection.step could not be bound to its parameters "
                                        f"({bwhy}), so what the scalar parameters of the kernel denote is not established")
            continue
        gformals = {a.arg for a in kmod.func(general).args.args}

        def ev(e):
            if isinstance(e, ast.Constant) and isinstance(e.value, (int, float)) and not isinstance(e.value, bool):
                return Rational(repr(e.value)) if isinstance(e.value, float) else Integer(e.value)
            if isinstance(e, ast.Name) and e.id in sparams:
                return Symbol(e.id, real=True)
            if isinstance(e, ast.Call) and src(e.func) == "float" and len(e.args) == 1 and not e.keywords:
                return ev(e.args[0])
            if isinstance(e, ast.Attribute) and src(e.value) == const_recv:
                hit = [g for g in gformals if g.lower() == e.attr.lower()]
                if len(hit) == 1:
                    return Symbol(hit[0], real=True)
            if isinstance(e, ast.Attribute) and src(e) in prov and prov[src(e)] in CTOR_PARAM_ROLES:
                return Symbol(CTOR_PARAM_ROLES[prov[src(e)]], real=True)
            if isinstance(e, ast.BinOp) and isinstance(e.op, (ast.Add, ast.Sub, ast.Mult, ast.Div)):
                a_, b_ = ev(e.left), ev(e.right)
                return {ast.Add: a_ + b_, ast.Sub: a_ - b_, ast.Mult: a_ * b_, ast.Div: a_ / b_}[type(e.op)]
            if isinstance(e, ast.UnaryOp) and isinstance(e.op, ast.USub):
                return -ev(e.operand)
            raise Undecided(src(e))
        sub = {}
        for f_ in ("dt", "B0", "v"):
            if f_ in b and f_ in gformals:
                try:
                    val = ev(b[f_])
                except Undecided:
                    if not isinstance(b[f_], (ast.Name, ast.Attribute, ast.Constant)):
                        # arithmetic / a call applied by the caller that is not followed: a factor may sit on either side
                        _SCALAR_UNKNOWN[general] = (f"PoloidalAdvection.step passes `{src(b[f_])[:60]}` as `{f_}` of {kname}, an "
                                                    "expression that is not followed: what the parameter denotes is not established")
                    continue
                if val != Symbol(f_, real=True) and any(isinstance(x, ast.BinOp) for x in ast.walk(b[f_])):
                    sub[Symbol(f_, real=True)] = val
        if sub:
            _SCALAR_SUBST[general] = sub


def compare(chk, rule, node, what, code, spec, func, args=None, wrong=(), stale=(), one_shift=None, overruled=None,
            precond=None):
    """decisive verdict of the formula engine; anything that prevents the comparison is UNDECIDED.
    `wrong`: (diagnosis, formula) pairs of known wrong variants of the specification: when the code differs from the
    specification and equals one of them the diagnosis names the defect.

    AUDIT - a VIOLATED verdict of this function states "the value the kernel computes differs from the specification in
    the case quoted".  It is true of the code under these assumptions, each of which is checked here or by the caller:
      (a) the symbolic execution modelled every construct it met: the engine raises Undecided on what it does not know;
          the constructs it is known to model by a guess are screened beforehand (`extraction_hazards`): when one is
          present a difference is UNDECIDED;
      (b) `code` is the content of storage that reaches the result, under the storage convention the caller assumes
          (which work array holds which stage, which arrays carry the iterate): the caller passes `precond` (a reason why
          the convention is NOT established -> UNDECIDED) or `overruled` (the end-to-end comparison holds -> the stage
          difference is immaterial, HOLDS);
      (c) every two-dimensional argument has shape (len(qPts), len(rPts)) (`unify_shapes`; stated assumption of the check,
          asserted by step() for f and established for the work arrays by rule E2-work-array-storage's allocation);
      (d) scalar parameters denote the quantities of step() of that name or the expression step() passes (composition
          with the call site, `_SCALAR_SUBST`; the roles of the actuals are decided by rules E2-*);
      (e) differences confined to a foot lying EXACTLY on the radial boundary or an angular change of exactly pi are not
          differences (the property restricts the comparison to feet away from the boundary): `layered_equal` skips
          the cases in which a boundary atom holds with equality (see `_boundary_tie`);
      (f) a value carried from one pass of the iteration to the next outside the arrays of the iterate shows up as a
          symbol `*_carried` / an unwritten cell: UNDECIDED unless the prologue never wrote it either."""
    composed = ""
    if isinstance(code, sp.Basic) and any(str(s_).endswith("_carried") and str(s_) != "norm_carried" for s_ in code.free_symbols):
        chk.ob(rule, node, what, None,
               "the extracted value depends on a scalar that one pass of the iteration hands to the next ("
               + ", ".join(sorted(str(s_)[:-8] for s_ in code.free_symbols if str(s_).endswith("_carried")))
               + "): state carried between passes outside the iterate is not followed", file=U.ADVK, func=func)
        return None
    try:
        if args is not None:
            code = unify_shapes(code, args)
        sub_ = _SCALAR_SUBST.get(func)
        if sub_:
            composed = (" (kernel composed with its call site in PoloidalAdvection.step, which passes " +
                        ", ".join(f"{k_} <- {v_}" for k_, v_ in sub_.items()) + ")")
        ok, wit = layered_equal(code, spec)
    except Undecided as e:
        chk.ob(rule, node, what, None, f"comparison not decidable: {e}", file=U.ADVK, func=func)
        return None
    why = "extracted formula equals the specification" + composed
    if not ok:
        why = f"extracted formula{composed} differs from the specification: {wit}"
        left_over = sorted({str(a_.func) for a_ in code.atoms(AppliedUndef) if str(a_.func) in stale}) \
            if isinstance(code, sp.Basic) else []
        if left_over:
            why = (f"the formula reads cells of the work array(s) {left_over} that this call has not written on every path: "
                   "the arrays persist between calls, so values left over from the previous step enter the result - " + why)
            wrong = ()
        wrong = list(wrong)
        if one_shift is None:
            one_shift = rule in ("F1-predictor", "F1-corrector", "F1-fixed-point-map")
        if one_shift and isinstance(spec, sp.Basic) and spec.has(Wrap) and isinstance(code, sp.Basic) \
                and not (code.args[0] if isinstance(code, Wrap) else code).has(Wrap):
            def unwrap(e):
                return e.replace(lambda x: isinstance(x, Wrap), lambda x: shift_once(x.args[0]))
            first = [(ONE_SHIFT, unwrap(spec))]
            if isinstance(spec, Wrap) and isinstance(code, Wrap):   # the rule reduces the value it reads back once more
                first.append((ONE_SHIFT, Wrap(unwrap(spec))))
            wrong = first + wrong
        if isinstance(code, sp.Basic) and code.has(FMod) and isinstance(spec, sp.Basic) and spec.has(Wrap):
            wrong = [(FMOD, spec.replace(lambda x: isinstance(x, Wrap), lambda x: FMod(x.args[0])))] + wrong
        for label, variant in wrong:
            if variant is None:
                continue
            try:
                same, _w = layered_equal(code, variant)
            except Exception:
                continue
            if same:
                why = label + " - " + why
                break
    if not ok:
        if overruled:
            chk.ob(rule, node, what, True, overruled + " (the storage this rule looks at does not hold the specification's "
                   "stage value)", file=U.ADVK, func=func, facts={"code": str(code)[:400], "spec": str(spec)[:400]})
            return True
        hz = _HAZARDS.get(func)
        precond = precond or _SCALAR_UNKNOWN.get(func)
        if precond or hz:
            chk.ob(rule, node, what, None, (precond or
                   "the kernel uses constructs that the symbolic execution models only approximately (" + "; ".join(hz[:3]) +
                   ")") + f": the difference found is not a verdict - {why[:300]}", file=U.ADVK, func=func)
            return None
    chk.ob(rule, node, what, ok, why, file=U.ADVK, func=func,
           facts={"code": str(code)[:400], "spec": str(spec)[:400]})
    return ok


# kernel name -> constructs present in it that symx.SymExec executes by a guess (filled by extraction_hazards)
_HAZARDS: dict = {}


def extraction_hazards(fn, mod=None, seen=None):
    """AUDIT of the extractor: constructs that `symx.SymExec` accepts but does not model exactly.  Found in a kernel (or in a
    helper function of the kernel module that it calls), they turn a formula DIFFERENCE into UNDECIDED (agreement with the
    specification despite them stays HOLDS only for constructs whose guess cannot create agreement, which is the case of all
    of these: each replaces a value by an unknown or keeps an older one).
      * `zeros` / `ones` / `full` / `*_like` allocations: modelled as an array of unknown content;
      * `range` with a step: the step is ignored; `for ... else`: the else suite is ignored;
      * whole-array statements (`a[:, :] = b`, `a[i, :] = b * c`): evaluated lazily - the right-hand side is read when the target
        is read, so a later store into an operand changes the value seen;
      * (not screened, harmless in a well-formed kernel: a scalar bound on one arm of a conditional only keeps that arm's
        value, which is only read on paths where it is bound);
      * a handler name (`max`, `min`, `mod`, `abs`, the spline evaluators, f_eq) rebound by the module or the function;
      * `global` / `nonlocal`, `try`, `with`, nested function definitions, comprehensions, `lambda`, walrus."""
    seen = seen if seen is not None else set()
    if id(fn) in seen:
        return []
    seen.add(id(fn))
    out = []
    handler_names = {"max", "min", "maximum", "minimum", "fmax", "fmin", "mod", "remainder", "fmod", "abs", "f_eq", "len",
                     "sqrt", "exp", "tanh", "cos", "sin", "floor", "real", "float", "int"}
    params = {a.arg for a in fn.args.args}
    for n in ast.walk(fn):
        if n is fn:
            continue
        if isinstance(n, ast.Call):
            nm = n.func.attr if isinstance(n.func, ast.Attribute) else getattr(n.func, "id", None)
            if nm in ("zeros", "ones", "full", "zeros_like", "ones_like", "full_like", "empty_like"):
                out.append(f"`{src(n)[:40]}`: initial content not modelled")
            if mod is not None and isinstance(n.func, ast.Name) and mod.has(n.func.id) and "." not in n.func.id \
                    and n.func.id not in handler_names and not n.func.id.startswith(("cu_", "nu_")):
                try:
                    out += extraction_hazards(mod.func(n.func.id), mod, seen)
                except Exception:
                    pass
            if isinstance(n.func, ast.Name) and n.func.id == "range" and (len(n.args) == 3 or n.keywords):
                out.append(f"`{src(n)[:40]}`: stride of the range")
        elif isinstance(n, ast.For) and n.orelse:
            out.append("for/else")
        elif isinstance(n, ast.Subscript) and any(isinstance(x, ast.Slice) for x in ([n.slice] if not isinstance(n.slice, ast.Tuple)
                                                                                      else n.slice.elts)):
            out.append(f"whole-array access `{src(n)[:40]}` (evaluated lazily)")
        elif isinstance(n, (ast.Global, ast.Nonlocal, ast.Try, ast.With, ast.FunctionDef, ast.Lambda, ast.ListComp, ast.DictComp,
                            ast.SetComp, ast.GeneratorExp, ast.NamedExpr, ast.ClassDef, ast.AsyncFunctionDef)):
            out.append(f"{type(n).__name__} statement/expression")
        elif isinstance(n, ast.Name) and isinstance(n.ctx, ast.Store) and n.id in handler_names:
            out.append(f"`{n.id}` rebound locally")
    for nm in handler_names & params:
        out.append(f"parameter named `{nm}`")
    seen_ = []
    for x in out:
        if x not in seen_:
            seen_.append(x)
    return seen_


# what the symbolic execution raises on code outside its fragment: Undecided where it knows that it does not model a
# construct, and plain Python errors where a construct it accepts produces an object it cannot compute with (a whole-row
# operand in an arithmetic it only defines for scalars, a missing handler argument, ...).  Both mean "not extracted".
_NOT_EXTRACTED = (Undecided, TypeError, KeyError, AttributeError, ValueError, IndexError, NotImplementedError)


def cell(ex, name, idx):
    """content of one array cell after symbolic execution; Undecided when the array is gone or the cell may alias"""
    a = ex.env.get(name)
    if not isinstance(a, Arr):
        raise Undecided(f"array `{name}` is not bound after the symbolic execution")
    for k_ in a.cells:
        for c_ in k_:
            if isinstance(c_, sp.Basic) and c_.free_symbols and not c_.is_Symbol:
                # written at `i - 1`, `n - i`, ...: the cell of node (i, j) is the one written by ANOTHER iteration, which a
                # read at [i, j] does not see
                raise Undecided(f"`{name}` is written at {list(k_)}, an expression of the loop counters: the content of the cell "
                                "of a generic node is not extracted")
    return a.read(list(idx))


def trace_spec(S, x_k=None, clip=False, radius2="foot", half=Rational(1, 2), swap=False, sign=1, mf=None, div0=True):
    """the characteristic traced back from node (theta_i, r_j) with the drift (-d_r phi, d_theta phi)/(r B0):
    predictor x* = x - F(x) dt/B0 and trapezoidal foot x - 1/2 (F(x) + F(x_k)) dt/B0, where x_k is the predictor
    (explicit Heun) or the current iterate (implicit scheme; the new radius is then clipped to the domain).
    The keyword options build the WRONG variants used to name a defect (radius of the second-stage drift, step
    fraction, exchanged derivatives, sign, step factor, missing 1/r of the first stage)."""
    mf = S["dt"] / S["B0"] if mf is None else mf
    d_r, d_th = (S["dth_phi"], S["dr_phi"]) if swap else (S["dr_phi"], S["dth_phi"])
    den0 = S["r"] if div0 else Integer(1)
    F0_th = d_r(S["q"], S["r"]) / den0
    F0_r = d_th(S["q"], S["r"]) / den0
    th1 = Wrap(S["q"] - sign * F0_th * mf)
    r1 = S["r"] + sign * F0_r * mf
    th_k, r_k = (th1, r1) if x_k is None else x_k
    inside = sp.Not(sp.Or(sp.Lt(r_k, S["r0"]), sp.Gt(r_k, S["rmax"])))
    den = r_k if radius2 == "foot" else S["r"]
    Fk_th = ITE(inside, d_r(th_k, r_k) / den, Integer(0))
    Fk_r = ITE(inside, d_th(th_k, r_k) / den, Integer(0))
    th2 = Wrap(S["q"] - sign * half * (F0_th + Fk_th) * mf)
    r2 = S["r"] + sign * half * (F0_r + Fk_r) * mf
    if clip:
        r2 = ITE(sp.Lt(r2, S["r0"]), S["r0"], ITE(sp.Gt(r2, S["rmax"]), S["rmax"], r2))
    return {"th1": th1, "r1": r1, "th2": th2, "r2": r2}


STALE_IT = ("drPhi_0", "dthetaPhi_0", "drPhi_k", "dthetaPhi_k", "endPts_k2_q", "endPts_k2_r")

WRONG_TRACES = (
    ("the drift at the second point (predictor / current iterate) is divided by the node radius r_j instead of the "
     "radius of that point: the corrector does not use the drift (-d_r phi, d_theta phi)/(r B0) there, the foot is not "
     "the trapezoidal-rule foot (first order only when the drift has a radial component)", dict(radius2="node")),
    ("the trapezoidal average lacks its factor 1/2: the foot is displaced by the sum of the two drifts, twice too far",
     dict(half=Integer(1))),
    ("the derivatives d_r phi and d_theta phi are exchanged: the drift is not (-d_r phi, d_theta phi)/(r B0)", dict(swap=True)),
    ("the characteristic is traced in the wrong time direction (sign of the displacement reversed)", dict(sign=-1)),
    ("the first-stage drift lacks its factor 1/r", dict(div0=False)),
)


def wrong_traces(S, key, x_k=None, clip=False):
    out = []
    for label, kw in WRONG_TRACES:
        out.append((label, trace_spec(S, x_k=x_k, clip=clip, **kw)[key]))
    out.append(("the step factor is dt*B0 (or dt/2*B0) instead of dt/B0 (dt/(2 B0)): wrong for every B0 != 1",
                trace_spec(S, x_k=x_k, clip=clip, mf=S["dt"] * S["B0"])[key]))
    out.append(("the step factor is dt (dt/2) instead of dt/B0 (dt/(2 B0)): the division by B0 is done neither by the kernel "
                "nor by its call site in PoloidalAdvection.step, wrong for every B0 != 1",
                trace_spec(S, x_k=x_k, clip=clip, mf=S["dt"])[key]))
    return out


def wrong_fills(S, th_foot, r_foot, nul):
    inside = S2(Wrap(th_foot), r_foot, 0, 0, *S["pol"])
    lo, hi = sp.Lt(r_foot, S["r0"]), sp.Gt(r_foot, S["rmax"])
    feq = lambda rr: FEQ(rr, S["v"], *S["consts"])      # noqa: E731
    nulf = ITE(lo, Integer(0), ITE(hi, Integer(0), inside))
    return (
        ("feet inside the inner radius take the equilibrium at the foot instead of the equilibrium at the inner radius",
         ITE(nul, nulf, ITE(lo, feq(r_foot), ITE(hi, feq(r_foot), inside)))),
        ("feet outside the outer radius take the equilibrium at the outer radius instead of the equilibrium at the foot",
         ITE(nul, nulf, ITE(lo, feq(S["r0"]), ITE(hi, feq(S["rmax"]), inside)))),
        ("the two boundary modes are exchanged: the null-boundary mode fills with the equilibrium and vice versa",
         ITE(nul, ITE(lo, feq(S["r0"]), ITE(hi, feq(r_foot), inside)), nulf)),
        ("the angle of the foot is not taken modulo 2 pi before the spline is evaluated",
         fill_spec(S, th_foot, r_foot, nul).xreplace({Wrap(th_foot): th_foot}) if not isinstance(th_foot, Wrap) else None),
    )


def _fold_affine(e):
    """`e` with its integer arithmetic (+, -, unary -, * of names, integer constants and opaque operands) brought to a
    normal form: `(i + 1) - 1` -> `i`, `n - 1 + 1` -> `n`.  Anything else is returned as it is."""
    leaves = {}

    def conv(n):
        if isinstance(n, ast.Constant) and isinstance(n.value, int) and not isinstance(n.value, bool):
            return Integer(n.value)
        if isinstance(n, ast.BinOp) and isinstance(n.op, (ast.Add, ast.Sub, ast.Mult)):
            a, b = conv(n.left), conv(n.right)
            return a + b if isinstance(n.op, ast.Add) else a - b if isinstance(n.op, ast.Sub) else a * b
        if isinstance(n, ast.UnaryOp) and isinstance(n.op, ast.USub):
            return -conv(n.operand)
        if isinstance(n, (ast.Name, ast.Attribute, ast.Subscript)) and _pure_path(n):
            t = src(n)
            if t not in leaves:
                leaves[t] = (Symbol(f"_leaf{len(leaves)}_", integer=True), n)
            return leaves[t][0]
        raise Undecided("not affine")
    if not isinstance(e, (ast.BinOp, ast.UnaryOp)):
        return e
    try:
        v = sp.expand(conv(e))
        if not v.is_polynomial(*[x for x, _n in leaves.values()]):
            return e
        new = ast.parse(str(v), mode="eval").body
    except (Undecided, SyntaxError, TypeError):
        return e
    back = {str(sym): node for sym, node in leaves.values()}

    class _Back(ast.NodeTransformer):
        def visit_Name(self, n):
            from ..core import clone as _clone
            return _clone(back[n.id]) if n.id in back else n
    new = _Back().visit(new)
    if any(isinstance(x, (ast.Pow, ast.Div, ast.FloorDiv)) for x in ast.walk(new)):
        return e
    for x in ast.walk(new):
        ast.copy_location(x, e)
    return new


class _FoldIdx(ast.NodeTransformer):
    """fold the integer arithmetic of subscripts and range bounds"""

    def visit_Subscript(self, n):
        self.generic_visit(n)
        if isinstance(n.slice, ast.Tuple):
            n.slice.elts = [_fold_affine(x) for x in n.slice.elts]
        else:
            n.slice = _fold_affine(n.slice)
        return n

    def visit_Call(self, n):
        self.generic_visit(n)
        if isinstance(n.func, ast.Name) and n.func.id == "range":
            n.args = [_fold_affine(x) for x in n.args]
        return n


def _zero_based_sweeps(fn, _depth=0):
    """private copy of `fn` in which every counting loop `for v in range(a, b)` with a constant a != 0 and every
    descending loop `for v in range(b - 1, a - 1, -1)` over a counter that the body does not assign is written as
    `for v in range(0, b - a)` / `for v in range(a, b)`, the body reading `v + a` / the same v.  The counting convention
    of a loop is not part of the specification: what the loop does to the cells it visits is.  (A descending loop visits
    the same counters; the extraction that follows treats the iterations of a sweep as independent and refuses the
    sweep - UNDECIDED - when it finds a value carried from one iteration to the next that is not a sum, whichever
    the direction.)  Returns `fn` itself when there is nothing to rewrite."""
    from ..core import clone

    def candidates(root):
        out = []
        for lp in ast.walk(root):
            if not (isinstance(lp, ast.For) and isinstance(lp.target, ast.Name) and isinstance(lp.iter, ast.Call)
                    and isinstance(lp.iter.func, ast.Name) and lp.iter.func.id == "range" and not lp.iter.keywords
                    and not lp.orelse):
                continue
            v = lp.target.id
            if any(isinstance(n, ast.Name) and n.id == v and isinstance(n.ctx, ast.Store) for st in lp.body for n in ast.walk(st)):
                continue
            a = lp.iter.args
            if len(a) == 2 and isinstance(a[0], ast.Name) and a[0].id in consts:
                a[0] = lp.iter.args[0] = ast.copy_location(ast.Constant(value=consts[a[0].id]), a[0])
            if len(a) == 2 and isinstance(a[0], ast.Constant) and isinstance(a[0].value, int) and a[0].value != 0:
                out.append((lp, "shift"))
            elif len(a) == 3 and isinstance(_fold_affine(a[2]), ast.UnaryOp) and src(_fold_affine(a[2])) == "-1":
                out.append((lp, "reverse"))
            elif len(a) == 3 and isinstance(a[2], ast.Constant) and a[2].value == -1:
                out.append((lp, "reverse"))
        return out
    par = parent(fn)
    new = clone(fn)          # candidates() writes the value of a named constant lower bound into the range: on the copy only
    new._parent = par
    # names bound once, at the top level of the function, to an integer constant
    nst = {}
    for n in ast.walk(new):
        if isinstance(n, ast.Name) and isinstance(n.ctx, ast.Store):
            nst[n.id] = nst.get(n.id, 0) + 1
    consts = {st.targets[0].id: st.value.value for st in new.body
              if isinstance(st, ast.Assign) and len(st.targets) == 1 and isinstance(st.targets[0], ast.Name)
              and nst.get(st.targets[0].id) == 1 and isinstance(st.value, ast.Constant) and isinstance(st.value.value, int)
              and not isinstance(st.value.value, bool) and st.targets[0].id not in {a.arg for a in new.args.args}}
    if not candidates(new):
        return fn
    for lp, kind in candidates(new):
        a = lp.iter.args
        if kind == "shift":
            off = a[0].value
            v = lp.target.id

            class _Sh(ast.NodeTransformer):
                def visit_Name(self, n):
                    if n.id == v and isinstance(n.ctx, ast.Load):
                        return ast.copy_location(ast.BinOp(left=n, op=ast.Add(), right=ast.Constant(value=off)), n)
                    return n
            lp.body = [_Sh().visit(st) for st in lp.body]
            lp.iter.args = [ast.Constant(value=0), ast.BinOp(left=a[1], op=ast.Sub(), right=ast.Constant(value=off))]
        else:
            one = ast.Constant(value=1)
            lp.iter.args = [ast.BinOp(left=a[1], op=ast.Add(), right=one), ast.BinOp(left=a[0], op=ast.Add(), right=one)]
    new = _FoldIdx().visit(new)
    ast.fix_missing_locations(new)
    for n in ast.walk(new):
        for ch in ast.iter_child_nodes(n):
            ch._parent = n
    new._parent = par
    if hasattr(fn, "_qual"):
        new._qual = fn._qual
    # a descending 1-based loop becomes an ascending 1-based loop, then a 0-based one
    return _zero_based_sweeps(new, _depth + 1) if _depth < 2 else new


def _param_ranks(fn):
    """rank of the array parameters of a kernel from its annotations ('float[:,:]' -> 2); a copy of the kernel without
    annotations (numba / pythran modules) is typed by the annotated reference function of the same name"""
    from ..symx import ANNOTATION_SOURCE
    ref = ANNOTATION_SOURCE.get(fn.name)
    refann = {a.arg: a.annotation for a in ref.args.args} if ref is not None else {}
    out = {}
    for a_ in fn.args.args:
        an = a_.annotation if a_.annotation is not None else refann.get(a_.arg)
        ann = src(an) if an is not None else ""
        m_ = re.search(r"\[([:,\s]*)\]", ann)
        if m_ and ":" in m_.group(1) and "(" not in ann:
            out[a_.arg] = m_.group(1).count(":")
    return out


def _expand_constant_fills(fn):
    """private copy of `fn` in which a whole-array fill with a number, `A[:, :] = c` / `A[:] = c` / `A[...] = c` / `A.fill(c)`
    for a parameter A declared two-dimensional, is written as the double loop over all its cells that it is
    (`for p in range(A.shape[0]): for q in range(A.shape[1]): A[p, q] = c`): the element-wise form is what the symbolic
    execution models exactly.  Returns `fn` itself when there is nothing to rewrite."""
    from ..core import clone
    rank2 = {n_ for n_, r_ in _param_ranks(fn).items() if r_ == 2}

    def number(v):
        if isinstance(v, ast.UnaryOp) and isinstance(v.op, (ast.USub, ast.UAdd)):
            v = v.operand
        return isinstance(v, ast.Constant) and isinstance(v.value, (int, float)) and not isinstance(v.value, bool)

    def fill_of(st):
        if isinstance(st, ast.Assign) and len(st.targets) == 1 and isinstance(st.targets[0], ast.Subscript) \
                and isinstance(st.targets[0].value, ast.Name) and st.targets[0].value.id in rank2 and number(st.value):
            sl = st.targets[0].slice
            items = sl.elts if isinstance(sl, ast.Tuple) else [sl]
            full = all(isinstance(x, ast.Slice) and x.lower is None and x.upper is None and x.step is None for x in items)
            if (full and len(items) in (1, 2)) or (len(items) == 1 and isinstance(items[0], ast.Constant) and items[0].value is Ellipsis):
                return st.targets[0].value.id, st.value
        if isinstance(st, ast.Expr) and isinstance(st.value, ast.Call) and isinstance(st.value.func, ast.Attribute) \
                and st.value.func.attr == "fill" and isinstance(st.value.func.value, ast.Name) and st.value.func.value.id in rank2 \
                and len(st.value.args) == 1 and not st.value.keywords and number(st.value.args[0]):
            return st.value.func.value.id, st.value.args[0]
        return None
    if not any(fill_of(st) for st in ast.walk(fn)):
        return fn
    par = parent(fn)
    new = clone(fn)
    count = [0]

    def rewrite(stmts):
        out = []
        for st in stmts:
            for field in ("body", "orelse"):
                if isinstance(getattr(st, field, None), list) and not isinstance(st, ast.FunctionDef):
                    setattr(st, field, rewrite(getattr(st, field)))
            hit = fill_of(st)
            if hit is None:
                out.append(st)
                continue
            name, val = hit
            count[0] += 1
            p_, q_ = f"_fill{count[0]}_p", f"_fill{count[0]}_q"
            loop = ast.parse(f"for {p_} in range({name}.shape[0]):\n    for {q_} in range({name}.shape[1]):\n"
                             f"        {name}[{p_}, {q_}] = 0").body[0]
            loop.body[0].body[0].value = val
            for x in ast.walk(loop):
                ast.copy_location(x, st)
            out.append(loop)
        return out
    new.body = rewrite(new.body)
    ast.fix_missing_locations(new)
    for n in ast.walk(new):
        for ch in ast.iter_child_nodes(n):
            ch._parent = n
    new._parent = par
    if hasattr(fn, "_qual"):
        new._qual = fn._qual
    return new


def _scalarise_rows(fn):
    """private copy of `fn` in which an element-wise whole-ROW (or whole-column) statement on declared arrays,
        A[x, :] = <arithmetic of B[y, :], one-dimensional arrays V, scalars>        (also `op=`),
    is written as the loop over the cells of the row that it is,
        for k in range(A.shape[1]): A[x, k] = <the same arithmetic of B[y, k], V[k], scalars>.
    The two are the same computation when the statement reads its own target only at the row it writes (numpy evaluates the
    right-hand side before it stores; cell k of the result depends on cell k of the operands only) and the operands are
    storage distinct from the target (different parameters of the kernel: rule E2-work-array-storage).  The counter is the
    counter of a loop over the same axis that stands in the same block when there is one (the row statement and that loop
    then read and write the cells of one node under one name), a fresh name otherwise.  Statements that do not fit (two
    slices, a call, a transposed operand, a target read at another row) are left as they are - the extraction then stops at
    them.  Returns `fn` itself when there is nothing to rewrite."""
    from ..core import clone
    rank = _param_ranks(fn)
    rebound = {n.id for n in ast.walk(fn) if isinstance(n, ast.Name) and isinstance(n.ctx, ast.Store)}

    def full(x):
        return isinstance(x, ast.Slice) and x.lower is None and x.upper is None and x.step is None

    def row_of(sub):
        """`A[x, :]` / `A[:, x]` on a declared two-dimensional array, `V[:]` on a one-dimensional one -> (array, axis of the
        slice, text of the other index)"""
        if not (isinstance(sub, ast.Subscript) and isinstance(sub.value, ast.Name) and sub.value.id in rank
                and sub.value.id not in rebound):
            return None
        items = sub.slice.elts if isinstance(sub.slice, ast.Tuple) else [sub.slice]
        if rank[sub.value.id] == 2 and len(items) == 2 and sum(full(x) for x in items) == 1:
            ax = 0 if full(items[0]) else 1
            other = items[1 - ax]
            if isinstance(other, (ast.Name, ast.Constant)):
                return sub.value.id, ax, src(other)
        if rank[sub.value.id] == 1 and len(items) == 1 and full(items[0]):
            return sub.value.id, None, None
        return None

    def convertible(st):
        if isinstance(st, ast.Assign) and len(st.targets) == 1:
            tgt, val = st.targets[0], st.value
        elif isinstance(st, ast.AugAssign):
            tgt, val = st.target, st.value
        else:
            return None
        t = row_of(tgt)
        if t is None or t[1] is None:
            return None
        ok = [True]
        vector = [isinstance(st, ast.AugAssign)]

        def scan(e):
            if not ok[0]:
                return
            r = row_of(e) if isinstance(e, ast.Subscript) else None
            if r is not None:
                if (r[1] is not None and r[1] != t[1]) or (r[0] == t[0] and r[2] != t[2]):
                    ok[0] = False
                vector[0] = True
                return
            if isinstance(e, ast.Subscript):
                if any(isinstance(x, ast.Slice) for x in ast.walk(e.slice)):
                    ok[0] = False
                if isinstance(e.value, ast.Name) and e.value.id == t[0]:
                    ok[0] = False             # the target read at a single cell: may be a cell of the row being written
                return
            if isinstance(e, ast.Name):
                if e.id in rank and rank[e.id] == 1 and e.id not in rebound:
                    vector[0] = True
                elif e.id in rank:
                    ok[0] = False             # a whole two-dimensional array as operand
                return
            if isinstance(e, ast.Constant):
                return
            if isinstance(e, ast.BinOp) and isinstance(e.op, (ast.Add, ast.Sub, ast.Mult, ast.Div, ast.Mod, ast.Pow)):
                scan(e.left)
                scan(e.right)
                return
            if isinstance(e, ast.UnaryOp) and isinstance(e.op, (ast.USub, ast.UAdd)):
                scan(e.operand)
                return
            ok[0] = False
        scan(val)
        return t if ok[0] and vector[0] else None

    if not any(convertible(st) for st in ast.walk(fn)):
        return fn
    par = parent(fn)
    new = clone(fn)
    used = {n.id for n in ast.walk(new) if isinstance(n, ast.Name)} | {a.arg for a in new.args.args}
    fresh = [0]

    def counter_for(stmts, ax):
        for st in stmts:
            if isinstance(st, ast.For) and isinstance(st.target, ast.Name) and isinstance(st.iter, ast.Call) \
                    and src(st.iter.func) == "range":
                v = st.target.id
                pos = set()
                for n in ast.walk(st):
                    if isinstance(n, ast.Subscript) and isinstance(n.value, ast.Name) and rank.get(n.value.id) == 2:
                        ix = n.slice.elts if isinstance(n.slice, ast.Tuple) else [n.slice]
                        pos |= {k_ for k_, x in enumerate(ix) if isinstance(x, ast.Name) and x.id == v}
                if pos == {ax}:
                    return v
        fresh[0] += 1
        nm = f"_row{fresh[0]}_k"
        while nm in used:
            fresh[0] += 1
            nm = f"_row{fresh[0]}_k"
        return nm

    def rewrite(stmts):
        out = []
        names = {}
        for st in stmts:
            for field in ("body", "orelse"):
                if isinstance(getattr(st, field, None), list) and not isinstance(st, ast.FunctionDef):
                    setattr(st, field, rewrite(getattr(st, field)))
            t = convertible(st)
            if t is None:
                out.append(st)
                continue
            arr, ax, _other = t
            if ax not in names:
                names[ax] = counter_for(stmts, ax)
            k = names[ax]

            class _El(ast.NodeTransformer):
                def visit_Subscript(self, n):
                    r = row_of(n)
                    if r is None:
                        return n
                    items = n.slice.elts if isinstance(n.slice, ast.Tuple) else [n.slice]
                    items = [ast.Name(id=k, ctx=ast.Load()) if full(x) else x for x in items]
                    n.slice = ast.Tuple(elts=items, ctx=ast.Load()) if len(items) > 1 else items[0]
                    return n

                def visit_Name(self, n):
                    if isinstance(n.ctx, ast.Load) and rank.get(n.id) == 1 and n.id not in rebound:
                        return ast.Subscript(value=n, slice=ast.Name(id=k, ctx=ast.Load()), ctx=ast.Load())
                    return n
            body = _El().visit(st)
            loop = ast.For(target=ast.Name(id=k, ctx=ast.Store()),
                           iter=ast.parse(f"range({arr}.shape[{ax}])", mode="eval").body, body=[body], orelse=[])
            for x in ast.walk(loop):
                ast.copy_location(x, st)
            out.append(loop)
        return out
    new.body = rewrite(new.body)
    ast.fix_missing_locations(new)
    for n in ast.walk(new):
        for ch in ast.iter_child_nodes(n):
            ch._parent = n
    new._parent = par
    if hasattr(fn, "_qual"):
        new._qual = fn._qual
    return new


def _without_continue(chk, fn, modname, qname):
    """the kernel with the early exits of its sweeps (`if c: ...; continue`) written as if/else (same behaviour: the
    statements after the conditional move into the arm that falls through), so that a node skipped by an early exit
    keeps, in the extracted formulas, what the skipped statements would have overwritten; and with its counting loops
    brought to the 0-based ascending convention (see _zero_based_sweeps)"""
    from .C05 import structured
    new, why = structured(fn)
    if why:
        chk.ob("F1-extraction", fn, qname, None, f"early exit that cannot be written as if/else: {why}", file=modname, func=qname)
        return None
    return _scalarise_rows(_expand_constant_fills(_zero_based_sweeps(new)))


def _boundary_mode(chk, fn, args, modname, qname):
    """the symbol of the boolean parameter `nulBound` (null boundary value / equilibrium) the specification of the fill is
    written in; None, with an UNDECIDED obligation, when the kernel encodes the boundary treatment otherwise (an integer
    code, an enumeration, several flags): which values of the new parameter mean which of the two historical modes is a
    contract between the kernel and PoloidalAdvection that is not followed."""
    nul = args.get("nulBound") if isinstance(args, dict) else None
    ann = next((a.annotation for a in fn.args.args if a.arg == "nulBound"), None)
    kind = (ann.value if isinstance(ann, ast.Constant) else src(ann)) if ann is not None else None
    if nul is not None and kind in (None, "bool"):
        return nul
    chk.ob("F1-extraction", fn, qname + " (boundary mode)", None,
           ("the kernel has no parameter `nulBound`" if nul is None else f"the parameter `nulBound` is declared `{kind}`, not bool")
           + ": how the boundary treatment (null / equilibrium value outside the domain) is encoded is not followed, so "
           "the value written for a foot outside the domain is not compared with the specification", file=modname, func=qname)
    return None


def check_explicit(chk, mod, modname=U.ADVK, qname=EXPL):
    fn = _without_continue(chk, mod.func(qname), modname, qname)
    if fn is None:
        return
    chk.functions.add(f"{modname}:{qname}")
    _HAZARDS[qname] = extraction_hazards(fn, mod)
    ex, args = setup(fn, mod, (qname,))
    try:
        ex.run()
        S = spec_symbols(args)
        i, j = S["i"], S["j"]
        got = {n: cell(ex, n, [i, j]) for n in ("endPts_k1_q", "endPts_k1_r", "endPts_k2_q", "endPts_k2_r", "f")}
    except _NOT_EXTRACTED as e:
        chk.ob("F1-extraction", fn, qname, None, f"kernel outside the extractable fragment: {e}", file=modname, func=qname)
        return
    sweep_ranges(chk, fn, [(fn.body, ex.env)], args, modname, qname)
    T = trace_spec(S)
    nul = _boundary_mode(chk, fn, args, modname, qname)
    # AUDIT (soundness of the stage rules below).  The only OBSERVABLE of the explicit kernel is f; that endPts_k1_* holds the
    # predictor and endPts_k2_* the corrected foot is a convention of today's kernel, not part of the property (a fused
    # kernel may keep them in local scalars, or in other work arrays).  The stage rules are therefore subordinated to the
    # END-TO-END comparison: f[i, j] as a function of the kernel's inputs against fill(theta_foot, r_foot) of the
    # specification.  When that holds the kernel is right wherever it keeps its intermediates, and a stage array that
    # does not hold the specification's stage value is not an error; when it does not hold (or is not decidable) the stage
    # rules say which stage is wrong, and a stage rule may only say VIOLATED about an array the kernel has written and
    # reads again afterwards (see `consumed`).
    e2e = None
    try:
        e2e = layered_equal(unify_shapes(got["f"], args), fill_spec(S, T["th2"], T["r2"], nul))[0] if nul is not None else None
    except Undecided:
        e2e = None
    e2e_note = ("the value of f composed end to end (f[i, j] as a function of the kernel's inputs) equals fill(theta_foot, "
                "r_foot) of the specification: where the kernel keeps its intermediate values is its own affair") if e2e else None
    consumed = _consumed_arrays(fn)
    def stage(rule, what, arr, code, spec, wrong, stale=()):
        compare(chk, rule, fn, what, code, spec, qname, args, wrong, stale, overruled=e2e_note,
                precond=None if arr in consumed else
                f"the kernel does not both write `{arr}` and read it again: it keeps this stage value elsewhere, so the content "
                f"of `{arr}` says nothing about the result")
    stage("F1-predictor", "theta* = W(theta_i - (d_r phi/r_j) dt/B0)", "endPts_k1_q", got["endPts_k1_q"], T["th1"],
          wrong_traces(S, "th1"))
    stage("F1-predictor", "r* = r_j + (d_theta phi/r_j) dt/B0", "endPts_k1_r", got["endPts_k1_r"], T["r1"],
          wrong_traces(S, "r1"))
    # endPts_k2_q may have been wrapped once more inside the fill branch: idempotent
    stage("F1-corrector", "theta_foot = W(theta_i - 1/2 (F_th(x) + F_th(x*)) dt/B0)", "endPts_k2_q", Wrap(got["endPts_k2_q"]),
          T["th2"], wrong_traces(S, "th2"), WORK)
    stage("F1-corrector", "r_foot = r_j + 1/2 (F_r(x) + F_r(x*)) dt/B0", "endPts_k2_r", got["endPts_k2_r"], T["r2"],
          wrong_traces(S, "r2"), WORK)
    # the fill is a function of the foot: compared on the foot the kernel computed (its correctness is the rule above),
    # so that a wrong foot is reported once, by the rule that owns it.  That presupposes that the foot IS what the kernel
    # left in endPts_k2_* (written and read again); otherwise the fill is compared end to end, on the foot of the specification
    if nul is None:
        return                      # F1-extraction UNDECIDED has been emitted by _boundary_mode
    if "endPts_k2_q" in consumed and "endPts_k2_r" in consumed:
        th_f, r_f = unify_shapes(got["endPts_k2_q"], args), unify_shapes(got["endPts_k2_r"], args)
        compare(chk, "F1-boundary-fill", fn, "f[i,j] = fill(theta_foot, r_foot)", got["f"], fill_spec(S, th_f, r_f, nul), qname,
                args, [w_ for w_ in wrong_fills(S, th_f, r_f, nul) if w_[1] is not None], overruled=e2e_note)
    else:
        compare(chk, "F1-boundary-fill", fn, "f[i,j] = fill(theta_foot, r_foot) (end to end)", got["f"],
                fill_spec(S, T["th2"], T["r2"], nul), qname, args,
                [w_ for w_ in wrong_fills(S, T["th2"], T["r2"], nul) if w_[1] is not None])


def _consumed_arrays(fn):
    """names of arrays that the function both writes (element / slice store, or handed to a call, which may fill them)
    and reads (element / slice load): the arrays whose content can reach the result"""
    st_, ld_ = set(), set()
    for n in ast.walk(fn):
        if isinstance(n, ast.Subscript) and isinstance(n.value, ast.Name):
            (st_ if isinstance(n.ctx, ast.Store) else ld_).add(n.value.id)
        elif isinstance(n, ast.AugAssign) and isinstance(n.target, ast.Subscript) and isinstance(n.target.value, ast.Name):
            st_.add(n.target.value.id)
            ld_.add(n.target.value.id)
        elif isinstance(n, ast.Call):
            for a in list(n.args) + [k.value for k in n.keywords]:
                if isinstance(a, ast.Name):
                    st_.add(a.id)
    return st_ & ld_


def _top_assign_names(stmts):
    out = []
    for st in stmts:
        if isinstance(st, ast.Assign):
            out += [t.id for t in st.targets if isinstance(t, ast.Name)]
        elif isinstance(st, ast.AugAssign) and isinstance(st.target, ast.Name):
            out.append(st.target.id)
    return out


def _sweep_axes(outer, inner):
    """which of the two counters of a sweep over the nodes runs over theta (first index of the two-dimensional arrays, index
    of qPts) and which over r (second index, index of rPts): -> (theta counter, r counter).  The nesting order of the two
    loops is immaterial (the nodes are independent); it is read off the subscripts, never assumed."""
    a, b = outer.target.id, inner.target.id
    pos = {a: set(), b: set()}
    for n in ast.walk(outer):
        if isinstance(n, ast.Subscript) and isinstance(n.value, ast.Name):
            ix = n.slice.elts if isinstance(n.slice, ast.Tuple) else [n.slice]
            for k_, x in enumerate(ix):
                if isinstance(x, ast.Name) and x.id in pos:
                    if len(ix) == 2:
                        pos[x.id].add(k_)
                    elif len(ix) == 1 and n.value.id in ("qPts", "rPts"):
                        pos[x.id].add(0 if n.value.id == "qPts" else 1)
    if pos[a] == {0} and pos[b] == {1}:
        return a, b
    if pos[a] == {1} and pos[b] == {0}:
        return b, a
    raise Undecided(f"the counters `{a}` / `{b}` of the sweep are not used as (theta index, r index) consistently "
                    f"(positions {sorted(pos[a])} / {sorted(pos[b])})")


def node_sweeps(loops, body):
    """the sweeps over the nodes that make up one pass of the iteration: [(outer loop, statements of the outer body
    before the inner loop, inner loop)].  Several sweeps are treated as one when every array they write is accessed at
    the node of the sweep only and no scalar is carried from one sweep to the next (then their order per node is the
    order of the statements, as in one fused sweep)."""
    if not loops:
        raise Undecided("the iteration body contains no loop over the nodes")
    k0, k1 = body.index(loops[0]), body.index(loops[-1])
    if any(not isinstance(st, ast.For) for st in body[k0:k1 + 1]):
        raise Undecided("statements between the sweeps of one pass")
    out = []
    for outer in loops:
        inner = outer.body[-1] if outer.body else None
        if not (isinstance(outer.target, ast.Name) and isinstance(inner, ast.For) and isinstance(inner.target, ast.Name)):
            raise Undecided("the iteration body is not a double loop over the nodes")
        pre = outer.body[:-1]
        if any(isinstance(n, (ast.For, ast.While)) for st in pre + inner.body for n in ast.walk(st)):
            raise Undecided("nested loops inside a sweep over the nodes")
        out.append((outer, pre, inner))
    if len(out) > 1:
        written = {n.value.id for o, _p, _i in out for n in ast.walk(o)
                   if isinstance(n, ast.Subscript) and isinstance(n.ctx, ast.Store) and isinstance(n.value, ast.Name)}
        stored = []
        for o, p, inn in out:
            for n in ast.walk(o):
                if isinstance(n, ast.Subscript) and isinstance(n.value, ast.Name) and n.value.id in written:
                    ix = n.slice.elts if isinstance(n.slice, ast.Tuple) else [n.slice]
                    if [src(x) for x in ix] != list(_sweep_axes(o, inn)):
                        raise Undecided(f"`{src(n)}` is not an access at the node of its sweep: the sweeps cannot be fused")
            stored.append({n.id for n in ast.walk(o) if isinstance(n, ast.Name) and isinstance(n.ctx, ast.Store)} -
                          {o.target.id, inn.target.id, "norm"})
        for a_, (o, p, inn) in enumerate(out):
            loaded = {n.id for n in ast.walk(o) if isinstance(n, ast.Name) and isinstance(n.ctx, ast.Load)}
            first_store = {}
            for n in ast.walk(o):
                if isinstance(n, ast.Name) and isinstance(n.ctx, ast.Store):
                    first_store.setdefault(n.id, n.lineno)
            for b_, names in enumerate(stored):
                if b_ != a_ and (names & loaded) - set(first_store):
                    raise Undecided(f"scalar(s) {sorted((names & loaded) - set(first_store))} carried from one sweep to another")
    return out


def _split_sweep(lp):
    """another range loop with different bounds stands next to `lp` in the same block"""
    p_ = parent(lp)
    if p_ is None:
        return False
    for field in ("body", "orelse"):
        lst = getattr(p_, field, None)
        if isinstance(lst, list) and any(x is lp for x in lst):
            return any(isinstance(x, ast.For) and x is not lp and isinstance(x.iter, ast.Call) and src(x.iter.func) == "range"
                       and src(x.iter) != src(lp.iter) for x in lst)
    return False


def _peeled(fn, lp, v):
    """an array that the loop `lp` writes at counter `v` is also written, outside the loop, at an index of the same position
    that is not a plain loop counter (a constant, `n - 1`, ...) -> description of the first such store, else None"""
    inside = {id(n) for n in ast.walk(lp)}
    pos = {}
    for n in ast.walk(lp):
        if isinstance(n, ast.Subscript) and isinstance(n.ctx, ast.Store) and isinstance(n.value, ast.Name):
            ix = n.slice.elts if isinstance(n.slice, ast.Tuple) else [n.slice]
            for k_, x in enumerate(ix):
                if isinstance(x, ast.Name) and x.id == v:
                    pos.setdefault(n.value.id, set()).add(k_)
    for n in ast.walk(fn):
        if id(n) in inside or not (isinstance(n, ast.Subscript) and isinstance(n.ctx, ast.Store) and isinstance(n.value, ast.Name)):
            continue
        if n.value.id in pos:
            ix = n.slice.elts if isinstance(n.slice, ast.Tuple) else [n.slice]
            for k_ in pos[n.value.id]:
                if k_ < len(ix) and not isinstance(ix[k_], ast.Name):
                    return f"`{src(n)[:40]}` (line {n.lineno}) stores into the same array at a fixed index of that axis"
    return None


def sweep_ranges(chk, fn, regions, args, modname, qname):
    """every loop over the nodes visits all of them: range(number of theta points) / range(number of r points)"""
    nq = Symbol("n0_qPts", integer=True, positive=True)
    nr = Symbol("n0_rPts", integer=True, positive=True)
    for top in fn.body:
        env = None
        for stmts, e_ in regions:
            if any(top is x for x in stmts):
                env = e_
        if env is None:
            continue
        for lp in [n for n in ast.walk(top) if isinstance(n, ast.For)]:
            if not (isinstance(lp.iter, ast.Call) and isinstance(lp.iter.func, ast.Name) and lp.iter.func.id == "range"
                    and isinstance(lp.target, ast.Name)):
                continue
            v = lp.target.id
            roles = set()
            for n in ast.walk(lp):
                if isinstance(n, ast.Subscript) and isinstance(n.value, ast.Name):
                    ix = n.slice.elts if isinstance(n.slice, ast.Tuple) else [n.slice]
                    for pos, x in enumerate(ix):
                        if isinstance(x, ast.Name) and x.id == v:
                            if len(ix) == 2:
                                roles.add("q" if pos == 0 else "r")
                            elif n.value.id in ("qPts", "rPts"):
                                roles.add("q" if n.value.id == "qPts" else "r")
            what = f"for {v} in {src(lp.iter)}"
            if len(roles) != 1:
                continue
            role = roles.pop()
            want, other = (nq, nr) if role == "q" else (nr, nq)
            axis = "theta" if role == "q" else "r"
            tex = SymExec(fn, dict(env))
            try:
                ra = [unify_shapes(tex.ev(a_), args) for a_ in lp.iter.args]
            except Undecided as e:
                chk.ob("F1-sweep-range", lp, what, None, f"loop bounds outside the fragment: {e}", file=modname, func=qname)
                continue
            if len(ra) == 3 or not ra or lp.iter.keywords or not all(isinstance(x, sp.Basic) for x in ra):
                chk.ob("F1-sweep-range", lp, what, None, "strided or unusual range: not decided", file=modname, func=qname)
                continue
            lo, hi = (Integer(0), ra[0]) if len(ra) == 1 else (ra[0], ra[1])
            dlo, dhi = sp.simplify(lo), sp.simplify(hi - want)
            if dlo == 0 and dhi == 0:
                chk.ob("F1-sweep-range", lp, what, True, f"the sweep visits every {axis} node", file=modname, func=qname)
            elif ((dlo.is_number and dlo != 0) or (dhi.is_number and dhi != 0)) and _split_sweep(lp):
                chk.ob("F1-sweep-range", lp, what, None,
                       f"the sweep over {axis} runs from {lo} to {hi} and is followed or preceded by another loop with other "
                       "bounds in the same block (a sweep split in parts?): whether together they visit every node is not decided",
                       file=modname, func=qname)
            elif ((dlo.is_number and dlo != 0) or (dhi.is_number and dhi != 0)) and _peeled(fn, lp, v):
                chk.ob("F1-sweep-range", lp, what, None,
                       f"the sweep over {axis} runs from {lo} to {hi}, and {_peeled(fn, lp, v)}: the nodes the loop leaves out may "
                       "be treated there (a peeled iteration): not decided", file=modname, func=qname)
            elif (dlo.is_number and dlo != 0) or (dhi.is_number and dhi != 0):
                # AUDIT: true when (1) the counter indexes the axis found from its subscripts (one role only), (2) the bounds
                # are those of the loop after normalisation of the counting convention, compared with the extent of that axis
                # under the shape assumption of the check, (3) no other loop stands next to it (split sweep, above) and (4) the
                # arrays the loop writes are not also written outside it at a fixed index of that axis (peeled iteration, above)
                chk.ob("F1-sweep-range", lp, what, False,
                       f"the sweep over {axis} runs from {lo} to {hi} instead of over all {want} nodes: the nodes left out keep "
                       "stale values (of f, or of the work arrays of the previous call)", file=modname, func=qname)
            elif sp.simplify(hi - other) == 0:
                # AUDIT: true when the counter indexes ONE axis (a counter used on both axes is skipped above) and the upper
                # bound is, under the shape assumption of the check, the extent of the OTHER axis and not of this one (the
                # two extents are independent symbols: hi - want != 0 was established above, hi - other == 0 here)
                chk.ob("F1-sweep-range", lp, what, False,
                       f"the sweep over {axis} uses the number of nodes of the other axis ({hi}): nodes are left out or the "
                       "index runs past the array whenever the two differ", file=modname, func=qname)
            else:
                chk.ob("F1-sweep-range", lp, what, None, f"bounds ({lo}, {hi}) not comparable with {want}: not decided",
                       file=modname, func=qname)


def _own_breaks(loop):
    """the `break` statements that leave `loop` (not those of a loop nested in it)"""
    out = []

    def rec(stmts):
        for st in stmts:
            if isinstance(st, ast.Break):
                out.append(st)
            elif isinstance(st, (ast.For, ast.While)):
                rec(st.orelse)
            elif isinstance(st, ast.If):
                rec(st.body)
                rec(st.orelse)
            elif isinstance(st, (ast.With, ast.Try)):
                rec(getattr(st, "body", []))
    rec(loop.body)
    return out


def _const_true(e):
    return isinstance(e, ast.Constant) and e.value in (True, 1)


def iteration_loop(fn):
    """the fixed-point iteration of the implicit kernel in while form.
    -> (loop statement of fn.body, equivalent `while` node, do_while, bounded_by_range) or a string saying why the loop
    was not brought to that form, or None when the function has no iteration at all.
      while T: body                                   as written
      while True: [if c: break]; body; [if c: break]  -> while not c: body   (exit test last: the body runs at least once)
      for _ in range(N): ... same two forms ...       -> the same, with the number of passes bounded by N"""
    tops = [n for n in fn.body if isinstance(n, ast.While) or (isinstance(n, ast.For) and _own_breaks(n))]
    if not tops:
        anyloop = [n for n in ast.walk(fn) if isinstance(n, ast.While) or (isinstance(n, ast.For) and _own_breaks(n))]
        return "the iteration is not a statement of the function body" if anyloop else None
    if len(tops) != 1:
        return f"{len(tops)} candidate loops for the fixed-point iteration"
    lp = tops[0]
    brk = _own_breaks(lp)
    if isinstance(lp, ast.While) and not _const_true(lp.test):
        return lp, lp, False, False          # a `break` next to a real test is an additional exit (a bound): see iteration_bound
    if lp.orelse:
        return "the loop has an else clause"
    if len(brk) != 1:
        return f"{len(brk)} break statements leave the loop"

    def exit_if(st):
        return isinstance(st, ast.If) and not st.orelse and len(st.body) == 1 and st.body[0] is brk[0]
    if exit_if(lp.body[-1]):
        rest, do_while, ex_ = lp.body[:-1], True, lp.body[-1]
    elif exit_if(lp.body[0]):
        rest, do_while, ex_ = lp.body[1:], False, lp.body[0]
    else:
        return "the exit test is not the first or the last statement of the loop body"
    if isinstance(lp, ast.For):
        if not (isinstance(lp.iter, ast.Call) and src(lp.iter.func) == "range" and isinstance(lp.target, ast.Name)):
            return "the bounding loop is not a range loop"
        if any(isinstance(n, ast.Name) and n.id == lp.target.id for st in rest for n in ast.walk(st)):
            return "the pass counter is used inside the pass"
    w = ast.While(test=ast.UnaryOp(op=ast.Not(), operand=ex_.test), body=rest, orelse=[])
    ast.copy_location(w, lp)
    ast.copy_location(w.test, ex_.test)
    ast.fix_missing_locations(w)
    w._parent = parent(lp)
    return lp, w, do_while, isinstance(lp, ast.For)


def convergence_test(chk, w, ex, args, modname, qname, do_while=False, counters=()):
    """the while loop runs exactly while the measure exceeds the tolerance and is entered"""
    nrm, tol = Symbol("norm", real=True), Symbol("tol", positive=True)
    tex = SymExec(ast.FunctionDef(name="_t", args=ast.arguments(posonlyargs=[], args=[], kwonlyargs=[], kw_defaults=[],
                                                                   defaults=[]), body=[], decorator_list=[], lineno=w.lineno),
                  dict({"norm": nrm, "tol": tol}, **{c_: Symbol(c_, integer=True) for c_ in counters},
                       **{k_: v_ for k_, v_ in ex.env.items() if isinstance(v_, sp.Basic) and k_ not in ("norm", "tol")
                          and k_ not in counters}))
    want = canon_rel(sp.Gt(nrm, tol))
    verdict, why = None, None
    # AUDIT: the verdicts below read the loop test as a condition on the measure `norm` as the pass leaves it and on values
    # fixed before the loop.  A name of the test that the loop body assigns (a flag `go = norm > tol` set at the end of the
    # pass, a tolerance that is tightened) makes the test a function of state carried by the loop: evaluating it with the
    # value the name has BEFORE the loop (`go = True` -> "constant true") would be a mis-reading -> UNDECIDED.
    body_stores = {n.id for st in w.body for n in ast.walk(st) if isinstance(n, ast.Name) and isinstance(n.ctx, ast.Store)}
    test_names = {n.id for n in ast.walk(w.test) if isinstance(n, ast.Name)}
    carried_ = sorted((test_names & body_stores) - {"norm"} - set(counters))
    try:
        if carried_:
            raise Undecided(f"the test reads {carried_}, which the loop body assigns (state carried by the loop)")
        if "norm" in test_names and "norm" not in body_stores:
            raise Undecided("the test reads `norm`, which the loop body never assigns: it is not the measure of the pass")
        c = tex.ev(w.test)
    except Undecided as e:
        c = None
        why = f"loop test outside the fragment: {e}"
    if c is not None:
        if isinstance(c, (sp.And, sp.Or)) or c in (sp.true, sp.false):
            if c is sp.true:
                verdict, why = False, "the loop test is constant true: the iteration does not stop at convergence"
            elif c is sp.false:
                verdict, why = False, "the loop test is constant false: the fixed-point iteration is never executed"
            elif isinstance(c, sp.And):
                # `norm > tol and it < maxit`: the measure test, and conjuncts that only bound the number of passes
                main = [a_ for a_ in c.args if not isinstance(a_, (sp.And, sp.Or)) and canon_rel(a_) == want]
                rest = [a_ for a_ in c.args if a_ not in main]
                if len(main) == 1 and rest and all(
                        a_.free_symbols and {str(x) for x in a_.free_symbols} & set(counters)
                        and not ({str(x) for x in a_.free_symbols} & {"norm", "tol"}) for a_ in rest):
                    verdict = True
                else:
                    why = "compound loop test: whether the loop runs until the measure is below tol is not decided"
            else:
                why = "compound loop test: whether the loop runs until the measure is below tol is not decided"
        else:
            got = canon_rel(c)
            if got == want:
                verdict = True
            elif canon_rel(sp.Not(c)) in (want, canon_rel(sp.Ge(nrm, tol))):
                # AUDIT: the test is exactly `norm <= tol` / `norm < tol` on the measure the pass assigns (guards above: every
                # name of the test is `norm`, `tol`, a pass counter or fixed before the loop); for a loop brought to while form
                # from `if c: break` the test is `not c`, so this is `if norm > tol: break`
                verdict, why = False, ("the loop test is inverted: it continues while the measure is BELOW the tolerance, so "
                                       "the iteration stops (or never starts) while the iterates still move: the foot is "
                                       "not the converged solution of the implicit trapezoidal rule")
            else:
                why = f"loop test `{src(w.test)}` is not the comparison of the measure with the tolerance"
    # initial measure
    norm0 = ex.env.get("norm")
    entered = None
    if isinstance(norm0, sp.Basic):
        d = sp.simplify(norm0.xreplace({args["tol"]: tol}) - tol)
        if d.is_positive:
            entered = True
        elif d.is_positive is False or d == 0:
            entered = False
    if do_while:
        entered = True                # the exit test comes after the pass
    if verdict is True and entered is True:
        chk.ob("F1-convergence-test", w, src(w.test), True,
               "iteration continues exactly while the measure exceeds tol and is entered at least once", file=modname, func=qname)
    elif verdict is False:
        chk.ob("F1-convergence-test", w, src(w.test), False, why, file=modname, func=qname)
    elif verdict is True and entered is False:
        # AUDIT: the loop is a real `while` (not a do-while), its test is `norm > tol`, and the value the prologue leaves in
        # `norm` minus tol is provably <= 0 as a symbolic expression (`norm = tol`, `norm = 0.0`, `norm = tol - 1`)
        chk.ob("F1-convergence-test", w, src(w.test), False,
               f"the measure is initialised to {norm0}, not above tol: the loop is never entered and the foot stays the "
               "explicit Euler predictor", file=modname, func=qname)
    else:
        chk.ob("F1-convergence-test", w, src(w.test), None,
               why or f"the initial measure `{norm0}` is not provably above tol", file=modname, func=qname)


def _always_reduced(e):
    """the value is an angle reduced modulo 2 pi on every path"""
    if isinstance(e, Wrap):
        return True
    if isinstance(e, ITE):
        return _always_reduced(e.args[1]) and _always_reduced(e.args[2])
    return False


def _pass_conventions(fn, k, body):
    """storage conventions of the implicit kernel, read off the code: what one pass of the iteration (statements `body`)
    writes, what the prologue `fn.body[:k]` writes, which arrays carry state from pass to pass, and - when that is not
    exactly the pair endPts_k1_q / endPts_k1_r - the reason why the rules written for that convention do not apply"""
    # what one pass writes: arrays (element / slice stores, arrays handed to a call) and scalars
    pass_stored, pass_scalars = set(), set()
    loop_targets = {n.target.id for st in body for n in ast.walk(st) if isinstance(n, ast.For) and isinstance(n.target, ast.Name)}
    for st in body:
        for n in ast.walk(st):
            if isinstance(n, ast.Subscript) and isinstance(n.ctx, ast.Store) and isinstance(n.value, ast.Name):
                pass_stored.add(n.value.id)
            elif isinstance(n, ast.Call) and not (isinstance(n.func, ast.Name) and n.func.id in ("eval_spline_2d_scalar", "f_eq",
                                                                                                   "abs", "max", "min", "range")):
                pass_stored |= {a.id for a in list(n.args) + [kw_.value for kw_ in n.keywords] if isinstance(a, ast.Name)}
            elif isinstance(n, ast.Name) and isinstance(n.ctx, ast.Store) and n.id not in loop_targets:
                pass_scalars.add(n.id)
    # the prologue must have written what the first pass reads: arrays the prologue writes
    pro_stored = set()
    for st in fn.body[:k]:
        for n in ast.walk(st):
            if isinstance(n, ast.Subscript) and isinstance(n.ctx, ast.Store) and isinstance(n.value, ast.Name):
                pro_stored.add(n.value.id)
            elif isinstance(n, ast.Call):
                pro_stored |= {a.id for a in list(n.args) + [k_.value for k_ in n.keywords] if isinstance(a, ast.Name)}
    # AUDIT: the rules below assume the storage convention "the iterate is carried from pass to pass in endPts_k1_q /
    # endPts_k1_r": the arrays that the prologue writes AND the pass writes AND the pass reads are exactly these two.  Any
    # other array with that status is state carried between passes that this analysis does not follow: its stale-cell
    # diagnosis ("left over from the previous CALL") would be wrong, the value is left over from the previous PASS.
    carried_arrays = sorted((pass_stored & pro_stored & _consumed_arrays(ast.Module(body=body, type_ignores=[]))) - {"f"})
    convention = None
    if set(carried_arrays) - {"endPts_k1_q", "endPts_k1_r"}:
        convention = (f"the arrays {sorted(set(carried_arrays) - {'endPts_k1_q', 'endPts_k1_r'})} are written by the prologue and "
                      "re-written and read by the pass: state carried between passes outside endPts_k1_*, a storage convention "
                      "this analysis does not follow")
    elif not {"endPts_k1_q", "endPts_k1_r"} <= set(carried_arrays):
        convention = (f"the iterate is not carried in endPts_k1_q / endPts_k1_r (arrays written by the prologue and re-written "
                      f"and read by the pass: {carried_arrays}): a storage convention this analysis does not follow")
    return pass_stored, pass_scalars, pro_stored, carried_arrays, convention


def check_implicit(chk, mod, modname=U.ADVK, qname=IMPL):
    fn = _without_continue(chk, mod.func(qname), modname, qname)
    if fn is None:
        return
    chk.functions.add(f"{modname}:{qname}")
    _HAZARDS[qname] = extraction_hazards(fn, mod)
    found = iteration_loop(fn)
    if found is None:
        # AUDIT: "no iteration" is true of the kernel only if the iteration cannot be anywhere else: every call the kernel
        # makes is to one of its evaluator parameters, f_eq, or a builtin/numpy scalar function.  A call of anything else (a
        # helper of the module, a method, an unknown name) may contain the loop -> UNDECIDED.
        harmless = {"eval_spline_2d_cross", "eval_spline_2d_scalar", "f_eq", "range", "abs", "max", "min", "float", "int",
                    "len", "mod", "fmod", "remainder", "maximum", "minimum", "fmax", "fmin", "sqrt"}
        other_calls = sorted({src(n.func) for n in ast.walk(fn) if isinstance(n, ast.Call)
                              and (n.func.attr if isinstance(n.func, ast.Attribute) else getattr(n.func, "id", "?")) not in harmless})
        recursion_free = not any(isinstance(n, (ast.Lambda, ast.FunctionDef)) and n is not fn for n in ast.walk(fn))
        if other_calls or not recursion_free:
            chk.ob("F1-extraction", fn, qname, None,
                   f"the implicit kernel contains no loop of its own, but calls {other_calls[:4]} / defines functions: whether "
                   "the fixed-point iteration is there is not decided", file=modname, func=qname)
            return
        chk.ob("F1-fixed-point-map", fn, qname, False,
               "the implicit kernel contains no iteration at all (no while loop, no loop left by a break, and no call of "
               "anything but the spline evaluators, f_eq and scalar functions): the foot is not "
               "the converged solution of the implicit trapezoidal rule", file=modname, func=qname)
        return
    if isinstance(found, str):
        chk.ob("F1-extraction", fn, qname, None, f"expected one top-level loop (the fixed-point iteration): {found}",
               file=modname, func=qname)
        return
    loop_stmt, w, do_while, _ranged = found
    k = fn.body.index(loop_stmt)
    conv = _pass_conventions(fn, k, w.body)
    # ---- phase 1: predictor (statements before the while)
    pre = ast.FunctionDef(name="_pre", args=fn.args, body=fn.body[:k], decorator_list=[], lineno=fn.lineno)
    ex, args = setup(pre, mod, (qname,))
    try:
        ex.run()
        S = spec_symbols(args)
        i, j = S["i"], S["j"]
        got1 = {n: cell(ex, n, [i, j]) for n in ("endPts_k1_q", "endPts_k1_r")}
    except _NOT_EXTRACTED as e:
        chk.ob("F1-extraction", fn, qname + " (predictor)", None, f"outside the extractable fragment: {e}", file=modname, func=qname)
        return
    sweep_ranges(chk, fn, [(fn.body[:k + 1], ex.env)], args, modname, qname)
    T0 = trace_spec(S)
    # (the initial iterate is what the prologue leaves in the arrays that carry the iterate: same convention as the pass)
    compare(chk, "F1-predictor", fn, "theta* = theta_i - (d_r phi/r_j) dt/B0 (initial iterate)",
            Wrap(got1["endPts_k1_q"]), T0["th1"], qname, args, wrong_traces(S, "th1"), precond=conv[4])
    compare(chk, "F1-predictor", fn, "r* = r_j + (d_theta phi/r_j) dt/B0 (initial iterate)",
            got1["endPts_k1_r"], T0["r1"], qname, args, wrong_traces(S, "r1"), precond=conv[4])
    convergence_test(chk, w, ex, args, modname, qname, do_while=do_while, counters=_pass_counters(w))
    # ---- phase 2: one iteration of the map, from a generic iterate (Q, R)
    body = w.body
    loops = [n for n in body if isinstance(n, ast.For)]
    try:
        passes = node_sweeps(loops, body)
    except _NOT_EXTRACTED as e:
        chk.ob("F1-extraction", w, qname + " (iteration)", None, f"{e}: not extracted", file=modname, func=qname)
        return
    before = body[:body.index(loops[0])]
    after = body[body.index(loops[-1]) + 1:]
    carried = Symbol("norm_carried", real=True)
    pass_stored, pass_scalars, pro_stored, carried_arrays, convention = conv
    def loop_entry(angle_reduced=False):
        """state at the start of a pass: every local as after the predictor phase; the current iterate is generic (with
        `angle_reduced`: a generic angle in [0, 2 pi), see the invariant below); the statements before the sweeps done"""
        e2, _a2 = setup(ast.FunctionDef(name="_it", args=fn.args, body=[], decorator_list=[], lineno=fn.lineno), mod, (qname,))
        for nm, val in ex.env.items():
            if nm in ("endPts_k1_q", "endPts_k1_r"):
                continue
            if isinstance(val, Arr) and nm in pass_stored:
                # AUDIT: an array that the pass writes has, at the start of an ARBITRARY pass, the content the previous pass
                # left (not the content after the prologue): unknown.  A read of it before the pass writes it shows up in
                # the formulas as the unwritten cell `<array>(i, j)` (see `stale` in compare).
                e2.env[nm] = Arr(nm)
            elif isinstance(val, sp.Basic) and nm in pass_scalars and nm != "norm":
                e2.env[nm] = Symbol(nm + "_carried", real=True)      # a scalar that the pass re-assigns: unknown at entry
            else:
                e2.env[nm] = val.copy() if isinstance(val, Arr) else val
        q_, r_ = Arr("endPts_k1_q"), Arr("endPts_k1_r")
        if angle_reduced:
            q_.generic = (lambda ix, f_=q_.fn: Wrap(f_(*ix)))
        e2.env["endPts_k1_q"], e2.env["endPts_k1_r"] = q_, r_
        e2.env["norm"] = carried
        e2.block(before)
        return e2, q_, r_
    # the measure restarts from zero in every pass (it is a maximum: without the reset it could never decrease)
    try:
        ex2, Q, R = loop_entry()
    except _NOT_EXTRACTED as e:
        chk.ob("F1-extraction", w, qname + " (iteration prologue)", None, f"outside the extractable fragment: {e}",
               file=modname, func=qname)
        return
    reset = ex2.env.get("norm")
    if "norm" in _top_assign_names(after):
        chk.ob("F1-convergence-reset", w, "norm = 0 at the start of each pass", None,
               "the measure is assigned after the sweep over the nodes: not decided", file=modname, func=qname)
    elif reset is carried:
        anywhere = any(isinstance(n, ast.Name) and n.id == "norm" and isinstance(n.ctx, ast.Store)
                       for st in before + after for n in ast.walk(st))
        # AUDIT: "not reset" presupposes that every store of the measure inside the sweeps ACCUMULATES (its value or one of
        # its guards reads the measure: `if d > norm: norm = d`, `norm = max(norm, d)`).  A store that does not read it
        # (`if i == 0 and j == 0: norm = 0.0`, a fresh value) may be the reset, written in another place -> UNDECIDED.
        for lp_ in loops:
            for st_ in ast.walk(lp_):
                if isinstance(st_, (ast.Assign, ast.AugAssign, ast.AnnAssign)) and any(
                        isinstance(t_, ast.Name) and t_.id == "norm"
                        for t_ in (st_.targets if isinstance(st_, ast.Assign) else [st_.target])):
                    reads = isinstance(st_, ast.AugAssign) or any(
                        isinstance(x, ast.Name) and x.id == "norm" for x in ast.walk(st_.value))
                    reads = reads or any(isinstance(x, ast.Name) and x.id == "norm" for g_ in guards_of(st_, stop=lp_)
                                         for x in ast.walk(g_[0] if isinstance(g_, tuple) else g_))
                    if not reads:
                        anywhere = True
        chk.ob("F1-convergence-reset", w, "norm = 0 at the start of each pass", None if anywhere else False,
               "the measure is assigned conditionally: not decided" if anywhere else
               "the measure (a running maximum) is not reset at the start of a pass: it can never fall below its "
               "initial value above tol, so the iteration cannot terminate", file=modname, func=qname)
    elif isinstance(reset, sp.Basic) and reset == 0:
        chk.ob("F1-convergence-reset", w, "norm = 0 at the start of each pass", True,
               "the maximum over the nodes restarts from zero in every pass", file=modname, func=qname)
    elif isinstance(reset, sp.Basic) and reset.is_number and reset.is_positive:
        # AUDIT: the statements of the pass before the sweeps leave a positive NUMBER in the measure, and the measure is a
        # running maximum (rule F1-convergence-measure): the statement "never below that number" is true for every tol
        # below it, and tol is the caller's choice
        chk.ob("F1-convergence-reset", w, "norm = 0 at the start of each pass", False,
               f"the measure restarts from {reset} > 0: it never falls below that value whatever the iterates do",
               file=modname, func=qname)
    else:
        chk.ob("F1-convergence-reset", w, "norm = 0 at the start of each pass", None,
               f"the measure restarts from `{reset}`: not decided", file=modname, func=qname)
    n_in = Symbol("norm_in", real=True)

    def one_pass(e2):
        e2.env["norm"] = n_in
        e2.env["i"], e2.env["j"] = i, j
        for outer, pre_, inner in passes:
            tq, tr = _sweep_axes(outer, inner)
            e2.env[tq], e2.env[tr] = i, j
            if pre_ and any(isinstance(n, ast.Name) and n.id == inner.target.id for st in pre_ for n in ast.walk(st)):
                raise Undecided("the inner counter is used before the inner loop")
            for st in pre_:
                e2.stmt(st)
            e2.block(inner.body)
        g2 = {n: cell(e2, n, [i, j]) for n in ("endPts_k1_q", "endPts_k1_r", "endPts_k2_q", "endPts_k2_r")}
        gn = e2.env.get("norm")
        if not isinstance(gn, sp.Basic):
            raise Undecided("the measure is not a scalar after the iteration body")
        return g2, gn
    try:
        got2, got_norm = one_pass(ex2)
        # invariant of the loop: "the angle of the iterate lies in [0, 2 pi)".  It holds at the start of every pass when
        # the initial iterate is a reduced angle and every pass leaves a reduced angle whatever iterate it starts from
        # (induction on the passes).  Then the pass may be analysed from a generic REDUCED angle: the reduction may be
        # done by the producer of the iterate (predictor, end of the pass) instead of at the head of the pass.
        if _always_reduced(got1["endPts_k1_q"]) and _always_reduced(got2["endPts_k1_q"]):
            ex2, Q, R = loop_entry(angle_reduced=True)
            got2, got_norm = one_pass(ex2)
    except _NOT_EXTRACTED as e:
        chk.ob("F1-extraction", w, qname + " (iteration)", None, f"outside the extractable fragment: {e}", file=modname, func=qname)
        return
    th_k = Wrap(Q.fn(i, j))
    r_k = R.fn(i, j)
    T = trace_spec(S, x_k=(th_k, r_k), clip=True)
    th_n, r_n = T["th2"], T["r2"]
    raw_angle = ("the drift at the current iterate is evaluated at the iterate's angle as it is stored, and that angle is not "
                 "reduced modulo 2 pi on every pass (" +
                 ("the initial iterate is not reduced" if not _always_reduced(got1["endPts_k1_q"]) else
                  "the previous pass does not leave a reduced angle") +
                 " and the pass does not reduce it before use): the potential spline is evaluated outside [0, 2 pi)")
    T_raw = trace_spec(S, x_k=(Q.fn(i, j), r_k), clip=True)
    wr_th = wrong_traces(S, "th2", x_k=(th_k, r_k), clip=True) + [(raw_angle, T_raw["th2"])]
    wr_r = wrong_traces(S, "r2", x_k=(th_k, r_k), clip=True) + [
        ("the new radius is not clipped to the radial domain [r_0, r_max]", trace_spec(S, x_k=(th_k, r_k), clip=False)["r2"]),
        (raw_angle, T_raw["r2"])]
    # a work array that neither the prologue nor (on this path) the pass has written holds what the previous CALL left
    stale_it = tuple(a_ for a_ in STALE_IT if a_ not in pro_stored or a_ not in pass_stored)
    compare(chk, "F1-fixed-point-map", w, "theta_{k+1} = W(theta_i - 1/2 (F_th(x_0) + F_th(x_k)) dt/B0)",
            got2["endPts_k1_q"], th_n, qname, args, wr_th, stale_it, precond=convention)
    compare(chk, "F1-fixed-point-map", w, "r_{k+1} = clip(r_j + 1/2 (F_r(x_0) + F_r(x_k)) dt/B0)",
            got2["endPts_k1_r"], r_n, qname, args, wr_r, stale_it, precond=convention)
    # which arrays the fill phase reads the converged foot from (today endPts_k2_*; endPts_k1_* holds the same point)
    fill_reads = {n.value.id for st in fn.body[k + 1:] for n in ast.walk(st)
                  if isinstance(n, ast.Subscript) and isinstance(n.value, ast.Name) and isinstance(n.ctx, ast.Load)
                  and n.value.id in WORK}
    fill_conv = None
    if fill_reads <= {"endPts_k2_q", "endPts_k2_r"}:
        compare(chk, "F1-fixed-point-map", w, "endPts_k2 holds the new iterate (used by the fill)",
                got2["endPts_k2_r"], r_n, qname, args, wr_r, stale_it, precond=convention)
        compare(chk, "F1-fixed-point-map", w, "endPts_k2_q holds the new angle (used by the fill)",
                got2["endPts_k2_q"], th_n, qname, args, wr_th, stale_it, precond=convention)
    elif fill_reads <= {"endPts_k1_q", "endPts_k1_r"}:
        fill_conv = "k1"            # the fill reads the iterate itself, decided by the two rules above
    else:
        fill_conv = "?"
    # convergence measure: max over both coordinates, periodic distance in theta, of (new iterate - old iterate); written
    # on the new iterate the kernel computed (its correctness is the rule above: a wrong map is reported once)
    th_n, r_n = unify_shapes(got2["endPts_k1_q"], args), unify_shapes(got2["endPts_k1_r"], args)
    d0 = sp.Abs(th_n - th_k)
    dth = ITE(sp.Gt(d0, PI), 2 * PI - d0, d0)
    m1 = ITE(sp.Gt(dth, n_in), dth, n_in)
    dr = sp.Abs(r_n - r_k)
    m2 = ITE(sp.Gt(dr, m1), dr, m1)
    m_noper = ITE(sp.Gt(dr, ITE(sp.Gt(d0, n_in), d0, n_in)), dr, ITE(sp.Gt(d0, n_in), d0, n_in))

    def measure_on(th_x, r_x):
        dx0 = sp.Abs(th_x - th_k)
        dxt = ITE(sp.Gt(dx0, PI), 2 * PI - dx0, dx0)
        mx1 = ITE(sp.Gt(dxt, n_in), dxt, n_in)
        dxr = sp.Abs(r_x - r_k)
        return ITE(sp.Gt(dxr, mx1), dxr, mx1)
    # the stopping test relies on: "the iterate no longer moves" <=> "the measure is below tol".  The iterate is what the
    # next pass starts from (endPts_k1 after the pass).  A measure taken on another stored copy of the point (endPts_k2)
    # is the same thing only while the two copies are equal.
    other = []
    try:
        th_2, r_2 = unify_shapes(got2["endPts_k2_q"], args), unify_shapes(got2["endPts_k2_r"], args)
        same_q = layered_equal(Wrap(th_2), Wrap(th_n))[0]
        same_r = layered_equal(r_2, r_n)[0]
        if not (same_q and same_r):
            which = [n_ for n_, s_ in (("endPts_k2_q", same_q), ("endPts_k2_r", same_r)) if not s_]
            clipped = (not same_r) and layered_equal(
                r_n, ITE(sp.Lt(r_2, S["r0"]), S["r0"], ITE(sp.Gt(r_2, S["rmax"]), S["rmax"], r_2)))[0]
            other.append((
                f"the measure is the distance between the old iterate and the point kept in {' / '.join(which)}, which is NOT the "
                "new iterate stored in endPts_k1 from which the next pass starts" +
                (" (endPts_k1_r is that point clipped to [r_0, r_max], endPts_k2_r is not clipped)" if clipped else "") +
                ": when the iterate has stopped moving the measure is still the distance between the two copies" +
                (", i.e. the distance of the unclipped foot from the radial boundary, in every pass: as soon as one "
                 "characteristic ends outside the radial domain by more than tol the measure never falls below tol and the "
                 "iteration does not terminate, however contractive the map is (a non-termination of its own, not the missing "
                 "bound on the number of passes)" if clipped else
                 ": the loop cannot stop at convergence (it does not terminate where the two copies differ by more than tol)"),
                measure_on(th_2, r_2)))
    except Undecided:
        pass
    # the measure taken on the new radius BEFORE clipping, while the iterate that is carried on is the clipped one
    r_unclipped = trace_spec(S, x_k=(th_k, r_k), clip=False)["r2"]
    other.append((
        "the measure is the distance between the old iterate and the new radius BEFORE it is clipped to [r_0, r_max], while "
        "the iterate the next pass starts from is the clipped one: for a characteristic that wants to leave the radial domain "
        "the measure stays equal to the overshoot beyond the boundary in every pass, never falls below tol, and the while "
        "loop does not terminate (a non-termination of its own, not the missing bound on the number of passes)",
        measure_on(th_n, r_unclipped)))
    compare(chk, "F1-convergence-measure", w, "norm = max(norm, periodic |dtheta|, |dr|)", got_norm, m2, qname, args,
            precond=convention, wrong=other + [
        ("the measure is identically its incoming value: the change of the iterate does not enter it (are the new and "
         "the old iterate the same cells?), so the loop stops after its first pass", n_in),
        ("the angular change is not measured as a periodic distance: an iterate that crosses theta = 0 looks 2 pi away "
         "and the loop cannot terminate there", m_noper),
        ("the radial change does not enter the measure: the iteration stops while the radius still moves", m1),
        ("the angular change does not enter the measure: the iteration stops while the angle still moves",
         ITE(sp.Gt(dr, n_in), dr, n_in))])
    # ---- phase 3: fill after convergence (statements after the while), from generic converged foot
    post = ast.FunctionDef(name="_post", args=fn.args, body=fn.body[k + 1:], decorator_list=[], lineno=fn.lineno)
    ex3, args3 = setup(post, mod, (qname,))
    for nm, val in ex.env.items():
        if nm not in args3 and isinstance(val, sp.Basic):
            ex3.env[nm] = val           # scalar locals of the prologue (rMax, nPts_r, multFactor, ...)
    ex3.env.setdefault("pi", PI)
    # the loop body runs at least once (rule F1-convergence-test) and every pass leaves a reduced angle in endPts_k2_q: the
    # foot the fill phase reads is a generic reduced angle (the phase need not reduce it again)
    if _always_reduced(got2["endPts_k2_q"]) and isinstance(ex3.env.get("endPts_k2_q"), Arr):
        a_ = ex3.env["endPts_k2_q"]
        a_.generic = (lambda ix, f_=a_.fn: Wrap(f_(*ix)))
    if fill_conv == "?":
        chk.ob("F1-boundary-fill", fn, "f[i,j] = fill(theta_foot, r_foot)", None,
               f"the fill phase reads the work arrays {sorted(fill_reads)}: which of them hold the converged foot is not decided",
               file=modname, func=qname)
        return
    foot_q, foot_r = ("endPts_k1_q", "endPts_k1_r") if fill_conv == "k1" else ("endPts_k2_q", "endPts_k2_r")
    if fill_conv == "k1" and _always_reduced(got2["endPts_k1_q"]) and isinstance(ex3.env.get("endPts_k1_q"), Arr):
        a_ = ex3.env["endPts_k1_q"]
        a_.generic = (lambda ix, f_=a_.fn: Wrap(f_(*ix)))
    try:
        ex3.run()
        got_f = cell(ex3, "f", [i, j])
        thf = ex3.env[foot_q].fn(i, j)
        rf = ex3.env[foot_r].fn(i, j)
    except _NOT_EXTRACTED as e:
        chk.ob("F1-extraction", fn, qname + " (fill)", None, f"outside the extractable fragment: {e}", file=modname, func=qname)
        return
    sweep_ranges(chk, fn, [(fn.body[k + 1:], ex3.env)], args3, modname, qname)
    S3 = spec_symbols(args3)
    nul3 = _boundary_mode(chk, fn, args3, modname, qname)
    if nul3 is None:
        return
    compare(chk, "F1-boundary-fill", fn, "f[i,j] = fill(theta_foot, r_foot)", got_f,
            fill_spec(S3, thf, rf, nul3), qname, args3, wrong_fills(S3, thf, rf, nul3))


# ---------------------------------------------------------------------------------------------------------
# call sites of the kernels in PoloidalAdvection.step
# ---------------------------------------------------------------------------------------------------------

# roles of the actuals that are parameters of step() itself (its public signature)
STEP_ROLES = {
    "phi.basis[0].knots": "kts1Phi", "phi.basis[1].knots": "kts2Phi", "phi.coeffs": "coeffsPhi",
    "phi.basis[0].degree": "deg1Phi", "phi.basis[1].degree": "deg2Phi",
    "phi.basis[0].cubic_uniform": "cubic_uniform_splines",
    "f": "f", "float(dt)": "dt", "dt": "dt", "v": "v",
}
# an attribute that keeps a constructor argument has the role of that argument
CTOR_PARAM_ROLES = {"tol": "tol", "nulEdge": "nulBound"}
AXIS_ROLES = {"r": "rPts", "theta": "qPts"}


def pol_roles(recv):
    """roles of the parts of the spline of the distribution, `recv` being the spline object the call site reads"""
    return {f"{recv}.basis[0].knots": "kts1Pol", f"{recv}.basis[1].knots": "kts2Pol", f"{recv}.coeffs": "coeffsPol",
            f"{recv}.basis[0].degree": "deg1Pol", f"{recv}.basis[1].degree": "deg2Pol"}


def ctor_provenance(cls):
    """attributes that keep an argument of the constructor unchanged: `self.X = <parameter>` as the only store of
    self.X in the class -> {"self.X": parameter name}"""
    init = next((st for st in cls.body if isinstance(st, ast.FunctionDef) and st.name == "__init__"), None)
    if init is None:
        return {}
    params = {a.arg for a in init.args.args[1:]} | {a.arg for a in init.args.kwonlyargs}
    rebound = {n.id for n in ast.walk(init) if isinstance(n, ast.Name) and isinstance(n.ctx, ast.Store)}
    stores = {}
    for n in ast.walk(cls):
        if isinstance(n, ast.Attribute) and isinstance(n.ctx, ast.Store) and isinstance(n.value, ast.Name) and n.value.id == "self":
            stores[n.attr] = stores.get(n.attr, 0) + 1
    out = {}
    for st in init.body:
        if isinstance(st, ast.Assign) and len(st.targets) == 1 and isinstance(st.targets[0], ast.Attribute) \
                and src(st.targets[0].value) == "self" and isinstance(st.value, ast.Name) and st.value.id in params \
                and st.value.id not in rebound and stores.get(st.targets[0].attr) == 1:
            out["self." + st.targets[0].attr] = st.value.id
    return out


def work_roles_at_call(chk, c0, kname, b, work_exprs, known, where):
    """the eight work parameters of a kernel receive eight different work arrays.  The arrays are scratch storage of one
    shape that only step() hands out and that the kernels write before they read (rules F1-*, which report a cell read
    before it is written): WHICH array plays which part is a convention of the call site and not a requirement, what
    the kernels need is that no two parts share an array (rule E2-work-array-storage decides whether two different
    expressions denote different storage) and that no other argument is used as scratch."""
    got = {}
    for f, a in b.items():
        if f in WORK:
            got.setdefault(src(a), []).append(f)
    # AUDIT: "two parameters share an array -> one overwrites the other" is true when the kernel really keeps a value in
    # each of them (writes it and reads it again): `live` = the parameters the general kernel behind this wrapper both
    # writes and reads.  A parameter the kernel no longer uses (kept for the signature) may share storage: UNDECIDED.
    live = _KERNEL_LIVE.get(kname)
    for f, a in b.items():
        s_ = src(a)
        what = f"{kname}: {f} <- {s_}"
        node = a if hasattr(a, "lineno") else c0
        if f in WORK and s_ not in known:
            shared = [g for g in got[s_] if g != f]
            if shared and (live is None or f not in live or shared[0] not in live):
                chk.ob("E2-argument-role", node, what, None,
                       f"parameters `{f}` and `{shared[0]}` receive the same array `{s_}`, and the kernel does not both write and "
                       "read each of them (or it could not be examined): whether one overwrites a value the other still "
                       "needs is not decided", **where)
                continue
            if not shared:
                chk.ob("E2-argument-role", node, what, True,
                       f"work parameter `{f}` receives `{s_}`, which no other parameter of the call receives", **where)
                continue
            g = shared[0]
            pf, pg = (x.replace("_k1_", "_k?_").replace("_k2_", "_k?_") for x in (f, g))
            if "endPts" in f and "endPts" in g and {f[:9], g[:9]} == {"endPts_k1", "endPts_k2"} and kname.endswith("_expl"):
                chk.ob("E2-argument-role", node, what, None,
                       f"parameters `{f}` and `{g}` of the explicit kernel receive the same array `{s_}`: whether the kernel "
                       "still needs the first-stage end point when it writes the second-stage one is not decided by this rule",
                       **where)
                continue
            if pf == pg and "endPts" in f:
                why = (f"parameters `{f}` and `{g}` receive the same array `{s_}`: the implicit kernel measures convergence as "
                       "|endPts_k2 - endPts_k1| (new iterate minus old iterate); on shared storage that is always 0, the while "
                       "loop stops after its first pass and the foot is one unconverged iterate")
            else:
                why = (f"parameters `{f}` and `{g}` receive the same array `{s_}`: the kernel keeps different quantities in them "
                       "during one sweep (drift at the node / at the second point, first- and second-stage end points), one "
                       "overwrites the other")
            chk.ob("E2-argument-role", node, what, False, why, **where)
        elif f not in WORK and s_ in work_exprs:
            wf_ = [g for g in got.get(s_, [])]
            chk.ob("E2-argument-role", node, what, False if (live is not None and any(g in live for g in wf_)) else None,
                   f"`{s_}` is handed to the same call as a work array (uninitialised scratch storage that the kernel "
                   f"overwrites) and as `{f}`", **where)
        # a work parameter that receives an argument of another known role is reported by the role table (check_roles)


# wrapper name -> parameters that the general kernel behind it both writes and reads (filled by call_site_roles)
_KERNEL_LIVE: dict = {}


def _pure_path(n):
    """an expression that denotes the same object wherever it is written in the function (no call, no arithmetic)"""
    if isinstance(n, (ast.Name, ast.Constant)):
        return True
    if isinstance(n, ast.Attribute):
        return _pure_path(n.value)
    if isinstance(n, ast.Subscript):
        return _pure_path(n.value) and _pure_path(n.slice)
    if isinstance(n, (ast.Tuple, ast.List)):
        return all(_pure_path(x) or (isinstance(x, ast.Call) and src(x.func) == "float" and len(x.args) == 1 and
                                     _pure_path(x.args[0])) for x in n.elts)
    return False


def local_aliases(fn):
    """locals of `fn` bound exactly once, unconditionally at the top level of the function, to a pure path (or a tuple
    of pure paths) whose root names are not rebound: name -> value node"""
    params = {a.arg for a in fn.args.args}
    stores = {}
    for n in ast.walk(fn):
        if isinstance(n, ast.Name) and isinstance(n.ctx, ast.Store):
            stores[n.id] = stores.get(n.id, 0) + 1
    out = {}
    for st in fn.body:
        if isinstance(st, ast.Assign) and len(st.targets) == 1 and isinstance(st.targets[0], ast.Name):
            nm = st.targets[0].id
            if nm in params or stores.get(nm) != 1 or not _pure_path(st.value):
                continue
            roots = {x.id for x in ast.walk(st.value) if isinstance(x, ast.Name)}
            if any(stores.get(r, 0) > 1 for r in roots):
                continue
            out[nm] = st.value
        elif isinstance(st, ast.Assign) and len(st.targets) == 1 and isinstance(st.targets[0], (ast.Tuple, ast.List)) \
                and all(isinstance(t, ast.Name) for t in st.targets[0].elts) and _pure_path(st.value):
            # `a, b = X` with X a pure path (not a literal tuple): a is X[0], b is X[1] (unpacking a sequence)
            names = [t.id for t in st.targets[0].elts]
            roots = {x.id for x in ast.walk(st.value) if isinstance(x, ast.Name)}
            if any(stores.get(r, 0) > 1 for r in roots) or any(n_ in params or stores.get(n_) != 1 for n_ in names):
                continue
            if isinstance(st.value, (ast.Tuple, ast.List)):
                if len(st.value.elts) == len(names) and not any(isinstance(x, ast.Starred) for x in st.value.elts):
                    for n_, v_ in zip(names, st.value.elts):
                        out[n_] = v_
                continue
            for k_, n_ in enumerate(names):
                sub_ = ast.Subscript(value=st.value, slice=ast.Constant(value=k_), ctx=ast.Load())
                ast.copy_location(sub_, st.value)
                ast.fix_missing_locations(sub_)
                out[n_] = sub_
    return out


class _Subst(ast.NodeTransformer):
    def __init__(self, env):
        self.env = env
        self.depth = 0

    def visit_Name(self, n):
        if isinstance(n.ctx, ast.Load) and n.id in self.env and self.depth < 6:
            self.depth += 1
            try:
                import copy
                return self.visit(copy.deepcopy(self.env[n.id]))
            finally:
                self.depth -= 1
        return n


def _kw_value_ok(v, stores):
    """value of a keyword table: an expression whose names are never rebound in the function (it denotes at the call
    what it denoted where the table was built) and that contains no call other than a conversion of such a value"""
    for n in ast.walk(v):
        if isinstance(n, ast.Name) and stores.get(n.id, 0) > 1:
            return False
        if isinstance(n, ast.Call) and not (src(n.func) in ("float", "int", "bool") and len(n.args) == 1 and not n.keywords):
            return False
        if isinstance(n, (ast.Lambda, ast.ListComp, ast.DictComp, ast.SetComp, ast.GeneratorExp, ast.Starred, ast.NamedExpr)):
            return False
    return True


def _kw_items(v, tables):
    """the (key, value node) pairs of a keyword table written as `dict(k=v, ...)`, `{"k": v, ...}`, a local name of
    `tables`, or a merge of those (`dict(base, k=v)`, `dict(**base, k=v)`, `{**base, "k": v}`: later entries replace
    earlier ones); None when the expression is not such a table"""
    if isinstance(v, ast.Name):
        return list(tables[v.id]) if v.id in tables else None
    out = []

    def put(k_, val):
        out[:] = [(a, b) for a, b in out if a != k_] + [(k_, val)]

    def merge(e):
        it = _kw_items(e, tables)
        if it is None:
            return False
        for a, b in it:
            put(a, b)
        return True
    if isinstance(v, ast.Dict):
        for k_, val in zip(v.keys, v.values):
            if k_ is None:
                if not merge(val):
                    return None
            elif isinstance(k_, ast.Constant) and isinstance(k_.value, str):
                put(k_.value, val)
            else:
                return None
        return out
    if isinstance(v, ast.Call) and isinstance(v.func, ast.Name) and v.func.id == "dict" and len(v.args) <= 1:
        if v.args and not merge(v.args[0]):
            return None
        seen = set()
        for k_ in v.keywords:
            if k_.arg is None:
                if not merge(k_.value):
                    return None
            else:
                if k_.arg in seen:
                    return None
                seen.add(k_.arg)
                put(k_.arg, k_.value)
        return out
    return None


def local_kwtables(fn):
    """locals of `fn` that are keyword tables of a call: bound exactly once, unconditionally at the top level of the
    function, to `dict(k=v, ...)` / `{"k": v, ...}` (or a merge of earlier tables), never modified (every other
    occurrence of the name is `**name` in a call or the base of a later table) and whose values denote the same
    objects wherever they are written: name -> [(key, value node)]"""
    stores = {}
    for n in ast.walk(fn):
        if isinstance(n, ast.Name) and isinstance(n.ctx, ast.Store):
            stores[n.id] = stores.get(n.id, 0) + 1
    params = {a.arg for a in fn.args.args}
    out = {}
    for st in fn.body:
        if not (isinstance(st, ast.Assign) and len(st.targets) == 1 and isinstance(st.targets[0], ast.Name)):
            continue
        nm = st.targets[0].id
        if nm in params or stores.get(nm) != 1:
            continue
        if not (isinstance(st.value, ast.Dict) or (isinstance(st.value, ast.Call) and src(st.value.func) == "dict")):
            continue
        items = _kw_items(st.value, out)
        if items is None or not all(_kw_value_ok(val, stores) for _k, val in items):
            continue
        # the table is only ever unpacked: any other use (subscript store, method call, argument) may modify it
        if _only_unpacked(fn, nm):
            out[nm] = items
    return out


def _only_unpacked(fn, nm):
    """every read of the local `nm` is `**nm` in a call or the base of a later table"""
    for n in ast.walk(fn):
        if isinstance(n, ast.Name) and n.id == nm and isinstance(n.ctx, ast.Load):
            p_ = parent(n)
            if isinstance(p_, ast.keyword) and p_.arg is None and p_.value is n:
                continue
            if isinstance(p_, ast.Dict) and any(k_ is None and val is n for k_, val in zip(p_.keys, p_.values)):
                continue
            if isinstance(p_, ast.Call) and src(p_.func) == "dict" and p_.args and p_.args[0] is n:
                continue
            return False
    return True


def _arm_bindings(arm, fn_stores, tables):
    """the simple bindings `name = value` made at the top level of one arm of a selection -> {name: value node} for
    names bound once in the arm"""
    out, n = {}, {}
    for st in arm:
        for x in ast.walk(st):
            if isinstance(x, ast.Name) and isinstance(x.ctx, ast.Store):
                n[x.id] = n.get(x.id, 0) + 1
    for st in arm:
        if isinstance(st, ast.Assign) and len(st.targets) == 1 and isinstance(st.targets[0], ast.Name) \
                and n.get(st.targets[0].id) == 1:
            out[st.targets[0].id] = st.value
    return out


def property_cases(fn, attr):
    """the value of `self.<attr>` inside the method `fn` when <attr> is a read-only property of the class of `fn` or of a
    base class written in the same module: [(condition text or None, value node)], one entry per `return` of the property,
    with the property's own local aliases substituted.  The property must be in the fragment
        [docstring]; name = <pure path> ...; return E          |   ...; if T: return E1 [else:] return E2
    and be the ONLY definition of that name in the class and its bases (no setter, no attribute of that name stored
    anywhere in the module through `self`).  None when any of this is not established (the caller then does not follow
    the attribute at all)."""
    import copy
    cls = parent(fn)
    if not isinstance(cls, ast.ClassDef):
        return None
    modn = parent(cls)
    classes = {c.name: c for c in getattr(modn, "body", []) if isinstance(c, ast.ClassDef)}
    todo, seen, defs = [cls], set(), []
    while todo:
        c = todo.pop()
        if c.name in seen:
            continue
        seen.add(c.name)
        for st in c.body:
            if isinstance(st, ast.FunctionDef) and st.name == attr:
                defs.append(st)
            elif isinstance(st, (ast.Assign, ast.AnnAssign)) and any(
                    src(t) == attr for t in (st.targets if isinstance(st, ast.Assign) else [st.target])):
                return None
        for b_ in c.bases:
            if isinstance(b_, ast.Name) and b_.id in classes:
                todo.append(classes[b_.id])
            elif not (isinstance(b_, ast.Name) and b_.id == "object"):
                return None                      # a base class that is not written in this module
    if len(defs) != 1:
        return None
    d = defs[0]
    if [src(x) for x in d.decorator_list] != ["property"] or len(d.args.args) != 1:
        return None
    for n in ast.walk(modn):
        if isinstance(n, ast.Attribute) and n.attr == attr and isinstance(n.ctx, (ast.Store, ast.Del)):
            return None
    body = [st for st in d.body if not (isinstance(st, ast.Expr) and isinstance(st.value, ast.Constant))]
    al = {}
    while body and isinstance(body[0], ast.Assign) and len(body[0].targets) == 1 and isinstance(body[0].targets[0], ast.Name) \
            and _pure_path(body[0].value):
        al[body[0].targets[0].id] = body[0].value
        body = body[1:]
    stores = {n.id for st in d.body for n in ast.walk(st) if isinstance(n, ast.Name) and isinstance(n.ctx, ast.Store)}
    if stores != set(al):
        return None

    def value(e):
        if e is None or any(isinstance(x, (ast.Call, ast.Lambda, ast.Starred, ast.NamedExpr, ast.Await, ast.Yield))
                            for x in ast.walk(e)):
            return None
        return _Subst(al).visit(copy.deepcopy(e))
    out = None
    if len(body) == 1 and isinstance(body[0], ast.Return):
        out = [(None, value(body[0].value))]
    elif len(body) in (1, 2) and isinstance(body[0], ast.If) and len(body[0].body) == 1 and isinstance(body[0].body[0], ast.Return):
        other = body[0].orelse if len(body) == 1 else body[1:]
        if len(other) == 1 and isinstance(other[0], ast.Return) and (len(body) == 1 or not body[0].orelse):
            t = src(_Subst(al).visit(copy.deepcopy(body[0].test)))
            out = [(t, value(body[0].body[0].value)), (f"not ({t})", value(other[0].value))]
    if out is None or any(v is None for _t, v in out):
        return None
    return out


def splice_property_tuples(fn, call):
    """copy of `call` in which `*self.<attr>` is replaced by the elements of the tuple the property <attr> returns, when the
    property has ONE return and it is a tuple display (see property_cases); `call` itself otherwise"""
    import copy
    if not any(isinstance(a, ast.Starred) and isinstance(a.value, ast.Attribute) and src(a.value.value) == "self" for a in call.args):
        return call
    c = copy.copy(call)
    args = []
    for a in call.args:
        if isinstance(a, ast.Starred) and isinstance(a.value, ast.Attribute) and src(a.value.value) == "self":
            cases = property_cases(fn, a.value.attr)
            if cases is not None and len(cases) == 1 and isinstance(cases[0][1], ast.Tuple) \
                    and not any(isinstance(x, ast.Starred) for x in cases[0][1].elts):
                for x in cases[0][1].elts:
                    for y in ast.walk(x):
                        ast.copy_location(y, a)
                    args.append(x)
                continue
        args.append(a)
    c.args = args
    return c


def _bind_property_case(call, attr, tup, k):
    """copy of the call `self.<attr>[k](...)` for one case of the property: the callee is element k of the case's tuple and
    every `self.<attr>[j]` in the argument list is element j"""
    import copy

    class _Case(ast.NodeTransformer):
        def visit_Subscript(self, n):
            if isinstance(n.value, ast.Attribute) and n.value.attr == attr and src(n.value.value) == "self":
                j = _const_index(n.slice)
                if isinstance(j, int) and -len(tup.elts) <= j < len(tup.elts):
                    return copy.deepcopy(tup.elts[j])
            self.generic_visit(n)
            return n
    c = _Case().visit(copy.deepcopy(call))
    for n in ast.walk(c):
        ast.copy_location(n, call)
    ast.fix_missing_locations(c)
    c._parent = parent(call)
    return c


def selected_kernel_calls(fn, knames):
    """the kernel calls of `fn`, found by what is called and not by how the call is written:
      K(...)                                                       a direct call
      if c: g = K1 [; t = {...}] else: g = K2 [; t = {...}] ... g(..., **t)    one call through a local name that an
                                                                   if/else (or `g = K1 if c else K2`) binds to a kernel
    -> [(kernel name, call node, {local: value node bound on the selecting arm})]; a call through a name whose binding is
    not of that form is returned with kernel name None (its target is not decided)."""
    out = []
    stores = {}
    for n in ast.walk(fn):
        if isinstance(n, ast.Name) and isinstance(n.ctx, ast.Store):
            stores[n.id] = stores.get(n.id, 0) + 1
    # local names that some statement binds to a kernel
    sel = {}
    for n in ast.walk(fn):
        if isinstance(n, ast.Assign) and len(n.targets) == 1 and isinstance(n.targets[0], ast.Name):
            v = n.value
            if isinstance(v, ast.Name) and v.id in knames:
                sel.setdefault(n.targets[0].id, []).append(n)
            elif isinstance(v, ast.IfExp) and all(isinstance(x, ast.Name) and x.id in knames for x in (v.body, v.orelse)):
                sel.setdefault(n.targets[0].id, []).append(n)
    for c in ast.walk(fn):
        if isinstance(c, ast.Call) and isinstance(c.func, ast.Subscript) and isinstance(c.func.value, ast.Attribute) \
                and src(c.func.value.value) == "self" and isinstance(_const_index(c.func.slice), int):
            # `self.<property>[k](...)`: the property returns, case by case, a tuple whose element k is a kernel -> one call
            # site per case, every `self.<property>[j]` of the argument list replaced by element j of that case
            attr, k_ = c.func.value.attr, _const_index(c.func.slice)
            cases = property_cases(fn, attr)
            if cases is None or not any(isinstance(v_, ast.Tuple) and 0 <= k_ < len(v_.elts) and isinstance(v_.elts[k_], ast.Name)
                                        and v_.elts[k_].id in knames for _t, v_ in cases):
                continue
            unconditional = any(c is x for st in fn.body for x in ast.walk(st) if isinstance(st, ast.Expr))
            if unconditional and all(isinstance(v_, ast.Tuple) and 0 <= k_ < len(v_.elts) and isinstance(v_.elts[k_], ast.Name)
                                     and v_.elts[k_].id in knames and not any(isinstance(x, ast.Starred) for x in v_.elts)
                                     for _t, v_ in cases) and len({v_.elts[k_].id for _t, v_ in cases}) == len(cases):
                for _t, v_ in cases:
                    out.append((v_.elts[k_].id, _bind_property_case(c, attr, v_, k_), {}))
            else:
                out.append((None, c, {}))
            continue
        if not (isinstance(c, ast.Call) and isinstance(c.func, ast.Name)):
            continue
        if c.func.id in knames:
            out.append((c.func.id, c, {}))
            continue
        g = c.func.id
        if g not in sel:
            # `g, extra = self.<property>` at the top level of the function, the property returning, case by case, a tuple
            # whose first element is a kernel: one call site per case, the other names bound to the other elements
            unp = [st for st in fn.body if isinstance(st, ast.Assign) and len(st.targets) == 1
                   and isinstance(st.targets[0], (ast.Tuple, ast.List)) and all(isinstance(t, ast.Name) for t in st.targets[0].elts)
                   and any(t.id == g for t in st.targets[0].elts) and isinstance(st.value, ast.Attribute)
                   and src(st.value.value) == "self"]
            if len(unp) == 1 and stores.get(g) == 1 and unp[0].lineno < c.lineno and any(
                    c is x for st in fn.body for x in ast.walk(st) if not isinstance(st, (ast.If, ast.For, ast.While))):
                names = [t.id for t in unp[0].targets[0].elts]
                cases = property_cases(fn, unp[0].value.attr)
                if cases is not None and all(stores.get(n_) == 1 for n_ in names) and all(
                        isinstance(v_, ast.Tuple) and len(v_.elts) == len(names) for _t, v_ in cases):
                    k_ = names.index(g)
                    if all(isinstance(v_.elts[k_], ast.Name) and v_.elts[k_].id in knames for _t, v_ in cases) \
                            and len({v_.elts[k_].id for _t, v_ in cases}) == len(cases):
                        for _t, v_ in cases:
                            out.append((v_.elts[k_].id, c, {n_: e_ for n_, e_ in zip(names, v_.elts) if n_ != g}))
                        continue
                out.append((None, c, {}))
            continue
        defs = sel[g]
        if stores.get(g) != len(defs):
            out.append((None, c, {}))            # also bound to something that is not a kernel
            continue
        if len(defs) == 1 and isinstance(defs[0].value, ast.IfExp) and any(defs[0] is st for st in fn.body) \
                and defs[0].lineno < c.lineno:
            for k_ in (defs[0].value.body, defs[0].value.orelse):
                out.append((k_.id, c, {}))
            continue
        # every binding stands at the top level of an arm of ONE top-level if/elif/else that precedes the call and
        # that has an else: each arm is one case
        top = [st for st in fn.body if isinstance(st, ast.If) and any(d is x for d in defs for x in ast.walk(st))]
        if len(top) != 1 or top[0].lineno >= c.lineno or any(c is x for x in ast.walk(top[0])) \
                or not any(c is x for st in fn.body for x in ast.walk(st) if not isinstance(st, (ast.If, ast.For, ast.While))):
            out.append((None, c, {}))
            continue
        arms, node = [], top[0]
        while True:
            arms.append(node.body)
            if len(node.orelse) == 1 and isinstance(node.orelse[0], ast.If):
                node = node.orelse[0]
                continue
            arms.append(node.orelse)
            break
        cases = []
        for arm in arms:
            ab = _arm_bindings(arm, stores, None)
            if g not in ab or not (isinstance(ab[g], ast.Name) and ab[g].id in knames):
                cases = None
                break
            cases.append((ab[g].id, ab))
        if not cases:
            out.append((None, c, {}))
            continue
        for kname, ab in cases:
            # a name bound on the arms is usable at the call when every arm binds it (once) and nothing else does
            usable = {k_: v_ for k_, v_ in ab.items() if k_ != g and stores.get(k_) == len(arms)
                      and all(k_ in ab2 for _kn, ab2 in cases)}
            out.append((kname, c, usable))
    return out


def resolved_call(call, aliases, kwtables=None):
    """the call with local aliases replaced by what they denote, `*name` of a local tuple and `**name` of a local
    keyword table spliced in"""
    import copy
    c = copy.deepcopy(call)
    sub = _Subst(aliases)
    if kwtables is not None:
        kws = []
        for k in c.keywords:
            items = _kw_items(k.value, kwtables) if k.arg is None else None
            if items is None:
                kws.append(k)
            else:
                kws += [ast.keyword(arg=a, value=copy.deepcopy(b)) for a, b in items]
        c.keywords = kws
    args = []
    for a in c.args:
        if isinstance(a, ast.Starred):
            v = sub.visit(a.value)
            if isinstance(v, (ast.Tuple, ast.List)) and not any(isinstance(x, ast.Starred) for x in v.elts):
                args += list(v.elts)
            else:
                args.append(ast.Starred(value=v, ctx=ast.Load()))
        else:
            args.append(sub.visit(a))
    c.args = args
    for k in c.keywords:
        k.value = sub.visit(k.value)
    for n in ast.walk(c):
        ast.copy_location(n, call)
    ast.fix_missing_locations(c)
    return c


AXES = ["r", "theta", "z", "v"]


def grid_axes(init):
    """attributes that the constructor binds to a selection of the list of grid axes `eta_vals` = (r, theta, z, v):
    {"self.X": ("r" | "theta" | ... | [axis, ...], assignment node)}.  The selection (subscripts and slices with constant
    bounds, tuples of those) is evaluated on the list of the axis NAMES."""
    out = {}
    stores = {}
    for n in ast.walk(init):
        if isinstance(n, ast.Attribute) and isinstance(n.ctx, ast.Store) and src(n.value) == "self":
            stores[n.attr] = stores.get(n.attr, 0) + 1
    for st in ast.walk(init):
        if not (isinstance(st, ast.Assign) and len(st.targets) == 1):
            continue
        tg, vals = [st.targets[0]], [st.value]
        if isinstance(st.targets[0], (ast.Tuple, ast.List)) and isinstance(st.value, (ast.Tuple, ast.List)) \
                and len(st.targets[0].elts) == len(st.value.elts):
            tg, vals = list(st.targets[0].elts), list(st.value.elts)
        for t, v in zip(tg, vals):
            if not (isinstance(t, ast.Attribute) and src(t.value) == "self" and stores.get(t.attr) == 1):
                continue
            simple = all(isinstance(n, (ast.Name, ast.Subscript, ast.Slice, ast.Constant, ast.UnaryOp, ast.USub, ast.Tuple,
                                        ast.List, ast.Load, ast.expr_context)) for n in ast.walk(v)) and \
                any(isinstance(n, ast.Name) for n in ast.walk(v)) and \
                all(n.id == "eta_vals" for n in ast.walk(v) if isinstance(n, ast.Name))
            if not simple:
                continue
            try:
                got = eval(compile(ast.Expression(body=v), "<points>", "eval"), {"__builtins__": {}}, {"eta_vals": list(AXES)})
            except Exception:
                continue
            if isinstance(got, str):
                out["self." + t.attr] = (got, st)
            elif isinstance(got, (list, tuple)) and all(isinstance(x, str) for x in got):
                out["self." + t.attr] = (list(got), st)
    return out


def axis_of(e, axes):
    """the grid axis an actual denotes: `self.X` bound to one axis, or `self.X[k]` with X bound to a sequence of axes
    -> (axis, assignment node) ; None when it is not decided"""
    s_ = src(e)
    if s_ in axes and isinstance(axes[s_][0], str):
        return axes[s_]
    if isinstance(e, ast.Subscript) and src(e.value) in axes and isinstance(axes[src(e.value)][0], list):
        k = e.slice
        if isinstance(k, ast.UnaryOp) and isinstance(k.op, ast.USub) and isinstance(k.operand, ast.Constant):
            k = ast.Constant(value=-k.operand.value)
        seq = axes[src(e.value)][0]
        if isinstance(k, ast.Constant) and isinstance(k.value, int) and -len(seq) <= k.value < len(seq):
            return seq[k.value], axes[src(e.value)][1]
    return None


def _alloc_call(v):
    return isinstance(v, ast.Call) and src(v.func).split(".")[-1] in (
        "empty", "zeros", "ones", "full", "empty_like", "zeros_like", "ones_like", "full_like", "ndarray", "copy")


def _alloc_seq(v):
    """a sequence whose elements are separate allocations: `[alloc(...) for ...]`, `[alloc(...), alloc(...)]` -> "each";
    one allocation repeated, `[alloc(...)] * n` -> "repeat"; None otherwise"""
    if isinstance(v, ast.ListComp) and _alloc_call(v.elt):
        return "each"
    if isinstance(v, (ast.List, ast.Tuple)) and v.elts and all(_alloc_call(x) for x in v.elts):
        return "each"
    if isinstance(v, ast.BinOp) and isinstance(v.op, ast.Mult):
        for a_ in (v.left, v.right):
            if isinstance(a_, (ast.List, ast.Tuple)) and a_.elts and all(_alloc_call(x) for x in a_.elts):
                return "repeat"
    # tables keyed by name: one allocation per key / one allocation for all keys
    if isinstance(v, ast.DictComp) and _alloc_call(v.value):
        return "each"
    if isinstance(v, ast.Dict) and v.values and all(k_ is not None for k_ in v.keys) and all(_alloc_call(x) for x in v.values):
        return "each"
    if isinstance(v, ast.Call) and src(v.func) == "dict.fromkeys" and len(v.args) == 2 and _alloc_call(v.args[1]):
        return "repeat"
    # a record built from separate allocations: dict(a=alloc, ...), Record(alloc, alloc, ...), Record(a=alloc, ...)
    if isinstance(v, ast.Call) and not _alloc_call(v) and len(v.args) + len(v.keywords) >= 2 \
            and all(_alloc_call(x) for x in v.args) and all(k_.arg is not None and _alloc_call(k_.value) for k_ in v.keywords):
        return "each"
    if isinstance(v, ast.Call) and not _alloc_call(v) and len(v.args) == 1 and not v.keywords \
            and isinstance(v.args[0], ast.Starred) and _alloc_seq(v.args[0].value) == "each" \
            and not isinstance(v.args[0].value, (ast.DictComp, ast.Dict)):
        return "each"                  # Record(*[alloc for ...])
    return None


def _const_index(sl):
    sl = sl.elts[0] if isinstance(sl, ast.Tuple) and sl.elts else sl
    if isinstance(sl, ast.Constant) and isinstance(sl.value, str):
        return sl.value                # entry of a table keyed by name
    if isinstance(sl, ast.UnaryOp) and isinstance(sl.op, ast.USub) and isinstance(sl.operand, ast.Constant) \
            and isinstance(sl.operand.value, int):
        return -sl.operand.value
    return sl.value if isinstance(sl, ast.Constant) and isinstance(sl.value, int) and not isinstance(sl.value, bool) else None


def work_array_storage(chk, cls, actuals):
    """the expressions handed to the kernels as work arrays denote pairwise different pieces of storage.
    `actuals`: {source text of the actual: (node, [work parameters it is bound to])}, taken from the kernel calls: the rule
    follows whatever data structure the class keeps its scratch arrays in (attributes, views of a block, entries of a
    list)."""
    exprs = list(actuals)
    desc = {}            # expr -> list of (storage descriptor, node)
    allocs = {}          # `self.X` / local -> allocation nodes (for the bases of views)
    seqs = {}            # `self.X` -> "each" / "repeat"
    init = next((st for st in cls.body if isinstance(st, ast.FunctionDef) and st.name == "__init__"), cls)

    def describe(v, where_):
        if _alloc_call(v):
            return ("fresh", id(v), where_)
        if isinstance(v, ast.Subscript):
            k_ = _const_index(v.slice)
            base = f"alloc@{id(v.value)}" if _alloc_call(v.value) else src(v.value)
            return ("view", base, k_, where_) if k_ is not None else ("unknown", src(v), where_)
        if isinstance(v, ast.Attribute) and src(v.value) == "self":
            return ("alias", src(v), where_)
        if isinstance(v, ast.Attribute) and isinstance(v.value, ast.Attribute) and src(v.value.value) == "self":
            return ("view", src(v.value), "." + v.attr, where_)        # a field of a record kept by the object
        return ("unknown", src(v), where_)

    for m in [st for st in cls.body if isinstance(st, ast.FunctionDef)]:
        for st in ast.walk(m):
            if not isinstance(st, ast.Assign):
                continue
            pairs = []
            for t in st.targets:
                if isinstance(t, (ast.Tuple, ast.List)):
                    if isinstance(st.value, (ast.Tuple, ast.List)) and len(st.value.elts) == len(t.elts):
                        pairs += list(zip(t.elts, st.value.elts))
                    elif isinstance(st.value, (ast.GeneratorExp, ast.ListComp)) and _alloc_call(st.value.elt) \
                            and not any(isinstance(e_, ast.Starred) for e_ in t.elts):
                        # `a, b, c = (alloc(...) for _ in range(3))`: the comprehension evaluates its element expression once
                        # per item, so every target receives an allocation of its own
                        for k_, e_ in enumerate(t.elts):
                            ts = src(e_)
                            allocs.setdefault(ts, []).append(st.value.elt)
                            if ts in exprs:
                                desc.setdefault(ts, []).append((("fresh", (id(st.value), k_), m.name), st))
                    else:
                        for k_, e_ in enumerate(t.elts):       # unpacking an array yields its sub-arrays
                            pairs.append((e_, ast.Subscript(value=st.value, slice=ast.Constant(value=k_), ctx=ast.Load())))
                else:
                    pairs.append((t, st.value))
            for t, v in pairs:
                ts = src(t)
                if _alloc_call(v):
                    allocs.setdefault(ts, []).append(v)
                elif _alloc_seq(v):
                    allocs.setdefault(ts, []).append(v)
                    seqs[ts] = _alloc_seq(v)
                elif isinstance(t, (ast.Attribute, ast.Name)):
                    allocs.setdefault(ts, []).append(None)          # bound to something that is not an allocation
                if ts in exprs:
                    desc.setdefault(ts, []).append((describe(v, m.name), st))
    for e in exprs:
        if e in desc:
            continue
        node = actuals[e][0]
        if isinstance(node, ast.Subscript) or _alloc_call(node) or \
                (isinstance(node, ast.Attribute) and isinstance(node.value, ast.Attribute) and src(node.value.value) == "self"):
            desc[e] = [(describe(node, "step"), node)]     # `self._work[3]`, `self._work.x`, or an array allocated for the call

    def base_fresh(key):
        return key.startswith("alloc@") or (len(allocs.get(key, [])) == 1 and allocs[key][0] is not None)

    def resolve(x, depth=0):
        """follow `self.A = self.B` to the descriptors of B"""
        if x[0] == "alias" and x[1] in desc and depth < 4:
            return [y for (d_, _n) in desc[x[1]] for y in resolve(d_, depth + 1)]
        return [x]

    def relation(a, b):
        """'distinct' / 'same' / None for two expressions"""
        da, db = desc.get(a), desc.get(b)
        if not da or not db:
            return None
        res = "distinct"
        for (x0, sx) in da:
            for (y0, sy) in db:
                if x0[0] == "alias" and x0[1] == b or y0[0] == "alias" and y0[1] == a:
                    return "same"
                for x in resolve(x0):
                    for y in resolve(y0):
                        if x[0] == "fresh" and y[0] == "fresh":
                            if x[1] == y[1]:
                                return "same"          # one allocation bound to both names (chained assignment)
                            continue
                        if x[0] == "view" and y[0] == "view":
                            if x[1] == y[1]:
                                if seqs.get(x[1]) == "repeat" and base_fresh(x[1]):
                                    return "same"      # every entry of `[a] * n` is the one array a
                                if x[2] == y[2]:
                                    return "same"
                                if isinstance(x[2], str) or isinstance(y[2], str):
                                    # entries of a table / fields of a record under different names
                                    if isinstance(x[2], str) and isinstance(y[2], str) and seqs.get(x[1]) == "each" \
                                            and base_fresh(x[1]):
                                        continue
                                    res = None
                                    continue
                                if x[2] >= 0 and y[2] >= 0 and base_fresh(x[1]):
                                    continue
                                res = None
                                continue
                            if base_fresh(x[1]) and base_fresh(y[1]):
                                continue
                            res = None
                            continue
                        if {x[0], y[0]} == {"fresh", "view"}:
                            base = x[1] if x[0] == "view" else y[1]
                            if base_fresh(base):
                                continue
                            res = None
                            continue
                        res = None
        return res

    def why_same(a, b):
        fa, fb = actuals[a][1], actuals[b][1]
        strip = lambda x: x.replace("_k1_", "_k?_").replace("_k2_", "_k?_")      # noqa: E731
        stages = lambda fs: {x[:9] for x in fs if x.startswith("endPts_k")}      # noqa: E731
        if len(actuals[a]) > 2 and all(k_.endswith("_expl") for k_ in actuals[a][2] + actuals[b][2]) \
                and stages(fa) | stages(fb) == {"endPts_k1", "endPts_k2"} and len(stages(fa)) == len(stages(fb)) == 1 \
                and all(x.startswith("endPts") for x in fa + fb):
            return None          # only the explicit kernel receives them: it may not need both end points at once
        if any("endPts" in x and x != y and strip(x) == strip(y) for x in fa for y in fb):
            return (f"{a} and {b} are the same storage: the implicit kernel measures convergence as "
                    "|endPts_k2 - endPts_k1| (new iterate minus old iterate); with shared storage that is always 0, the "
                    "while loop stops after its first pass and the foot is one unconverged iterate instead of the solution "
                    "of the implicit trapezoidal rule")
        return (f"{a} and {b} are the same storage: the kernels keep different quantities in them during one "
                "sweep (drift at the node / at the second point, first- and second-stage end points), one overwrites the other")

    # AUDIT: "same storage" is stated only for: one name assigned from the other; one allocation bound to both (chained
    # assignment); two entries of `[alloc] * n`; the same entry / field of one container.  It matters only between parameters
    # in which the kernel keeps a value at the same time (`dead`, below; the explicit kernel's two end points: undecided).
    for a in exprs:
        node = desc[a][0][1] if a in desc else init
        at = dict(file=U.ADV, func="PoloidalAdvection.__init__" if a in desc and desc[a][0][0][-1] != "step"
                  else "PoloidalAdvection.step")
        rel = {b: relation(a, b) for b in exprs if b != a}
        same = [b for b, r in rel.items() if r == "same"]
        what = f"{a}: storage of its own"
        if same:
            why = why_same(a, same[0])
            # AUDIT: shared storage matters only between parameters in which the kernel keeps a value (see _KERNEL_LIVE)
            dead = [x for x in (a, same[0]) if len(actuals[x]) > 2 and not any(
                f_ in (_KERNEL_LIVE.get(k_) or ()) for f_ in actuals[x][1] for k_ in actuals[x][2])]
            if dead:
                why = None
            chk.ob("E2-work-array-storage", node, what, False if why else None, why or
                   f"{a} and {same[0]} are the same storage and only the explicit kernel receives them, as first- and second-stage "
                   "end points: whether it needs both at once is not decided by this rule", **at)
        elif all(r == "distinct" for r in rel.values()):
            chk.ob("E2-work-array-storage", node, what, True,
                   "allocated separately from (or as a different slice / entry than) the other work arrays", **at)
        else:
            und = [b for b, r in rel.items() if r is None]
            chk.ob("E2-work-array-storage", node, what, None,
                   f"whether {a} shares storage with {und[:3]} is not decided (allocation not recognised)", **at)


# ---------------------------------------------------------------------------------------------------------
# the potential splines kept between calls: the methods that read them and the methods that fill them agree
# ---------------------------------------------------------------------------------------------------------

def _state_root(e):
    """`self.X[...]...` / `self.X.a.b` -> ("self.X", [subscript nodes]) ; None when `e` is not storage of the object"""
    idx = []
    while isinstance(e, (ast.Subscript, ast.Attribute)):
        if isinstance(e, ast.Attribute) and isinstance(e.value, ast.Name) and e.value.id == "self":
            return "self." + e.attr, idx[::-1]
        if isinstance(e, ast.Subscript):
            idx.append(e.slice)
        e = e.value
    return None


def _method_locals(m):
    """names of a method that stand for one expression: bound once (anywhere) to a pure path, or bound once as the
    target of a loop over (a zip / enumerate / reversed of) storage of the object, in which case they stand for an
    entry of that storage.  name -> ("expr", node) | ("entry", "self.X")"""
    stores = {}
    for n in ast.walk(m):
        if isinstance(n, ast.Name) and isinstance(n.ctx, ast.Store):
            stores[n.id] = stores.get(n.id, 0) + 1
    out = {}
    for st in ast.walk(m):
        if isinstance(st, ast.Assign) and len(st.targets) == 1 and isinstance(st.targets[0], ast.Name) \
                and stores.get(st.targets[0].id) == 1 and _pure_path(st.value):
            out[st.targets[0].id] = ("expr", st.value)
        elif isinstance(st, ast.For):
            it = st.iter
            wrapped = isinstance(it, ast.Call) and isinstance(it.func, ast.Name) and it.func.id in ("zip", "enumerate", "reversed")
            srcs = list(it.args) if wrapped else [it]
            tgts = [st.target]
            if wrapped and it.func.id == "enumerate" and isinstance(st.target, ast.Tuple) and len(st.target.elts) == 2:
                tgts = [st.target.elts[1]]
            elif wrapped and it.func.id == "zip" and isinstance(st.target, ast.Tuple) and len(st.target.elts) == len(srcs):
                tgts = list(st.target.elts)
            elif wrapped and it.func.id == "zip":
                continue
            for t, e in zip(tgts, srcs if len(tgts) == len(srcs) else srcs[:1]):
                r = _state_root(e) if not isinstance(e, ast.Attribute) or not (isinstance(e.value, ast.Name) and e.value.id == "self") \
                    else ("self." + e.attr, [])
                if isinstance(t, ast.Name) and stores.get(t.id) == 1 and r is not None:
                    out[t.id] = ("entry", r[0])
    return out


def _storage_of(e, loc, depth=0):
    """storage of the object an expression of a method denotes: ("self.X", subscripts | None) ; None when it is not
    storage of the object (a parameter, a fresh object, ...)"""
    if isinstance(e, ast.Name) and e.id in loc and depth < 5:
        kind, v = loc[e.id]
        if kind == "entry":
            return v, None
        return _storage_of(v, loc, depth + 1)
    if isinstance(e, ast.Subscript) and isinstance(e.value, ast.Name) and e.value.id in loc and depth < 5:
        kind, v = loc[e.value.id]
        if kind == "expr":
            r = _storage_of(v, loc, depth + 1)
            if r is not None:
                return r[0], (list(r[1]) + [e.slice]) if r[1] is not None else None
        return None
    return _state_root(e)


def _index_binding(m, at, idx):
    """how the subscripts of a cache access are bound: for each subscript that is a loop variable, the text of the loop
    header it comes from with the position of the variable in the target; the text of the subscript otherwise"""
    out = []
    for x in idx or []:
        if isinstance(x, ast.Name):
            p_ = parent(at)
            found = None
            while p_ is not None and p_ is not m:
                if isinstance(p_, ast.For):
                    names = [n.id for n in ast.walk(p_.target) if isinstance(n, ast.Name)]
                    if x.id in names:
                        found = f"{src(p_.iter)}#{names.index(x.id)}"
                        break
                p_ = parent(p_)
            out.append(found or f"name {x.id}")
        else:
            out.append(src(x))
    return tuple(out)


def _new_splines(v):
    """the value is a new spline object or a sequence of new spline objects"""
    def ctor(x):
        return isinstance(x, ast.Call) and src(x.func).split(".")[-1] in ("Spline2D", "Spline1D")
    if ctor(v):
        return True
    if isinstance(v, ast.ListComp):
        return ctor(v.elt)
    if isinstance(v, (ast.List, ast.Tuple)):
        return bool(v.elts) and all(ctor(x) for x in v.elts)
    if isinstance(v, ast.BinOp) and isinstance(v.op, ast.Mult):
        return any(isinstance(a_, (ast.List, ast.Tuple)) and a_.elts and all(ctor(x) for x in a_.elts) for a_ in (v.left, v.right))
    return False


def potential_cache_agreement(chk, cls):
    """`gridStep_SplinesUnchanged` advects with 'the potential of the last gridStep': every method that hands storage
    of the object to step() as the potential WITHOUT computing it itself reads what another method left there.  Readers
    and writers are extracted from the methods as they are written (whatever the storage is called and however it is
    indexed) and compared with each other: the storage read must be storage that a method fills with an interpolated
    potential, entry for entry."""
    methods = [st for st in cls.body if isinstance(st, ast.FunctionDef)]
    step = next((m for m in methods if m.name == "step"), None)
    if step is None:
        return
    sformals = [a.arg for a in step.args.args][1:]
    if "phi" not in sformals:
        chk.ob("E3-potential-cache-agreement", step, "step(f, dt, phi, v)", None,
               "step() has no parameter `phi` any more: which argument is the potential is not decided",
               file=U.ADV, func="PoloidalAdvection.step")
        return
    reads, writes, hand_off = [], [], []          # (method, root, idx, node)
    for m in methods:
        if m.name == "step":
            continue
        loc = _method_locals(m)
        for c in [n for n in ast.walk(m) if isinstance(n, ast.Call)]:
            fsrc = src(c.func)
            if fsrc == "self.step":
                b = agree.bind_call(c, sformals)
                if b is None or "phi" not in b:
                    if any(isinstance(a, ast.Starred) for a in c.args) or any(k.arg is None for k in c.keywords):
                        hand_off.append((m, None, None, c))
                    continue
                r = _storage_of(b["phi"], loc)
                if r is not None:
                    reads.append((m, r[0], r[1], c))
                continue
            if isinstance(c.func, ast.Attribute) and c.func.attr == "compute_interpolant":
                b = agree.bind_call(c, ["data", "spline"])
                dest = b.get("spline") if b else None
                r = _storage_of(dest, loc) if dest is not None else None
                if r is not None:
                    writes.append((m, r[0], r[1], c))
                    continue
                if b is not None and dest is not None:
                    continue
                # destination not bound (`*args` / keywords the binder does not follow): treated like any other hand-off
            # storage of the object handed to anything else may be filled there
            for a in list(c.args) + [k.value for k in c.keywords]:
                a = a.value if isinstance(a, ast.Starred) else a
                r = _storage_of(a, loc) if isinstance(a, (ast.Name, ast.Subscript, ast.Attribute)) else None
                if r is not None:
                    hand_off.append((m, r[0], r[1], c))
        if m.name != "__init__":
            for n in ast.walk(m):
                if isinstance(n, (ast.Subscript, ast.Attribute)) and isinstance(n.ctx, ast.Store):
                    r = _storage_of(n, loc)
                    if r is not None:
                        hand_off.append((m, r[0], r[1], n))
    seen = set()
    for m, root, idx, c in reads:
        if any(w[0] is m and w[1] == root for w in writes):
            continue                       # the method computes the potential it uses: nothing is carried between calls
        if (m.name, root) in seen:
            continue
        seen.add((m.name, root))
        what = f"{m.name}: potential read from {root}{'[...]' if idx or idx is None else ''} is the one a gridStep left there"
        where = dict(file=U.ADV, func=f"PoloidalAdvection.{m.name}")
        ws = [w for w in writes if w[1] == root]
        if ws:
            rb = _index_binding(m, c, idx) if idx is not None else None
            agree_w = [w for w in ws if w[2] is not None and rb is not None and _index_binding(w[0], w[3], w[2]) == rb]
            if agree_w:
                w = agree_w[0]
                chk.ob("E3-potential-cache-agreement", c, what, True,
                       f"{w[0].name} interpolates the potential into `{src(agree_w[0][3].args[-1]) if agree_w[0][3].args else root}` "
                       f"over {list(rb)} and {m.name} reads the same entries", **where)
            elif rb is not None and rb and all("#" in x for x in rb) and any(
                    w[2] is not None and len(w[2]) == len(rb) and all("#" in x for x in _index_binding(w[0], w[3], w[2])) for w in ws):
                w = next(w for w in ws if w[2] is not None and len(w[2]) == len(rb))
                chk.ob("E3-potential-cache-agreement", c, what, True,
                       f"{w[0].name} interpolates the potential into {root}[...] in a loop over {list(_index_binding(w[0], w[3], w[2]))} "
                       f"and {m.name} reads {root}[...] in a loop over {list(rb)}: both are filled / read entry by entry (that the "
                       "two loop variables index the same space is the subject of rule C-cache-index-space)", **where)
            else:
                w = ws[0]
                chk.ob("E3-potential-cache-agreement", c, what, None,
                       f"{w[0].name} fills {root} over {list(_index_binding(w[0], w[3], w[2])) if w[2] is not None else '?'} and "
                       f"{m.name} reads it over {list(rb) if rb is not None else '?'}: that every entry read has been filled is "
                       "not decided", **where)
            continue
        maybe = sorted({h[0].name for h in hand_off if h[1] == root or h[1] is None})
        if maybe:
            chk.ob("E3-potential-cache-agreement", c, what, None,
                   f"no method interpolates a potential into {root} directly; it is modified or handed on in {maybe}: whether it "
                   "holds the potential of the last gridStep is not decided", **where)
            continue
        created = [st for mm in methods if mm.name == "__init__" for st in ast.walk(mm) if isinstance(st, ast.Assign)
                   and any(src(t) == root for t in st.targets)]
        empty = len(created) == 1 and _new_splines(created[0].value)
        if not empty:
            chk.ob("E3-potential-cache-agreement", c, what, None,
                   f"no method interpolates a potential into {root}, and the constructor does not create it as new (empty) "
                   "spline objects: what it holds is not decided", **where)
            continue
        others = sorted({f"{w[1]} (in {w[0].name})" for w in writes if w[0].name != "__init__"
                         and any(r_[0] is w[0] and r_[1] == w[1] for r_ in reads)})
        # AUDIT: "no method ever interpolates a potential into <root>" is established for the methods written in this class
        # body.  It is true of the program only if the storage cannot be filled from elsewhere: (1) the class has no base
        # class / decorator (inherited or generated methods are not examined), (2) no code of the module outside the class
        # reaches the attribute through another receiver (`adv._phiSplines[...]`), (3) the attribute is not a property or
        # class-level descriptor, (4) no method uses getattr/setattr/vars/__dict__.
        attr_ = root[5:]
        in_cls = {id(n) for n in ast.walk(cls)}
        outside = [n for n in ast.walk(parent(cls) or cls) if isinstance(n, ast.Attribute) and n.attr == attr_ and id(n) not in in_cls]
        descriptor = any(isinstance(st, ast.FunctionDef) and st.name == attr_ for st in cls.body) or any(
            isinstance(st, (ast.Assign, ast.AnnAssign)) and any(src(t) == attr_ for t in (
                st.targets if isinstance(st, ast.Assign) else [st.target])) for st in cls.body)
        dynamic = any(isinstance(n, ast.Call) and src(n.func) in ("getattr", "setattr", "vars") for n in ast.walk(cls)) or any(
            isinstance(n, ast.Attribute) and n.attr == "__dict__" for n in ast.walk(cls))
        if cls.bases or cls.decorator_list or outside or descriptor or dynamic:
            chk.ob("E3-potential-cache-agreement", c, what, None,
                   f"no method written in the class body interpolates a potential into {root}, but the class has base classes / "
                   "decorators, or the attribute is reached from outside the class, is a descriptor, or attributes are "
                   "accessed dynamically: whether it is filled elsewhere is not decided", **where)
            continue
        chk.ob("E3-potential-cache-agreement", c, what, False,
               f"{m.name} hands `{src(agree.bind_call(c, sformals)['phi'])}` to step() as the potential without computing it, and "
               f"no method of the class ever interpolates a potential into {root}"
               + (f" (the potential given to gridStep is interpolated into {', '.join(others)} instead, which {m.name} does not read)"
                  if others else "")
               + f": {root} keeps the coefficients of the new spline objects of `{src(created[0])[:80]}`, so after "
               f"gridStep(grid, phi, dt) a call of {m.name} does not trace the characteristics of that phi (coefficients still "
               "zero: no drift at all, f is left unchanged)", **where)


# ---------------------------------------------------------------------------------------------------------
# "one step REPLACES f": the array the kernel writes is the array the caller of step() handed in
# ---------------------------------------------------------------------------------------------------------

# numpy forms whose result is ALWAYS new storage (keyword `copy=False` excepted, see _copy_kind)
_COPY_ALWAYS = {"copy": "always a copy", "array": "numpy.array copies by default", "astype": "astype copies by default",
                "flatten": "always a copy", "asfortranarray": "a copy of every array that is not Fortran-contiguous (every "
                "C-ordered two-dimensional block)"}
# forms whose result is the argument itself for some inputs and new storage for the others
_COPY_SOMETIMES = {
    "ascontiguousarray": "the argument itself only when it already is a C-contiguous array of the requested dtype, a copy "
                         "for every other memory layout (transposed view, slice of a padded or differently ordered block, "
                         "Fortran order) or dtype",
    "require": "the argument itself only when it already satisfies the requirements, a copy otherwise",
}       # (`reshape` to the same shape is always a view, `ravel` is no argument for a two-dimensional kernel: not modelled)
# forms that return the argument itself (an ndarray) when no dtype / order is requested
_IDENTITY_IF_BARE = ("asarray", "asanyarray")


def _copy_kind(v, root):
    """how the value expression `v` relates to the array named `root`:
      ("same", None)       the array itself (the name, `asarray(root)` without dtype/order)
      ("always", why)      new storage holding a copy of root's values whatever root is
      ("sometimes", why)   root itself for some memory layouts / dtypes, a copy for the others
      (None, None)         not one of the modelled forms (a view, an unrelated value, ...)"""
    if isinstance(v, ast.Name):
        return ("same", None) if v.id == root else (None, None)
    if isinstance(v, ast.BinOp):
        if any(isinstance(x, ast.Name) and x.id == root for x in (v.left, v.right)):
            return "always", "an arithmetic expression creates a new array"
        return None, None
    if not isinstance(v, ast.Call):
        return None, None
    fname = v.func.attr if isinstance(v.func, ast.Attribute) else v.func.id if isinstance(v.func, ast.Name) else None
    if fname is None or any(isinstance(a, ast.Starred) for a in v.args) or any(k.arg is None for k in v.keywords):
        return None, None
    recv_is_root = isinstance(v.func, ast.Attribute) and isinstance(v.func.value, ast.Name) and v.func.value.id == root
    arg_is_root = bool(v.args) and isinstance(v.args[0], ast.Name) and v.args[0].id == root and \
        (isinstance(v.func, ast.Name) or (isinstance(v.func, ast.Attribute) and src(v.func.value) in ("np", "numpy")))
    if not (recv_is_root or arg_is_root):
        return None, None
    kws = {k.arg: k.value for k in v.keywords}
    if "copy" in kws:                 # copy=False / copy=None: "only if needed" -> not decided here
        return None, None
    extra = len(v.args) - (1 if arg_is_root else 0) + len(kws)
    if fname in _IDENTITY_IF_BARE and arg_is_root:
        if extra == 0:
            return "same", None
        return "sometimes", (f"numpy.{fname} with a dtype / order returns the argument itself only when it already has them, a "
                             "converted copy otherwise")
    if fname in _COPY_ALWAYS and _COPY_ALWAYS[fname]:
        return "always", _COPY_ALWAYS[fname]
    if fname in _COPY_SOMETIMES:
        return "sometimes", _COPY_SOMETIMES[fname]
    return None, None


def _stores_of(fn, name):
    """statements of `fn` that (re)bind the local name `name` -> [(statement, value node or None)]"""
    out = []
    for st in ast.walk(fn):
        if isinstance(st, ast.Assign):
            for t in st.targets:
                if isinstance(t, ast.Name) and t.id == name:
                    out.append((st, st.value))
                elif isinstance(t, (ast.Tuple, ast.List)) and any(isinstance(x, ast.Name) and x.id == name for x in ast.walk(t)):
                    out.append((st, None))
        elif isinstance(st, (ast.AugAssign, ast.AnnAssign)) and isinstance(st.target, ast.Name) and st.target.id == name:
            out.append((st, st.value if isinstance(st, ast.AnnAssign) else None))
        elif isinstance(st, ast.NamedExpr) and st.target.id == name:
            out.append((st, st.value))
        elif isinstance(st, (ast.For, ast.comprehension)) and any(
                isinstance(x, ast.Name) and x.id == name for x in ast.walk(st.target)):
            out.append((st, None))
        elif isinstance(st, ast.With) and any(i.optional_vars is not None and any(
                isinstance(x, ast.Name) and x.id == name for x in ast.walk(i.optional_vars)) for i in st.items):
            out.append((st, None))
    return out


def _writes_back(fn, after_line, into, values_of):
    """a statement after line `after_line` that may copy the array named `values_of` into storage reached through one of
    the names `into` (`X[...] = v`, `np.copyto(X, v)`, `X[...] = <anything mentioning v>`)"""
    for st in ast.walk(fn):
        if getattr(st, "lineno", 0) <= after_line:
            continue
        if isinstance(st, (ast.Assign, ast.AugAssign)):
            tg = st.targets if isinstance(st, ast.Assign) else [st.target]
            for t in tg:
                if isinstance(t, ast.Subscript) and any(isinstance(x, ast.Name) and x.id in into for x in ast.walk(t.value)) \
                        and any(isinstance(x, ast.Name) and x.id == values_of for x in ast.walk(st.value)):
                    return st
        if isinstance(st, ast.Call) and src(st.func).split(".")[-1] in ("copyto", "put", "place", "putmask") and st.args \
                and any(isinstance(x, ast.Name) and x.id in into for x in ast.walk(st.args[0])):
            return st
    return None


def result_in_place(chk, cls, fn, bound, aliases, where):
    """E2-result-in-place: `step(f, ...)` documents "the result will be stored here" and gridStep relies on it (it hands
    a view of the distribution's block to step() and drops the reference).  The array bound to the kernel's output
    parameter `f` must therefore be the very array object the caller passed - or, if step() works on another array, its
    content must be copied back into the caller's array after the kernel call.
    VIOLATED only when ALL of this is established: (1) the actual of the kernel's `f` is a local name of step(); (2) every
    binding of that name is found (each one a plain assignment, no tuple / loop / with / augmented binding); (3) a binding
    whose value is one of the modelled numpy forms that return new storage for every array (`copy`, `array`, `astype`,
    arithmetic) or for some memory layouts / dtypes (`ascontiguousarray`, `asarray(.., dtype)`, `require`)
    of the caller's array stands unconditionally at the top level of step() before the kernel call; (4) no statement after
    the kernel call stores into (or copies to) the caller's array; (5) the kernel call is the last use of the copy.
    Anything else that rebinds the name is UNDECIDED."""
    params = [a.arg for a in fn.args.args][1:]
    for kname, c0, c, formals, b in bound:
        if "f" not in b:
            continue
        a = b["f"]
        what = f"{kname}: f <- {src(a)} is the caller's array"
        if not isinstance(a, ast.Name):
            chk.ob("E2-result-in-place", c0, what, None,
                   f"the output parameter `f` receives the expression `{src(a)}`: whether the kernel writes into the storage of the "
                   "array handed to step() is not decided", **where)
            continue
        nm = a.id
        stores = _stores_of(fn, nm)
        if nm in params and not stores:
            chk.ob("E2-result-in-place", c0, what, True,
                   f"`{nm}` is the parameter of step(), never rebound in it: the kernel writes into the caller's array", **where)
            continue
        # the caller's array: the parameter `nm` itself (rebound later) or the parameter the local was computed from
        verdict, why = None, None
        top = {id(st) for st in fn.body}
        known_same = nm in params
        origin = nm if nm in params else None
        copies = []
        for st, v in stores:
            if v is None or not isinstance(st, ast.Assign) or len(st.targets) != 1:
                verdict, why = "und", f"`{src(st)[:60]}` binds `{nm}` in a way that is not followed"
                break
            kind, kw = (None, None)
            for p in ([nm] if nm in params else params):
                kind, kw = _copy_kind(v, p)
                if kind is not None:
                    if origin is None or nm not in params:
                        origin = p
                    break
            if kind is None:
                verdict, why = "und", (f"`{src(st)[:70]}` binds `{nm}` to a value whose relation to the array handed to step() is "
                                        "not one of the modelled forms (a view? another array?)")
                break
            if kind == "same":
                continue
            if id(st) not in top or st.lineno >= c0.lineno:
                verdict, why = "und", (f"`{src(st)[:70]}` may rebind `{nm}` to a copy, but not unconditionally before the kernel "
                                        "call: which inputs reach it is not decided")
                break
            copies.append((st, kind, kw))
        if verdict is None and not copies:
            if known_same or origin is not None:
                chk.ob("E2-result-in-place", c0, what, True,
                       f"every binding of `{nm}` in step() denotes the array handed in by the caller itself", **where)
            else:
                chk.ob("E2-result-in-place", c0, what, None, f"what `{nm}` denotes is not decided", **where)
            continue
        if verdict is None:
            st, kind, kw = copies[0]
            # names through which the caller's array is still reachable after the rebinding: the parameter itself when the
            # copy has a name of its own, and every name that an earlier plain assignment binds to the parameter
            into = set() if nm in params else {origin}
            for x in ast.walk(fn):
                if isinstance(x, ast.Assign) and isinstance(x.value, ast.Name) and x.value.id == origin and x.lineno < st.lineno:
                    into |= {t.id for t in x.targets if isinstance(t, ast.Name)}
            back = _writes_back(fn, c0.lineno, into, nm) if into else None
            in_kernel_calls = {id(x) for _k, cc, _c, _f, _b in bound for x in ast.walk(cc)}
            later_use = [x for x in ast.walk(fn) if isinstance(x, ast.Name) and x.id == nm and isinstance(x.ctx, ast.Load)
                         and x.lineno > getattr(c0, "end_lineno", c0.lineno) and id(x) not in in_kernel_calls]
            returned = any(isinstance(x, ast.Return) and x.value is not None for x in ast.walk(fn))
            if back is not None:
                chk.ob("E2-result-in-place", c0, what, None,
                       f"the kernel works on `{src(st)[:60]}` and `{src(back)[:60]}` may copy the result back: not decided", **where)
                continue
            if later_use or returned:
                chk.ob("E2-result-in-place", c0, what, None,
                       f"the kernel works on `{src(st)[:60]}`, which is used again after the kernel call (or step() returns a "
                       "value): whether the result reaches the caller's array is not decided", **where)
                continue
            chk.ob("E2-result-in-place", st, what, False,
                   f"`{src(st)[:80]}` rebinds `{nm}` before the kernel call, and numpy gives back "
                   + ("new storage: " + kw if kind == "always" else kw)
                   + f". The kernel then writes the advected values into that copy; nothing copies them back into the array "
                   f"the caller handed to step() (no store into `{origin}` after the call, the copy is not used again, step() "
                   "returns nothing), so "
                   + ("the caller's array is never updated: the step does not replace f" if kind == "always" else
                      "for every such argument (e.g. a transposed view, a slice `buf[:, :nr]` of a padded buffer, a Fortran-"
                      "ordered or non-float64 array of shape (ntheta, nr)) the caller's array is left untouched: the step does "
                      "not replace f, while a C-contiguous float64 argument still works"), **where)
            continue
        chk.ob("E2-result-in-place", c0, what, None, why, **where)
    # the callers of step() inside the class: a temporary that is always a copy is advected and dropped
    sformals = [a.arg for a in fn.args.args][1:]
    for m in [st for st in cls.body if isinstance(st, ast.FunctionDef) and st is not fn]:
        for c in [n for n in ast.walk(m) if isinstance(n, ast.Call) and src(n.func) == "self.step"]:
            # AUDIT: which actual is `f` is established by bind_status on the definition of step() (all actuals written out,
            # complete signature); a binding that is not followed is UNDECIDED, a misfit is not this rule's subject
            status_, bb, bwhy_ = agree.bind_status(c, sformals, fn)
            if status_ == "unknown":
                chk.ob("E2-result-in-place", c, f"{m.name}: {src(c)[:60]}", None,
                       f"which argument of this call is the distribution handed to step() is not established: {bwhy_}",
                       file=U.ADV, func=f"PoloidalAdvection.{m.name}")
                continue
            if bb is None or "f" not in bb or not isinstance(bb["f"], ast.Call):
                continue
            v = bb["f"]
            fname = v.func.attr if isinstance(v.func, ast.Attribute) else getattr(v.func, "id", None)
            kws = {k.arg for k in v.keywords}
            if fname in ("copy", "array", "astype", "flatten") and "copy" not in kws and None not in kws and \
                    (fname != "array" or (len(v.args) == 1 and isinstance(v.args[0], (ast.Call, ast.Name, ast.Subscript, ast.Attribute)))):
                # assumptions: `.copy()` / `.astype(t)` / `np.array(x)` of an array is new storage (numpy semantics); the value
                # is an argument expression, so no name keeps it after the call
                chk.ob("E2-result-in-place", c, f"{m.name}: self.step({src(v)[:50]}, ...)", False,
                       f"{m.name} hands `{src(v)[:80]}` to step(): a temporary copy ({_COPY_ALWAYS.get(fname)}) is advected and "
                       "dropped when the call returns, the slice of the distribution it was copied from is never updated",
                       file=U.ADV, func=f"PoloidalAdvection.{m.name}")


def _same_object_in_ctor(cls, a, b):
    """some assignment of the class binds the two attribute paths to one object (`self.A = self.B`, `self.A = self.B = X`)"""
    for st in ast.walk(cls):
        if isinstance(st, ast.Assign):
            names = {src(t) for t in st.targets} | {src(st.value)}
            if a in names and b in names:
                return True
    return False


def call_site_roles(chk):
    """E-roles at the two kernel calls of PoloidalAdvection.step.  The roles of the attributes handed to the kernels are
    read off the class itself (which grid axis, which constructor argument, which spline the distribution was
    interpolated into, which scratch storage) and compared with the parameters they are bound to."""
    import copy
    mod = chk.mod(U.ADV)
    kmod = chk.mod(U.ADVK)
    cls = mod.cls("PoloidalAdvection")
    fn = chk.func(U.ADV, "PoloidalAdvection.step")
    init = chk.func(U.ADV, "PoloidalAdvection.__init__")
    where = dict(file=U.ADV, func="PoloidalAdvection.step")
    potential_cache_agreement(chk, cls)
    aliases = local_aliases(fn)
    kwtables = local_kwtables(fn)
    axes = grid_axes(init)
    # AUDIT: an attribute denotes the axis the constructor selected only while nothing else in the class rebinds it
    cls_stores = {}
    for n in ast.walk(cls):
        if isinstance(n, ast.Attribute) and isinstance(n.ctx, ast.Store) and src(n.value) == "self":
            cls_stores[n.attr] = cls_stores.get(n.attr, 0) + 1
    axes = {k_: v_ for k_, v_ in axes.items() if cls_stores.get(k_[5:], 0) == 1}
    if "eta_vals" not in [a_.arg for a_ in init.args.args]:
        axes = {}
    prov = ctor_provenance(cls)
    const_recv = next((a_ for a_, p_ in prov.items() if p_ == "constants"), "self._constants")
    kernel_calls, bound = [], []
    knames = ("poloidal_advection_step_expl", "poloidal_advection_step_impl")
    sites = selected_kernel_calls(fn, knames)
    stores_ = {}
    for n in ast.walk(fn):
        if isinstance(n, ast.Name) and isinstance(n.ctx, ast.Store):
            stores_[n.id] = stores_.get(n.id, 0) + 1
    for kn_, c_, _ab in sites:
        if kn_ is None:
            kernel_calls.append(c_)
            chk.ob("E2-arity", c_, f"{src(c_.func)}(...)", None,
                   f"`{src(c_.func)}` is bound to a kernel somewhere in step(), but not by an if/else (with else) at the top of "
                   "the function whose every arm binds it: which kernel this call reaches is not decided", **where)
    for kname in knames:
        calls = [(c, ab) for kn_, c, ab in sites if kn_ == kname]
        if len(calls) != 1:
            chk.ob("E2-arity", fn, f"{kname}(...)", None,
                   f"{len(calls)} calls of {kname} in PoloidalAdvection.step (one expected): not decided", **where)
            kernel_calls += [c for c, _ab in calls]
            continue
        c0, arm = calls[0]
        kernel_calls.append(c0)
        kfn = kmod.func(kname)
        formals = [a.arg for a in kfn.args.args]
        general = {"poloidal_advection_step_expl": EXPL, "poloidal_advection_step_impl": IMPL}.get(kname)
        try:
            _KERNEL_LIVE[kname] = _consumed_arrays(kmod.func(general))
        except Exception:
            _KERNEL_LIVE[kname] = None
        if kfn.args.vararg or kfn.args.kwarg or kfn.args.kwonlyargs or getattr(kfn.args, "posonlyargs", None):
            # AUDIT: the arity / role rules bind actuals to the plain positional-or-keyword parameters of the wrapper
            chk.ob("E2-arity", c0, f"{kname}(...)", None,
                   f"{kname} has *args / **kwargs / keyword-only / positional-only parameters: the binding of the actuals is "
                   "not decided", **where)
            continue
        defaulted = set(formals[len(formals) - len(kfn.args.defaults):]) if kfn.args.defaults else set()
        # bindings made on the arm that selected this kernel: keyword tables and aliases of that case
        al2, kt2 = dict(aliases), dict(kwtables)
        for nm_, v_ in arm.items():
            if isinstance(v_, ast.Dict) or (isinstance(v_, ast.Call) and src(v_.func) == "dict"):
                items = _kw_items(v_, kt2)
                if items is not None and all(_kw_value_ok(val, stores_) for _k, val in items) and _only_unpacked(fn, nm_):
                    kt2[nm_] = items
            elif _pure_path(v_) and not any(stores_.get(x.id, 0) > 1 for x in ast.walk(v_) if isinstance(x, ast.Name)):
                al2[nm_] = v_
        c = resolved_call(splice_property_tuples(fn, c0), al2, kt2)
        if c0.func.id != kname:
            c.func = ast.copy_location(ast.Name(id=kname, ctx=ast.Load()), c0.func)
        if any(isinstance(a, ast.Starred) for a in c.args) or any(k.arg is None for k in c.keywords):
            chk.ob("E2-arity", c0, f"{kname}(...)", None,
                   "the argument list unpacks a sequence / keyword table that is not a local tuple / an unmodified local "
                   "`dict(...)` of step(): binding not decided", **where)
            continue
        # AUDIT (VIOLATED "raises TypeError"): (1) every actual is written out (checked above), (2) `formals` is the complete
        # signature of the wrapper: no *args / **kwargs / keyword-only / positional-only parameters (checked above) and no
        # decorator that may replace the signature - both established by agree.bind_status on the wrapper's definition;
        # 'unknown' is UNDECIDED under the same rule
        status, b, bwhy = agree.bind_status(c, formals, kfn)
        if status == "unknown":
            chk.ob("E2-arity", c0, f"{kname}(...)", None, f"binding of the actuals not established: {bwhy}", **where)
            continue
        if status == "misfit":
            chk.ob("E2-arity", c0, f"{kname}(...)", False,
                   f"argument list does not fit the signature ({len(c.args)} positional, keywords "
                   f"{[k.arg for k in c.keywords]} for {len(formals)} parameters; {bwhy}): the call raises TypeError", **where)
            continue
        # AUDIT: a parameter without an actual raises TypeError only if the wrapper declares no default for it
        missing = [f for f in formals if f not in b and f not in defaulted]
        dflt = [f for f in formals if f not in b and f in defaulted]
        chk.ob("E2-arity", c0, f"{kname}(...)", (None if dflt else True) if not missing else False,
               ("every parameter of the kernel receives exactly one argument" if not dflt else
                f"parameters {dflt} receive no argument and take the default of the wrapper's signature: whether that is the "
                "value the advection object was configured with is not decided") if not missing else
               f"parameters {missing} receive no argument and have no default: the call raises TypeError", **where)
        bound.append((kname, c0, c, formals, b))
    result_in_place(chk, cls, fn, bound, aliases, where)
    scheme_selection(chk, cls, fn, init, sites, knames, aliases, where)
    # ---- scratch storage: the expressions bound to the work parameters, whatever they are
    work_actuals = {}
    for kname, c0, c, formals, b in bound:
        for f in WORK:
            if f in b:
                work_actuals.setdefault(src(b[f]), (b[f], [], []))[1].append(f)
                work_actuals[src(b[f])][2].append(kname)
    # the spline object whose parts the call sites read as the spline of the distribution
    recvs = []
    for kname, c0, c, formals, b in bound:
        for f, part in (("coeffsPol", ".coeffs"), ("kts1Pol", ".basis[0].knots"), ("kts2Pol", ".basis[1].knots"),
                        ("deg1Pol", ".basis[0].degree"), ("deg2Pol", ".basis[1].degree")):
            if f in b and src(b[f]).endswith(part) and not src(b[f]).startswith("phi."):
                recvs.append(src(b[f])[:-len(part)])
    pol_recv = max(set(recvs), key=recvs.count) if recvs else "self._spline"
    table = dict(STEP_ROLES)
    table.update(pol_roles(pol_recv))
    for a_, p_ in prov.items():
        if p_ in CTOR_PARAM_ROLES:
            table[a_] = CTOR_PARAM_ROLES[p_]
    # an expression that has a known role elsewhere is not scratch storage even when it is bound to a work parameter
    work_actuals = {e: v for e, v in work_actuals.items() if e not in table and not e.startswith(const_recv + ".")
                    and axis_of(v[0], axes) is None}
    if work_actuals:
        work_array_storage(chk, cls, work_actuals)
    for kname, c0, c, formals, b in bound:
        # ---- grid axes: the actuals of rPts / qPts are the r / theta points
        got_axes = {f: axis_of(b[f], axes) for f in ("rPts", "qPts") if f in b}
        what = f"{kname}: rPts <- r points, qPts <- theta points"
        if len(got_axes) == 2 and all(v is not None for v in got_axes.values()):
            ar, aq = got_axes["rPts"][0], got_axes["qPts"][0]
            defs = sorted({f"`{src(v[1])}`" for v in got_axes.values()})
            # AUDIT: the axis of an attribute is computed from the constructor's own selection out of its parameter `eta_vals`,
            # documented as the coordinates in the order (r, theta, z, v); the attribute is bound exactly once in the whole
            # class; the formals rPts / qPts are the r / theta points of the kernels by the kernels' own use of them (F1 rules)
            if (ar, aq) == ("r", "theta"):
                chk.ob("E2-point-order", c0, what, True,
                       f"{' and '.join(defs)}: `{src(b['rPts'])}` is the r axis and `{src(b['qPts'])}` the theta axis", **where)
            else:
                chk.ob("E2-point-order", c0, what, False,
                       f"the constructor has {' and '.join(defs)}, so `{src(b['rPts'])}` is the {ar} axis and `{src(b['qPts'])}` "
                       f"the {aq} axis of eta_vals = (r, theta, z, v), while step() binds them to rPts and qPts: the two grid "
                       "axes are exchanged (or wrong) in the whole advection", **where)
        else:
            und = [f"{f} <- {src(b[f])}" for f, v in got_axes.items() if v is None] + [f for f in ("rPts", "qPts") if f not in b]
            chk.ob("E2-point-order", c0, what, None,
                   f"which grid axis {und} denotes is not determined from the constructor: not decided", **where)
        known = set(table) | {src(b[f]) for f in got_axes if got_axes[f] is not None}
        for f, a in b.items():
            s_ = src(a)
            if f in ("rPts", "qPts") and got_axes.get(f) is not None:
                continue
            if axis_of(a, axes) is not None:
                # AUDIT: an axis bound to a parameter that is not a point array is an error only while the wrapper still has
                # its point parameters under the names rPts / qPts (otherwise `f` may BE the renamed point parameter)
                chk.ob("E2-argument-role", c0, f"{kname}: {f} <- {s_}", False if {"rPts", "qPts"} <= set(formals) else None,
                       f"`{s_}` is the {axis_of(a, axes)[0]} axis of the grid and is bound to parameter `{f}`", **where)
                continue
            general = {"poloidal_advection_step_expl": EXPL, "poloidal_advection_step_impl": IMPL}.get(kname)
            if Symbol(f, real=True) in _SCALAR_SUBST.get(general, {}):
                chk.ob("E2-argument-role", c0, f"{kname}: {f} <- {s_}", True,
                       f"the actual is the expression {_SCALAR_SUBST[general][Symbol(f, real=True)]} of the quantities of step(): the "
                       "kernel formulas are compared with the specification with this value substituted for the parameter "
                       "(rules F1-*)", **where)
                continue
            if not (s_.startswith(const_recv + ".") or s_ in table or s_ in work_actuals):
                chk.ob("E2-argument-role", c0, f"{kname}: {f} <- {s_}", None,
                       f"the role of the actual `{s_}` is not known: whether it is the right argument for `{f}` is not decided",
                       **where)
        work_roles_at_call(chk, c0, kname, b, set(work_actuals), known | {s_ for s_ in map(src, b.values())
                                                                       if s_.startswith(const_recv + ".")}, where)
        # AUDIT: the role table names roles by the parameter names of today's wrapper ("kts1Phi", "CN0", ...).  "`x` has role R
        # and binds parameter P: wrong position" is true only while R is itself a parameter of the wrapper (then P != R means
        # two arguments were exchanged); when the wrapper no longer has a parameter R its parameters were renamed and the
        # table says nothing -> those entries are left out and reported as undecided.
        lower = {f_.lower() for f_ in formals}
        table_k = {e_: r_ for e_, r_ in table.items() if r_ in formals}
        gone = sorted({r_ for f_, a_ in b.items() for e_, r_ in table.items() if src(a_) == e_ and r_ not in formals})
        consts_gone = sorted({src(a_) for a_ in b.values() if src(a_).startswith(const_recv + ".")
                              and src(a_)[len(const_recv) + 1:].lower() not in lower})
        if gone or consts_gone:
            chk.ob("E2-argument-role", c0, f"{kname}: roles of {gone + consts_gone}", None,
                   f"the wrapper {kname} has no parameter named {gone + consts_gone} any more (parameters renamed?): the role "
                   "table of this rule does not apply to them, not decided", **where)
        agree.check_roles(chk, U.ADV, "PoloidalAdvection.step", c, formals, table_k,
                          const_recv=None if consts_gone else const_recv)
        # potential bases from the potential spline, distribution bases from the interpolated distribution
        phi_f = [f for f in b if f.endswith("Phi")]
        pol_f = [f for f in b if f.endswith("Pol")]
        crossed = [f"{f} <- {src(b[f])}" for f in phi_f if src(b[f]).startswith(pol_recv + ".")] + \
                  [f"{f} <- {src(b[f])}" for f in pol_f if src(b[f]).startswith("phi.")]
        okb = len(phi_f) == 5 and len(pol_f) == 5 and all(src(b[f]).startswith("phi.") for f in phi_f) and \
            all(src(b[f]).startswith(pol_recv + ".") for f in pol_f) and pol_recv != "phi"
        # AUDIT: VIOLATED only for a recognised crossing: a parameter named *Phi receives a part of the object the *Pol
        # parameters are (mostly) read from, or a *Pol parameter a part of step()'s parameter `phi` - provided `phi` still is
        # a parameter of step() that is not rebound (otherwise undecided)
        phi_intact = "phi" in [a_.arg for a_ in fn.args.args] and not _stores_of(fn, "phi")
        if crossed and not phi_intact:
            crossed = []
        chk.pat("E2-basis-sources", c0, f"{kname}: phi* <- phi, pol* <- {pol_recv}", okb,
                "potential knots/degrees/coefficients come from the potential spline, those of the distribution from the "
                "spline interpolated from f",
                ("the spline of the potential and the spline of the distribution are exchanged or mixed (" + "; ".join(crossed) +
                 "): the drift is computed from the wrong function / the wrong function is evaluated at the foot") if crossed else None,
                **where)
    # the distribution is interpolated, before the kernel is called, into the spline the kernel evaluates
    interp = [c for c in ast.walk(fn) if isinstance(c, ast.Call) and isinstance(c.func, ast.Attribute) and
              c.func.attr == "compute_interpolant"]
    what = f"self._interpolator.compute_interpolant(f, {pol_recv}) before the kernel call"
    first_kernel = min((c.lineno for c in kernel_calls), default=None)
    sub = _Subst(aliases)
    if first_kernel is None:
        chk.ob("E2-interpolate-before-evaluate", fn, what, None, "no kernel call found: not decided", **where)
    elif not interp:
        # AUDIT: "step() does not interpolate f" means the spline the kernel evaluates is stale only if nobody else computes
        # it: (1) step() hands f / the spline to no other call than the kernels (a helper method may interpolate), and (2)
        # the callers of step() in the class do not interpolate into that spline before they call it (the responsibility may
        # have moved to them).  Otherwise UNDECIDED.
        kernel_ids = {id(x) for x in kernel_calls}
        helpers = [src(c_.func) for c_ in ast.walk(fn) if isinstance(c_, ast.Call) and id(c_) not in kernel_ids and any(
            (isinstance(x, ast.Name) and x.id == "f") or src(x) == pol_recv
            for a_ in list(c_.args) + [k_.value for k_ in c_.keywords] for x in ast.walk(a_))]
        helpers += [src(c_.func) for c_ in ast.walk(fn) if isinstance(c_, ast.Call) and isinstance(c_.func, ast.Attribute)
                    and src(c_.func.value) == "self" and id(c_) not in kernel_ids]
        callers_interp = []
        for m_ in [st for st in cls.body if isinstance(st, ast.FunctionDef) and st is not fn]:
            if any(isinstance(x, ast.Call) and src(x.func) == "self.step" for x in ast.walk(m_)) and any(
                    isinstance(x, ast.Call) and isinstance(x.func, ast.Attribute) and x.func.attr == "compute_interpolant"
                    and any(src(a_) == pol_recv for a_ in list(x.args) + [k_.value for k_ in x.keywords]) for x in ast.walk(m_)):
                callers_interp.append(m_.name)
        if helpers or callers_interp or cls.bases:
            chk.ob("E2-interpolate-before-evaluate", fn, what, None,
                   "step() itself does not call compute_interpolant, but "
                   + (f"hands f / {pol_recv} to {sorted(set(helpers))[:3]}" if helpers else
                      f"its callers {callers_interp} interpolate into {pol_recv}" if callers_interp else
                      "the class has base classes whose methods are not examined")
                   + ": whether the spline is computed from the current f before the kernel evaluates it is not decided", **where)
        else:
            chk.ob("E2-interpolate-before-evaluate", fn, what, False,
                   "step() does not interpolate f any more (no compute_interpolant in step(), f and the spline are handed to "
                   "nothing but the kernel, no caller of step() in the class interpolates into that spline): the kernel "
                   "evaluates the spline coefficients left over from the "
                   "previous call (another slice of the distribution) at the feet", **where)
    else:
        good = und = late = 0
        wrong_dest = []
        for c in interp:
            bi = agree.bind_call(c, ["data", "spline"])
            a_ = [src(sub.visit(copy.deepcopy(bi[k_]))) for k_ in ("data", "spline")] if bi and len(bi) == 2 else []
            unconditional = not [g for g in guards_of(c, stop=fn)]
            if len(a_) == 2 and a_[0] == "f" and a_[1] == pol_recv and recvs:
                if c.lineno < first_kernel and unconditional:
                    good += 1
                elif c.lineno >= first_kernel and unconditional:
                    late += 1
                else:
                    und += 1
            elif len(a_) == 2 and a_[0] == "f" and recvs and \
                    (a_[1].startswith("self.") or a_[1] in {p.arg for p in fn.args.args}):
                wrong_dest.append(a_[1])
            else:
                und += 1
        if good:
            chk.ob("E2-interpolate-before-evaluate", interp[0], what, True,
                   "the spline of f is computed from the current nodal values before the feet are evaluated, into the spline "
                   "whose knots, degrees and coefficients the kernel receives", **where)
        elif und:
            chk.ob("E2-interpolate-before-evaluate", interp[0], what, None,
                   "an interpolation is present but its arguments / position are not the recognised ones: not decided", **where)
        elif late:
            # AUDIT: established above: the call has the recognised arguments (f, the spline whose parts the kernel receives),
            # stands under no condition and after the first kernel call in the text of step()
            chk.ob("E2-interpolate-before-evaluate", interp[0], what, False,
                   "f is interpolated only after the kernel has evaluated the spline: the feet take the values of the "
                   "previous call's spline", **where)
        elif _same_object_in_ctor(cls, wrong_dest[0], pol_recv):
            chk.ob("E2-interpolate-before-evaluate", interp[0], what, None,
                   f"the interpolant of f is written into `{wrong_dest[0]}`, which the class binds to the same object as "
                   f"`{pol_recv}` somewhere: not decided", **where)
        else:
            # AUDIT: `pol_recv` is read off the kernel call itself (the object whose knots/degrees/coefficients it receives);
            # the destination is another attribute / parameter, and no assignment of the class makes the two names one object
            chk.ob("E2-interpolate-before-evaluate", interp[0], what, False,
                   f"the interpolant of f is written into `{wrong_dest[0]}` while the kernel is handed the coefficients of "
                   f"`{pol_recv}`: the feet take the values of a spline that does not represent the current f", **where)


SCHEME_FLAG = "explicitTrap"


def _flag_form(e, attrs, in_ctor):
    """how the boolean expression `e` depends on the constructor argument `explicitTrap`:
        (polarity, raw, issue)   polarity: e is true when the flag is a true value; raw: e IS the unconverted argument (any
                                 object the caller handed in), otherwise a Python bool derived from it; issue: None, or
                                 ("identity" | "equality", text) when on the way the unconverted argument was compared with
                                 the singletons True / False by `is` / `==` (which is not its truth value)
    None when `e` is not one of the modelled forms (name / attribute kept from the argument, bool(.), not ., comparison with
    the constants True / False)."""
    if isinstance(e, ast.Name):
        return (True, True, None) if in_ctor and e.id == SCHEME_FLAG else None
    if isinstance(e, ast.Attribute):
        return attrs.get(src(e))
    if isinstance(e, ast.Call) and isinstance(e.func, ast.Name) and e.func.id == "bool" and len(e.args) == 1 and not e.keywords:
        r = _flag_form(e.args[0], attrs, in_ctor)
        return None if r is None else (r[0], False, r[2])
    if isinstance(e, ast.UnaryOp) and isinstance(e.op, ast.Not):
        r = _flag_form(e.operand, attrs, in_ctor)
        return None if r is None else (not r[0], False, r[2])
    if isinstance(e, ast.Compare) and len(e.ops) == 1 and isinstance(e.ops[0], (ast.Is, ast.IsNot, ast.Eq, ast.NotEq)):
        a, b = e.left, e.comparators[0]
        if isinstance(a, ast.Constant) and isinstance(a.value, bool):
            a, b = b, a
        if not (isinstance(b, ast.Constant) and isinstance(b.value, bool)):
            return None
        r = _flag_form(a, attrs, in_ctor)
        if r is None:
            return None
        pol = r[0] if b.value else not r[0]
        if isinstance(e.ops[0], (ast.IsNot, ast.NotEq)):
            pol = not pol
        issue = r[2]
        if r[1] and issue is None:
            issue = ("identity" if isinstance(e.ops[0], (ast.Is, ast.IsNot)) else "equality", src(e))
        return (pol, False, issue)
    return None


def scheme_selection(chk, cls, fn, init, sites, knames, aliases, where):
    """E1-dispatch at the call sites of step(): the explicit kernel runs when the constructor argument `explicitTrap` is a
    true value, the implicit one when it is a false value.  The condition each kernel call stands under is followed back to
    the constructor argument through the attribute that keeps it (`_flag_form`)."""
    import copy
    what = f"{SCHEME_FLAG} true -> {knames[0]}, false -> {knames[1]}"
    params = [a.arg for a in init.args.args] + [a.arg for a in init.args.kwonlyargs] if init is not None else []
    if SCHEME_FLAG not in params:
        chk.ob("E1-dispatch", fn, what, None, f"the constructor has no parameter `{SCHEME_FLAG}`: which condition selects the time "
               "scheme is not decided", **where)
        return
    rebound = any(isinstance(n, ast.Name) and isinstance(n.ctx, ast.Store) and n.id == SCHEME_FLAG for n in ast.walk(init))
    cls_stores = {}
    for n in ast.walk(cls):
        if isinstance(n, ast.Attribute) and isinstance(n.ctx, (ast.Store, ast.Del)) and src(n.value) == "self":
            cls_stores[n.attr] = cls_stores.get(n.attr, 0) + 1
    attrs = {}
    if not rebound:
        for st in init.body:
            if isinstance(st, ast.Assign) and len(st.targets) == 1 and isinstance(st.targets[0], ast.Attribute) \
                    and src(st.targets[0].value) == "self" and cls_stores.get(st.targets[0].attr) == 1:
                r = _flag_form(st.value, {}, True)
                if r is not None:
                    attrs[src(st.targets[0])] = r
    # the constructor restricts the type of the argument itself (then a comparison with the singletons may be exact)
    typed = any(isinstance(c, ast.Call) and src(c.func) in ("isinstance", "type") and any(
        isinstance(x, ast.Name) and x.id == SCHEME_FLAG for a_ in c.args for x in ast.walk(a_)) for c in ast.walk(init))
    sub = _Subst(aliases)
    originals = {id(x) for x in ast.walk(fn)}
    for k_, kname in enumerate(knames):
        calls = [c for kn_, c, _ab in sites if kn_ == kname]
        if len(calls) != 1:
            continue                                  # E2-arity has said so
        c0 = calls[0]
        conds = None
        if id(c0) in originals and isinstance(c0.func, ast.Name):
            conds = [(t, pol, kind) for t, pol, kind in guards_of(c0, stop=fn)]
            if c0.func.id != kname:
                g = c0.func.id
                binds = [st for st in ast.walk(fn) if isinstance(st, ast.Assign) and len(st.targets) == 1
                         and isinstance(st.targets[0], ast.Name) and st.targets[0].id == g]
                mine = []
                for st in binds:
                    v = st.value
                    if isinstance(v, ast.Name) and v.id == kname:
                        mine.append(list(guards_of(st, stop=fn)))
                    elif isinstance(v, ast.IfExp) and any(isinstance(x, ast.Name) and x.id == kname for x in (v.body, v.orelse)):
                        mine.append([(v.test, isinstance(v.body, ast.Name) and v.body.id == kname, "ifexp")]
                                    + list(guards_of(st, stop=fn)))
                conds = conds + mine[0] if len(mine) == 1 else None
        if conds is None:
            # the kernel is an element of the tuple a read-only property returns case by case (`property_cases`): the
            # condition of the case that names this kernel
            found = []
            for attr in sorted({n.attr for n in ast.walk(fn) if isinstance(n, ast.Attribute) and isinstance(n.ctx, ast.Load)
                                and src(n.value) == "self"}):
                cases = property_cases(fn, attr)
                if not cases or len(cases) != 2 or any(t is None for t, _v in cases):
                    continue
                hit = [t for t, v in cases if isinstance(v, ast.Tuple) and any(isinstance(x, ast.Name) and x.id == kname for x in v.elts)]
                other = [v for t, v in cases if isinstance(v, ast.Tuple) and any(isinstance(x, ast.Name) and x.id in knames
                                                                                 and x.id != kname for x in v.elts)]
                if len(hit) == 1 and len(other) == 1:
                    found.append(hit[0])
            if len(found) == 1:
                try:
                    conds = [(ast.parse(found[0], mode="eval").body, True, "if")] + [
                        g_ for g_ in guards_of(c0, stop=fn)]
                except SyntaxError:
                    conds = None
        if conds is None:
            chk.ob("E1-dispatch", c0, what, None, f"the condition under which step() reaches {kname} is not followed (the kernel "
                   "is selected by a property / a table / more than one binding): not decided", **where)
            continue
        if not conds:
            chk.ob("E1-dispatch", c0, what, None, f"the call of {kname} stands under no condition in step(): how the time "
                   "scheme is selected is not decided", **where)
            continue
        forms = []
        for t, pol, kind in conds:
            r = _flag_form(sub.visit(copy.deepcopy(t)), attrs, False) if kind in ("if", "ifexp") else None
            if r is None:
                forms = None
                chk.ob("E1-dispatch", c0, what, None,
                       f"the call of {kname} stands under `{src(t)}`, which is not a recognised test of an attribute that the "
                       f"constructor binds once to `{SCHEME_FLAG}` (plain, bool(.), not ., compared with True / False): not decided",
                       **where)
                break
            forms.append((r[0] == pol, r[2], t))
        if forms is None:
            continue
        if len({f_[0] for f_ in forms}) != 1:
            chk.ob("E1-dispatch", c0, what, None, f"the conditions around the call of {kname} contradict one another: not decided",
                   **where)
            continue
        want = k_ == 0
        issue = next((f_[1] for f_ in forms if f_[1] is not None), None)
        tests = " and ".join(f"`{src(t)}`" + ("" if pol else " false") for t, pol, _k in conds)
        if forms[0][0] != want:
            # AUDIT: the attribute tested is bound exactly once in the class, in the constructor, to the (possibly negated /
            # converted) parameter `explicitTrap`, which is not rebound; every condition around the call is such a test and
            # they agree; `*_expl` is the Heun kernel and `*_impl` the fixed-point kernel by the F1 rules of this check
            chk.ob("E1-dispatch", c0, what, False,
                   f"{kname} is reached under {tests}, that is when `{SCHEME_FLAG}` is {'false' if want else 'true'}: the two time "
                   "schemes are exchanged with respect to the constructor argument", **where)
        elif issue is not None and issue[0] == "identity" and not typed:
            # AUDIT: the constructor keeps the argument as it was given (no bool(.), no isinstance / type test on it anywhere
            # in the constructor) and the comparison `is` with a singleton is true for that one object only: a true value that
            # is not the object True (numpy.bool_ from a comparison, 1) takes the other arm
            chk.ob("E1-dispatch", c0, what, False,
                   f"the scheme is selected by `{issue[1]}`, an IDENTITY test on the argument `{SCHEME_FLAG}`, which the constructor "
                   "keeps unconverted: a true (false) value that is not the singleton True (False) - numpy.bool_, 1 (0) - selects "
                   "the other scheme than the one asked for (an object built with explicitTrap=numpy.bool_(True) runs the implicit "
                   "fixed-point iteration, or the reverse); only bool(.) of the argument, or its truth value, is the documented "
                   "flag", **where)
        elif issue is not None:
            chk.ob("E1-dispatch", c0, what, None,
                   f"the scheme is selected by `{issue[1]}` on the argument `{SCHEME_FLAG}` that the constructor keeps unconverted"
                   + (" (but tests its type)" if typed else "") + ": the comparison agrees with the truth value for bool, "
                   "numpy.bool_, 0 and 1 and differs for other true values: not decided", **where)
        else:
            chk.ob("E1-dispatch", c0, what, True,
                   f"{kname} is reached under {tests}, the truth value of the constructor argument `{SCHEME_FLAG}`", **where)


def iteration_bound(chk, mod):
    """'the implicit iteration terminates': the fixed-point loop `while norm > tol` stops only when the iterates converge, which
    needs the map to be a contraction (dt x Lipschitz constant of the drift / r below one).  Without an iteration bound the loop
    does not terminate for inputs where it is not - a structural necessary condition of unconditional termination."""
    fn = mod.func(IMPL)
    loops = [n for n in ast.walk(fn) if isinstance(n, ast.While)]
    if not loops:
        found = iteration_loop(fn)
        if isinstance(found, tuple) and found[3]:
            chk.ob("F1-iteration-bounded", found[0], "while norm > tol: fixed-point pass", True,
                   f"the fixed-point passes are the iterations of `for {src(found[0].target)} in {src(found[0].iter)}`, left early at "
                   "convergence: their number is bounded", file=U.ADVK, func=IMPL)
            return
    if len(loops) != 1:
        chk.ob("F1-iteration-bounded", fn, "while norm > tol", None, f"{len(loops)} while loops found in the implicit kernel", file=U.ADVK, func=IMPL)
        return
    lp = loops[0]
    names_in_test = {n.id for n in ast.walk(lp.test) if isinstance(n, ast.Name)}
    counters = _pass_counters(lp)
    bounded = bool(counters & names_in_test) or any(
        isinstance(n, ast.If) and any(isinstance(b, (ast.Break, ast.Return, ast.Raise)) for b in ast.walk(n))
        and ({x.id for x in ast.walk(n.test) if isinstance(x, ast.Name)} & counters) for n in ast.walk(lp))
    # AUDIT (KNOWN FINDING on today's tree): "nothing bounds the number of passes" = the only `while` of the kernel has no
    # name in its test that the body increments by a constant once per pass, and no conditional break / return / raise on
    # such a counter; a bound written in any other way (count-down, helper) is not recognised and would be reported too
    chk.ob("F1-iteration-bounded", lp, "while norm > tol: fixed-point pass", bounded,
           "the number of fixed-point passes is bounded by a counter" if bounded else
           "the loop ends only when two successive iterates agree to `tol`; nothing bounds the number of passes, so for a potential and "
           "time step for which the fixed-point map is not a contraction the call never returns", file=U.ADVK, func=IMPL)


def _pass_counters(lp):
    """names incremented by a constant once per pass of the loop (not inside a sweep over the nodes)"""
    counters = set()

    def rec(stmts):
        for n in stmts:
            if isinstance(n, ast.AugAssign) and isinstance(n.target, ast.Name) and isinstance(n.op, ast.Add) \
                    and isinstance(n.value, ast.Constant):
                counters.add(n.target.id)
            elif isinstance(n, ast.Assign) and isinstance(n.targets[0], ast.Name) and isinstance(n.value, ast.BinOp) \
                    and isinstance(n.value.op, ast.Add) and isinstance(n.value.left, ast.Name) \
                    and n.value.left.id == n.targets[0].id and isinstance(n.value.right, ast.Constant):
                counters.add(n.targets[0].id)
            elif isinstance(n, ast.If):
                pass                        # a conditional increment does not count the passes
    rec(lp.body)
    return counters


class _Delegating:
    """view of the check handed to the index-space analysis of gridStep / gridStep_SplinesUnchanged (props/C05.poloidal).
    That analysis reports 'no call of self.step found' for a method without one.  When the method has handed its stepping
    loop to a sibling method - an unconditional `self.<sibling>(...)` at the top level of its body whose arguments are its
    own parameters, unchanged - the step calls it makes ARE those of the sibling, which the same analysis decides under the
    sibling's own layout assertions: the obligation is then stated on the pair caller + callee."""

    def __init__(self, chk, cls):
        self._chk, self._cls = chk, cls

    def __getattr__(self, k):
        return getattr(self._chk, k)

    def _delegate(self, fn):
        methods = {st.name: st for st in self._cls.body if isinstance(st, ast.FunctionDef)}
        params = [a.arg for a in fn.args.args][1:]
        rebound = {n.id for n in ast.walk(fn) if isinstance(n, ast.Name) and isinstance(n.ctx, ast.Store)}
        for st in fn.body:
            c = st.value if isinstance(st, ast.Expr) else None
            if not (isinstance(c, ast.Call) and isinstance(c.func, ast.Attribute) and src(c.func.value) == "self"
                    and c.func.attr in methods and c.func.attr != fn.name):
                continue
            callee = methods[c.func.attr]
            b = agree.bind_call(c, [a.arg for a in callee.args.args][1:])
            if b is None or not all(isinstance(a, ast.Name) and a.id in params and a.id not in rebound for a in b.values()):
                continue
            if len({a.id for a in b.values()}) != len(b):
                continue
            has_step = any(isinstance(x, ast.Call) and isinstance(x.func, ast.Attribute) and x.func.attr == "step"
                           and src(x.func.value) == "self" for x in ast.walk(callee))
            # the same role on both sides: a parameter is handed to the parameter of the same name
            if has_step and all(f == a.id for f, a in b.items()):
                return c, callee
        return None

    def ob(self, rule, node, construct, ok, msg="", **kw):
        if rule == "C-coordinate-role" and ok is None and isinstance(node, ast.FunctionDef):
            d = self._delegate(node)
            if d is not None:
                c, callee = d
                return self._chk.ob(rule, c, f"{node.name}: stepping loop handed to self.{callee.name}(...)", True,
                                    f"{node.name} makes no call of self.step itself: it ends with `{src(c)}`, which hands its own "
                                    f"parameters on unchanged; the calls of self.step it makes are those of {callee.name}, decided "
                                    "there", **kw)
        return self._chk.ob(rule, node, construct, ok, msg, **kw)


def dispatch_by_cases(chk, mod, w, g, flag="cubic_uniform_splines"):
    """the dispatch wrapper written in any other way than `if flag: general(...) else: general(...)`: the wrapper is followed
    once for each value of its boolean parameter `flag` (arms of `if flag`, `a if flag else b`, `{True: a, False: b}[flag]`
    selected; locals, tuples and unpacked sequences resolved) up to its call of the general routine, and the two bindings
    are compared: every parameter other than an evaluator receives the wrapper's parameter of the same name on both
    paths, every evaluator parameter X receives cu_X when the flag is set and nu_X when it is not."""
    wf, gf = mod.func(w), mod.func(g)
    chk.functions.add(f"{U.ADVK}:{w}")
    where = dict(file=U.ADVK, func=w)
    gformals = [a.arg for a in gf.args.args]
    wparams = [a.arg for a in wf.args.args]
    what = f"{w} -> {g}"
    if flag not in wparams:
        chk.ob("E1-dispatch", wf, what, None, f"the wrapper has no parameter `{flag}`: which path is the fast one is not decided", **where)
        return

    def truth(e, b):
        if isinstance(e, ast.Name) and e.id == flag:
            return b
        if isinstance(e, ast.UnaryOp) and isinstance(e.op, ast.Not):
            t = truth(e.operand, b)
            return None if t is None else not t
        if isinstance(e, ast.Compare) and len(e.ops) == 1 and isinstance(e.ops[0], (ast.Is, ast.Eq, ast.IsNot, ast.NotEq)) \
                and isinstance(e.left, ast.Name) and e.left.id == flag and isinstance(e.comparators[0], ast.Constant) \
                and isinstance(e.comparators[0].value, bool):
            t = b == e.comparators[0].value
            return t if isinstance(e.ops[0], (ast.Is, ast.Eq)) else not t
        return None

    def val(e, b, env, depth=0):
        if depth > 8:
            raise Undecided("nesting")
        if isinstance(e, ast.Name) and e.id in env:
            return env[e.id]
        if isinstance(e, ast.IfExp):
            t = truth(e.test, b)
            if t is None:
                raise Undecided(f"condition `{src(e.test)}`")
            return val(e.body if t else e.orelse, b, env, depth + 1)
        if isinstance(e, (ast.Tuple, ast.List)):
            return tuple(val(x, b, env, depth + 1) for x in e.elts)
        if isinstance(e, ast.Subscript):
            if isinstance(e.value, ast.Dict) and truth(e.slice, b) is not None:
                t = truth(e.slice, b)
                for k_, v_ in zip(e.value.keys, e.value.values):
                    if isinstance(k_, ast.Constant) and isinstance(k_.value, (bool, int)) and bool(k_.value) == t \
                            and k_.value in (True, False, 0, 1):
                        return val(v_, b, env, depth + 1)
                raise Undecided(f"table `{src(e.value)[:40]}` has no entry for {t}")
            base = val(e.value, b, env, depth + 1)
            if isinstance(base, tuple):
                k_ = _const_index(e.slice)
                if isinstance(k_, int) and -len(base) <= k_ < len(base):
                    return base[k_]
                t = truth(e.slice, b)
                if t is not None and len(base) == 2:
                    return base[int(t)]                 # (general, fast)[flag]
            raise Undecided(f"subscript `{src(e)[:40]}`")
        return e

    def follow(stmts, b, env, calls):
        for st in stmts:
            if isinstance(st, ast.Expr) and isinstance(st.value, ast.Constant):
                continue
            if isinstance(st, (ast.Import, ast.ImportFrom, ast.Pass)):
                continue
            if isinstance(st, ast.If):
                t = truth(st.test, b)
                if t is None:
                    raise Undecided(f"condition `{src(st.test)}`")
                if follow(st.body if t else st.orelse, b, env, calls):
                    return True
                continue
            if isinstance(st, ast.Assign) and len(st.targets) == 1:
                t, v = st.targets[0], val(st.value, b, env)
                if isinstance(t, ast.Name):
                    env[t.id] = v
                    continue
                if isinstance(t, (ast.Tuple, ast.List)) and isinstance(v, tuple) and len(v) == len(t.elts) \
                        and all(isinstance(x, ast.Name) for x in t.elts):
                    for x, y in zip(t.elts, v):
                        env[x.id] = y
                    continue
                raise Undecided(f"assignment `{src(st)[:50]}`")
            c = st.value if isinstance(st, (ast.Expr, ast.Return)) else None
            if isinstance(c, ast.Call) and isinstance(c.func, ast.Name):
                callee = val(c.func, b, env)
                if isinstance(callee, ast.Name) and callee.id == g:
                    args = []
                    for a in c.args:
                        if isinstance(a, ast.Starred):
                            v = val(a.value, b, env)
                            if not isinstance(v, tuple):
                                raise Undecided(f"`*{src(a.value)}`")
                            args += list(v)
                        else:
                            args.append(val(a, b, env))
                    kws = {}
                    for k_ in c.keywords:
                        if k_.arg is None:
                            raise Undecided(f"`**{src(k_.value)}`")
                        kws[k_.arg] = val(k_.value, b, env)
                    if any(isinstance(x, tuple) for x in args + list(kws.values())):
                        raise Undecided("a sequence is handed on as one argument")
                    calls.append((c, args, kws))
                    if isinstance(st, ast.Return):
                        return True
                    continue
            if isinstance(st, ast.Return) and st.value is None:
                return True
            raise Undecided(f"statement `{src(st)[:50]}`")
        return False
    got = {}
    try:
        for b in (True, False):
            calls = []
            follow(wf.body, b, {}, calls)
            if len(calls) != 1:
                # AUDIT: "returns without calling" - follow() went through every statement of the wrapper on this value of the
                # flag (it raises Undecided on any statement it does not model) and met no call of the general routine
                chk.ob("E1-dispatch", wf, what, None if calls else False,
                       f"{len(calls)} calls of {g} on the path with {flag} = {b}: not decided" if calls else
                       f"with {flag} = {b} the wrapper returns without calling {g}: no advection is done for that family of splines",
                       **where)
                return
            c, args, kws = calls[0]
            if gf.args.defaults or gf.args.vararg or gf.args.kwarg or gf.args.kwonlyargs:
                # AUDIT: the arity verdict below counts plain parameters only
                chk.ob("E1-dispatch", c, what, None, f"{g} has defaults / *args / **kwargs / keyword-only parameters: whether "
                       "the argument list fits is not decided", **where)
                return
            if len(args) > len(gformals) or any(k_ not in gformals or k_ in gformals[:len(args)] for k_ in kws) \
                    or len(args) + len(kws) != len(gformals):
                chk.ob("E1-dispatch", c, what, False,
                       f"with {flag} = {b} the argument list ({len(args)} positional, keywords {sorted(kws)}) does not fit the "
                       f"{len(gformals)} parameters of {g}: the call raises TypeError", **where)
                return
            bind = dict(zip(gformals, args))
            bind.update(kws)
            got[b] = (c, bind)
    except Undecided as e:
        chk.ob("E1-dispatch", wf, what, None, f"the wrapper could not be followed for each value of `{flag}` ({e}): agreement of the "
               "two paths is not decided", **where)
        return
    bad, und = [], []
    for f in gformals:
        at, af = src(got[True][1][f]), src(got[False][1][f])
        if at == af:
            if at == f and f in wparams:
                continue
            if at in wparams and at in gformals and f in wparams:
                # AUDIT: both names belong to the vocabulary the two functions share: an argument in the wrong place
                bad.append(f"the wrapper's `{at}` is handed to parameter `{f}` of {g}")
            elif at in wparams:
                und.append(f"the wrapper's `{at}` is handed to parameter `{f}` of {g} (the two functions do not name their "
                           "parameters alike: renamed?)")
            else:
                und.append(f"`{f}` receives `{at}` on both paths, which is not the wrapper's parameter of that name")
            continue
        (pt, st_), (pf, sf) = _stem_of(at), _stem_of(af)
        if (pt, pf) == ("cu_", "nu_") and st_ == sf == f:
            continue
        if (pt, pf) == ("nu_", "cu_") and st_ == sf == f:
            bad.append(f"`{f}` receives `{at}` when `{flag}` is set and `{af}` when it is not: the fast evaluators, which assume a "
                       "cubic uniform basis, are used exactly when the basis is NOT cubic uniform")
        elif pt in ("cu_", "nu_") and pf in ("cu_", "nu_") and (st_ != f or sf != f):
            bad.append(f"`{f}` receives `{at}` / `{af}`: not the cu_/nu_ pair of the evaluator `{f}`")
        elif pt == pf and pt in ("cu_", "nu_"):
            bad.append(f"`{f}` receives `{at}` / `{af}`: the same family on both paths, the flag does not select the evaluator")
        else:
            und.append(f"`{f}` receives `{at}` / `{af}`")
    chk.ob("E1-dispatch", got[True][0], what, False if bad else (None if und else True),
           "; ".join(bad + und) if bad or und else
           f"followed for both values of `{flag}`: both families get the wrapper's own arguments under the same names; every "
           "evaluator parameter gets the cu_/nu_ pair of its own stem; the fast path is taken iff the basis is cubic uniform", **where)


def _stem_of(name):
    for p_ in ("cu_", "nu_"):
        if name.startswith(p_):
            return p_, name[len(p_):]
    return None, name


def run(chk):
    chk.explanation = (
        "Formula conformance by symbolic forward substitution (engine F): predictor, Heun corrector, boundary fill of "
        "the explicit kernel; initial iterate, halved step factor, fixed-point map with clipping, convergence measure "
        "and loop test, and fill of the implicit kernel, each compared as rational functions / conditionals with the "
        "specification written from the property statement (drift (-d_r phi, d_theta phi)/(r B0), trapezoidal rule, "
        "theta mod 2 pi, fill values); conditionals are compared by case analysis from the innermost condition outwards, "
        "a mismatch is matched against named wrong variants to diagnose it (among them: angle reduced by one conditional "
        "shift of a period instead of modulo 2 pi). The fixed-point loop is brought to while form first (`while True` / "
        "`for _ in range(N)` left by a break as first or last statement; a conjunct on a pass counter is a bound). Every "
        "sweep visits all nodes; the measure is reset in each pass. Before extraction the kernels are normalised: helper "
        "functions of the kernel module are analysed with their caller (call replaced by the body, arguments substituted), "
        "early exits of a sweep (`continue`) are written as if/else, counting loops are brought to the 0-based ascending "
        "convention (`range(1, n+1)` with `i-1`, descending ranges), numpy.mod/remainder are the operator %, fmod is not; a "
        "scalar parameter whose actual in PoloidalAdvection.step is an expression of step()'s quantities (dt/B0 computed "
        "by the caller) has that value in the kernel, so caller and callee are compared with the specification as a pair. "
        "The fixed-point pass is analysed from a generic iterate, whose angle is taken as reduced modulo 2 pi when that is an "
        "invariant of the loop (initial iterate reduced, every pass leaves a reduced angle); the measure must be the "
        "distance between the old iterate and the iterate the next pass starts from (a measure taken on another stored "
        "copy of the point that differs from it, e.g. unclipped vs clipped, is reported as a non-termination of its own). "
        "Plus fast-path/general-path dispatch agreement (any other form than the if/else of two calls is followed once per "
        "value of the flag through locals, conditional expressions, tables keyed by the flag and unpacked tuples) and the "
        "kernel call sites of PoloidalAdvection.step (found by what is called: direct calls, or one call through a local "
        "name that an if/else binds to the two kernels, each arm's bindings applied), decided RELATIONALLY from the class "
        "itself (local aliases incl. unpacked sequences, unpacked "
        "local tuples and unmodified local keyword tables resolved): the actuals of rPts/qPts are the r/theta axis according "
        "to the constructor's selection from eta_vals; the parts of the distribution spline all come from one spline object, "
        "which is the one f is interpolated into before the call; attributes that keep a constructor argument have its role; "
        "the expressions bound to the work parameters (attributes, views of a block, entries of a list) denote pairwise "
        "different storage, which of them plays which part being immaterial; a method that hands stored potential splines to "
        "step() without computing them reads storage that another method fills by interpolation, entry for entry. "
        "'One step REPLACES f': the array bound to the kernel's output parameter is the array object handed to step() (a "
        "rebinding through numpy forms that return a copy for some or all inputs - ascontiguousarray, asarray with dtype, "
        "astype, copy, array - without a copy back is reported). "
        "Soundness of every VIOLATED verdict: the assumptions it rests on are written next to it (AUDIT comments) and "
        "checked; in particular the stage rules of the explicit kernel are subordinated to the END-TO-END comparison of f "
        "with the specification (where intermediates are kept is not part of the property), the rules of the implicit "
        "kernel require that the iterate is the only state carried between passes (arrays and scalars that a pass writes "
        "are unknown at the start of a pass), constructs the symbolic execution only approximates turn a difference into "
        "UNDECIDED, a foot exactly on the radial boundary is not a case (the property excludes it), conditions are "
        "identified up to positive factors and sign, whole-array fills and element-wise row statements are rewritten as "
        "the loops they are, the axes of a sweep are read off its subscripts (loop interchange). "
        "Of 'the implicit iteration terminates' only the structural "
        "necessary condition is decided (an iteration bound; absent today: known finding); accuracy orders and rigid-rotation exactness "
        "are numerical consequences and are not decided.")
    chk.assumptions += ["the spline evaluators have the semantics stated by C07 (uninterpreted S2(x,y,der1,der2;family))",
                        "f_eq is the equilibrium distribution with argument roles (r, v, constants...)",
                        "every two-dimensional argument of the kernels has the shape (len(qPts), len(rPts)) "
                        "(asserted by PoloidalAdvection.step for f, true by construction for the work arrays)",
                        "the radial grid is increasing (rPts[0] < rPts[-1])"]
    chk.trusted.append("sympy expand/together as polynomial normaliser")
    mod = chk.mod(U.ADVK)
    chk.in_file(U.ADVK)
    try:
        kernel_scalar_actuals(chk)
    except Exception:                     # a call site that cannot be followed composes nothing
        _SCALAR_SUBST.clear()
    check_explicit(chk, mod)
    check_implicit(chk, mod)
    iteration_bound(chk, mod)
    for w, g in (("poloidal_advection_step_expl", EXPL), ("poloidal_advection_step_impl", IMPL)):
        # the dispatch engine decides the form `if flag: general(positional...) else: general(positional...)`; any other
        # way of writing the wrapper is not that idiom and is left undecided rather than reported
        wf = mod.func(w)
        ifs = [n for n in wf.body if isinstance(n, ast.If)]
        arms = [a for n in ifs for a in (n.body, n.orelse)]
        plain = len(ifs) == 1 and isinstance(ifs[0].test, ast.Name) and all(
            len(a) == 1 and isinstance(a[0], ast.Expr) and isinstance(a[0].value, ast.Call) and not a[0].value.keywords
            and not any(isinstance(x, ast.Starred) for x in a[0].value.args) for a in arms)
        # AUDIT of the engine rule (agree.check_wrapper_dispatch), whose VIOLATED verdicts presuppose that (1) both arms call the
        # general routine itself (not a specialised copy each), (2) the general routine takes exactly its plain parameters (no
        # defaults, *args, **kwargs), (3) wrapper and general routine name their parameters alike, so that "`x` is forwarded
        # to parameter `p`" with x != p means a misplaced argument and not a renamed parameter: every name forwarded is either
        # the parameter of that name or a name that is a parameter of BOTH functions.  Otherwise the wrapper is followed by
        # cases (dispatch_by_cases), which states the same guards itself.
        if plain:
            gfn = mod.func(g)
            gform = [a.arg for a in gfn.args.args]
            wpar = {a.arg for a in wf.args.args}
            for a in arms:
                cc = a[0].value
                if src(cc.func) != g or gfn.args.defaults or gfn.args.vararg or gfn.args.kwarg or gfn.args.kwonlyargs:
                    plain = False
                    break
                for k_, x in enumerate(cc.args):
                    if k_ < len(gform) and isinstance(x, ast.Name) and x.id != gform[k_] and not x.id.startswith(("cu_", "nu_")) \
                            and not (x.id in gform and gform[k_] in wpar):
                        plain = False
        if not plain:
            dispatch_by_cases(chk, mod, w, g)
            continue
        agree.check_wrapper_dispatch(chk, mod, w, g)
    call_site_roles(chk)
    # per-z potential splines (state anchor of the property): distinct objects, consistent index space, own plane/velocity
    from .C05 import poloidal
    poloidal(_Delegating(chk, chk.mod(U.ADV).cls("PoloidalAdvection")))
    from .. import lints as _l
    _l.check_cache_keys(chk, U.ADV, "PoloidalAdvection")
    chk.floor("F1-", 8)
    chk.floor("E", 6)


# --- engine I (pgverif/oneshot.py): one-shot iterators handed out by the grid accessors are walked once per creation and never memoised.
# Run first so that its reports do not depend on the idiom recognition of the rules above.
_run_before_engine_I = run


def run(chk):  # noqa: F811
    from ..oneshot import attach
    attach(chk, [(U.ADV, {"PoloidalAdvection"})])
    _run_before_engine_I(chk)
