"""C09 - spline quadrature weights (narrow claim: the mechanism clause).

weights = A^{-T} I with the *same* factorisation A used for interpolation and I = the stored
basis integrals (transposed solve on both paths); on the periodic path the integrals of the
wrapped copies are folded onto the first p entries (because c[n+i] = c[i]) on a *copy*; the
stored integrals are never mutated; interior integrals of the uniform cubic case are dx and the
auxiliary construction of its boundary integrals is translation invariant.  Given correct
integrals, int S = c.I = (A^{-1}u).I = u.(A^{-T}I).  Correctness of _build_integrals itself
(the two defects named in the property text) is numerical and is NOT claimed.

Every rule reads the method as the straight-line code it is on a periodic resp. clamped
(uniform-cubic resp. general) space: branches on the kind of space are resolved, locals that only
rename an attribute and private helper methods are written back (C07.Specialiser), so that
guard clauses, if/else, extracted helpers and renamed locals all look alike.  A rule HOLDS when
the mechanism is recognised, is VIOLATED only for a recognised wrong form, and is UNDECIDED
otherwise.
"""
from __future__ import annotations

import ast

import sympy as sp

from ..core import src, contains, find
from .. import units as U
from .. import lints
from ..npsym import NpSym
from ..symx import alg_equal, Undecided
from .C07 import Specialiser, walk_guarded, own_exprs, _int_attr

QF = "SplineInterpolator1D.get_quadrature_coefficients"
INTEGRALS = ("self._basis.integrals", "self._basis._integrals")
N, P = sp.Symbol("n", integer=True, positive=True), sp.Symbol("p", integer=True, positive=True)


def _flat(body):
    """all statements of a specialised body, in order (compound statements included, followed by their parts)"""
    return [st for st, _g in walk_guarded(body)]


def _def_of(name, body, before=None):
    """last assignment `name = ...` / `name, x = ...` of a specialised body (before a statement) -> (statement, value or (value, index))"""
    got = None
    for st in _flat(body):
        if st is before:
            break
        if isinstance(st, ast.Assign) and len(st.targets) == 1:
            t = st.targets[0]
            if isinstance(t, ast.Name) and t.id == name:
                got = (st, st.value, None)
            elif isinstance(t, ast.Tuple):
                for k, el in enumerate(t.elts):
                    if isinstance(el, ast.Name) and el.id == name:
                        got = (st, st.value, k)
    return got


def _interp_table(periodic):
    t = {}
    for a in ("nbasis", "_nbasis"):
        t[f"self._basis.{a}"] = N
    for a in ("degree", "_degree"):
        t[f"self._basis.{a}"] = P
    for a in ("ncells", "_ncells"):
        t[f"self._basis.{a}"] = N if periodic else N - P
    return t


def _slice_bounds(sub, table, length):
    """[lo, hi) of `X[a:b]` as sympy values; None when it is no plain slice"""
    if not isinstance(sub, ast.Subscript) or not isinstance(sub.slice, ast.Slice) or sub.slice.step is not None:
        return None
    lo = sp.Integer(0) if sub.slice.lower is None else _int_attr(sub.slice.lower, table)
    hi = length if sub.slice.upper is None else _int_attr(sub.slice.upper, table)
    if lo is None or hi is None:
        return None
    # a negative bound counts from the end
    lo = lo + length if lo.is_negative else lo
    hi = hi + length if hi.is_negative else hi
    return lo, hi


def _same(a, b):
    return sp.expand(a - b) == 0


def _copy_or_view(e):
    """(inner expression, True if `e` is a fresh array / False if it may share memory / None unknown)"""
    if isinstance(e, ast.Call):
        f = src(e.func)
        if isinstance(e.func, ast.Attribute) and e.func.attr in ("copy", "astype", "flatten") and not e.args:
            return e.func.value, True
        if f in ("np.copy", "np.array", "numpy.array", "numpy.copy") and e.args and not any(k.arg == "copy" for k in e.keywords):
            return e.args[0], True
        if f in ("np.asarray", "np.asanyarray", "np.ascontiguousarray", "np.atleast_1d", "np.require") and e.args:
            return e.args[0], False
        if isinstance(e.func, ast.Attribute) and e.func.attr in ("view", "ravel", "reshape", "squeeze"):
            return e.func.value, False
        return e, None
    if isinstance(e, ast.BinOp):
        return e, True
    return e, False


def weights_mechanism(chk):
    imod = chk.mod(U.INTERP)
    fn = chk.func(U.INTERP, QF)
    bodies = {}
    for per in (True, False):
        sp_ = Specialiser(imod, "SplineInterpolator1D", facts={"self._basis.periodic": per, "self._basis._periodic": per})
        bodies[per] = sp_.run("get_quadrature_coefficients")
    # ---- periodic: the value returned is splu.solve(<folded integrals>, trans='T')
    body = bodies[True]
    rets = [st for st in _flat(body) if isinstance(st, ast.Return)]
    okp, badp, rhs = False, None, None
    if len(rets) == 1 and rets[0].value is not None:
        v = rets[0].value
        if isinstance(v, ast.Name):
            d = _def_of(v.id, body, rets[0])
            if d is not None and d[2] is None:
                v = d[1]
        if isinstance(v, ast.Call) and src(v.func) == "self._splu.solve" and v.args:
            rhs = v.args[0]
            tr = [k.value for k in v.keywords if k.arg == "trans"] or list(v.args[1:2])
            if tr and isinstance(tr[0], ast.Constant) and tr[0].value in ("T", "H"):
                okp = True
            elif not tr or (isinstance(tr[0], ast.Constant) and tr[0].value == "N"):
                badp = (f"`{src(v)[:70]}` solves A w = I with the interpolation matrix itself, not with its transpose: the result is not "
                        "the vector of quadrature weights (u.w differs from the integral of the interpolant)")
    chk.pat("Q1-transposed-solve", rets[0] if rets else fn, "periodic: splu.solve(folded integrals, trans='T')", okp,
            "the periodic weights solve the transposed system with the interpolation LU", badp, file=U.INTERP, func=QF)
    # ---- periodic: the right-hand side is I[:n] (a copy) with I[n:] added onto its first p entries
    periodic_fold(chk, fn, body, rhs)
    # ---- clamped: the value returned is solveFunc(bmat, l, u, integrals, ipiv, trans=True)
    body = bodies[False]
    rets = [st for st in _flat(body) if isinstance(st, ast.Return)]
    okc, badc = False, None
    call = None
    if len(rets) == 1 and rets[0].value is not None:
        v = rets[0].value
        if isinstance(v, ast.Name):
            d = _def_of(v.id, body, rets[0])
            if d is not None and d[2] in (None, 0):
                v = d[1]
        elif isinstance(v, ast.Subscript) and isinstance(v.slice, ast.Constant) and v.slice.value == 0:
            v = v.value
        if isinstance(v, ast.Call) and src(v.func) == "self._solveFunc":
            call = v
    if call is not None:
        names = ["ab", "kl", "ku", "b", "ipiv"]
        got = {n_: a for n_, a in zip(names, call.args)}
        for k in call.keywords:
            if k.arg in names:
                got[k.arg] = k.value
        tr = [k.value for k in call.keywords if k.arg == "trans"] or list(call.args[5:6])
        want = {"ab": "self._bmat", "kl": "self._l", "ku": "self._u", "ipiv": "self._ipiv"}
        wrong = [f"`{k}` receives `{src(got[k])}` instead of `{w}`" for k, w in want.items() if k in got and src(got[k]) != w
                 and src(got[k]) in want.values()]
        unknown = [k for k, w in want.items() if k not in got or (src(got[k]) != w and src(got[k]) not in want.values())]
        b = got.get("b")
        b_in, fresh = _copy_or_view(b) if b is not None else (None, None)
        b_ok = b is not None and (src(b) in INTEGRALS or src(b_in) in INTEGRALS)
        if wrong:
            badc = "; ".join(wrong) + ": the banded solve is given the factors of the interpolation matrix in the wrong places"
        elif not tr or (isinstance(tr[0], ast.Constant) and tr[0].value in (False, 0, "N")):
            badc = (f"`{src(call)[:80]}` solves A w = I, not the transposed system: the result is not the vector of quadrature weights")
        elif not unknown and b_ok and isinstance(tr[0], ast.Constant) and tr[0].value in (True, 1, 2, "T", "H"):
            okc = True
    chk.pat("Q1-transposed-solve", rets[0] if rets else fn, "clamped: solve(A, integrals, trans=True)", okc,
            "the weights solve the transposed collocation system with the interpolation factors and the stored basis integrals", badc,
            file=U.INTERP, func=QF)
    # ---- the stored integrals are not written through (on either path, helpers included)
    allm = []
    for per, body in bodies.items():
        shell = ast.FunctionDef(name="get_quadrature_coefficients", args=fn.args, body=body or [ast.Pass()], decorator_list=[], lineno=fn.lineno)
        for node, d in lints.shared_state_mutations(shell, lambda s: s.endswith(".integrals") or s.endswith("._integrals")):
            if d not in [x[1] for x in allm]:
                allm.append((node, d))
    muts = allm
    chk.ob("G2-no-shared-mutation", muts[0][0] if muts else fn, "get_quadrature_coefficients vs basis.integrals", not muts,
           "the stored basis integrals are only read" if not muts else "; ".join(d for _, d in muts) +
           " - a second request (or another interpolator on the same basis) gets wrong weights", file=U.INTERP, func=QF)
    # ---- the factorisation used here is the one compute_interpolant uses (same attributes)
    found = {}
    for per in (True, False):
        sp_ = Specialiser(imod, "SplineInterpolator1D", facts={"self._basis.periodic": per, "self._basis._periodic": per})
        cb = sp_.run("compute_interpolant")
        chk.functions.add(f"{U.INTERP}:SplineInterpolator1D.compute_interpolant")
        calls = [c for st in _flat(cb) for c in own_exprs(st) if isinstance(c, ast.Call) and
                 src(c.func) == ("self._splu.solve" if per else "self._solveFunc")]
        found[per] = calls
    oks = bool(found[True]) and bool(found[False])
    if oks:
        c = found[False][0]
        oks = [src(a) for a in c.args[:3]] == ["self._bmat", "self._l", "self._u"] or None
    chk.pat("Q1-same-factorisation", fn, "interpolation and quadrature share (bmat, l, u, ipiv) / splu", oks,
            "interpolation solves A c = u and quadrature A^T w = I with one factorisation", file=U.INTERP, func=QF)
    pr = chk.func(U.SPLINES, "BSplines.integrals")
    rets = [r.value for r in ast.walk(pr) if isinstance(r, ast.Return)]
    okr = bool(rets) and all(r is not None and src(_copy_or_view(r)[0] if isinstance(r, ast.Call) else r) == "self._integrals" for r in rets)
    chk.pat("Q1-same-factorisation", pr, "BSplines.integrals returns the stored integrals", okr, "", file=U.SPLINES, func="BSplines.integrals",
            nontrivial=False)


def periodic_fold(chk, fn, body, rhs):
    table = _interp_table(True)
    ok, bad = False, None
    node = fn
    ints = {}
    for st in _flat(body):
        if isinstance(st, ast.Assign) and len(st.targets) == 1 and isinstance(st.targets[0], ast.Name):
            v = _int_attr(st.value, {**table, **ints})
            if v is not None:
                ints[st.targets[0].id] = v
    table = {**table, **ints}
    if isinstance(rhs, ast.Name):
        d = _def_of(rhs.id, body)
        folds = [st for st in _flat(body) if (isinstance(st, ast.AugAssign) and isinstance(st.op, ast.Add) and isinstance(st.target, ast.Subscript)
                                               and src(st.target.value) == rhs.id)
                 or (isinstance(st, ast.Assign) and isinstance(st.targets[0], ast.Subscript) and src(st.targets[0].value) == rhs.id)]
        if d is not None and d[2] is None:
            node = d[0]
            inner, fresh = _copy_or_view(d[1])
            base = _slice_bounds(inner, table, N + P)
            from_int = isinstance(inner, ast.Subscript) and src(inner.value) in INTEGRALS
            whole = src(inner) in INTEGRALS
            if (from_int and base is not None) or whole:
                lo, hi = base if base is not None else (sp.Integer(0), N + P)
                if not (_same(lo, 0) and _same(hi, N)):
                    bad = (f"the right-hand side starts from the integrals [{lo}, {hi}) instead of the n = nbasis integrals [0, n): the "
                           "periodic system has n unknowns, one per distinct basis function")
                elif not folds:
                    bad = ("the integrals of the p wrapped copies (entries n..n+p-1) are never added to the first p entries: because "
                           "c[n+i] = c[i] each of the first p coefficients multiplies two integrals, and the weights lose the second")
                else:
                    f = folds[0]
                    node = f
                    tgt = f.target if isinstance(f, ast.AugAssign) else f.targets[0]
                    val = f.value
                    if isinstance(f, ast.Assign):
                        # R[a:b] = R[a:b] + X
                        if isinstance(val, ast.BinOp) and isinstance(val.op, ast.Add) and src(val.left) == src(tgt):
                            val = val.right
                        elif isinstance(val, ast.BinOp) and isinstance(val.op, ast.Add) and src(val.right) == src(tgt):
                            val = val.left
                        else:
                            val = None
                    tb = _slice_bounds(tgt, table, N)
                    rev = val is not None and isinstance(val, ast.Subscript) and isinstance(val.slice, ast.Slice) and val.slice.step is not None
                    vb = _slice_bounds(val, table, N + P) if val is not None and not rev else None
                    v_from = val is not None and isinstance(val, ast.Subscript) and (src(val.value) in INTEGRALS)
                    if rev:
                        bad = (f"`{src(f)}` adds the integrals of the wrapped copies in another order (`{src(val)}`): entry n+i is the "
                               "wrapped copy of basis function i, so it must be added to entry i")
                    elif tb is None or vb is None or not v_from:
                        bad = None
                    elif not (_same(tb[0], 0) and _same(tb[1], P) and _same(vb[0], N) and _same(vb[1], N + P)):
                        bad = (f"`{src(f)}` adds the integrals [{vb[0]}, {vb[1]}) onto the entries [{tb[0]}, {tb[1]}): the wrapped copies are "
                               "the entries [n, n+p) and belong to the first p basis functions [0, p)")
                    elif fresh is False:
                        bad = (f"`{src(d[0])[:80]}` does not copy: the fold `{src(f)}` adds the wrapped integrals into the integrals stored in "
                               "the basis - the first call is right, every later request (any interpolator on this basis) adds them again")
                    elif fresh:
                        ok = True
    elif rhs is not None and (src(rhs) in INTEGRALS or (isinstance(rhs, ast.Subscript) and src(rhs.value) in INTEGRALS)):
        bad = ("the transposed solve receives the stored integrals without the fold of the wrapped copies: the periodic system has n "
               "unknowns and each of the first p of them multiplies two integrals")
    chk.pat("Q2-periodic-fold", node, "I[:n] (copy) with I[n:] added onto the first p entries", ok,
            "because c[n+i] = c[i], the integrals of the p wrapped copies are added to the first p basis integrals, on a copy", bad,
            file=U.INTERP, func=QF)


# --------------------------------------------------------------------------
BI = "BSplines._build_integrals"
NC, D = sp.Symbol("ncells", integer=True, positive=True), sp.Symbol("d", integer=True, positive=True)


def _space_table(periodic):
    t = {}
    for a in ("ncells", "_ncells"):
        t[f"self.{a}"] = NC
    for a in ("degree", "_degree"):
        t[f"self.{a}"] = D
    for a in ("nbasis", "_nbasis"):
        t[f"self.{a}"] = NC if periodic else NC + D
    return t


def _facts(cu, per):
    return {"self.cubic_uniform": cu, "self._cubic_uniform_splines": cu, "self.periodic": per, "self._periodic": per}


def _is_integrals(e):
    return src(e) in ("self._integrals", "self.integrals")


def uniform_cubic_integrals(chk):
    smod = chk.mod(U.SPLINES)
    fn = chk.func(U.SPLINES, BI)
    bodies = {(cu, per): Specialiser(smod, "BSplines", facts=_facts(cu, per)).run("_build_integrals")
              for cu in (True, False) for per in (True, False)}
    # ---- storage: ncells + degree entries on every kind of space
    okh, badh, node = True, None, fn
    for (cu, per), body in bodies.items():
        table = _space_table(per)
        allocs = [st for st in _flat(body) if isinstance(st, ast.Assign) and _is_integrals(st.targets[0]) and isinstance(st.value, ast.Call)
                  and src(st.value.func) in ("np.empty", "np.zeros", "np.ones", "np.full") and st.value.args]
        if len(allocs) != 1:
            okh = None if okh else okh
            continue
        size = _int_attr(allocs[0].value.args[0], table)
        if size is None:
            okh = None if okh else okh
        elif not _same(size, NC + D):
            okh, node = False, allocs[0]
            badh = (f"`{src(allocs[0])}` has {size} entries on a {'periodic' if per else 'clamped'} space: the integrals are those of the "
                    "ncells + degree unwrapped basis functions (on a periodic space the degree wrapped copies included)")
    chk.ob("Q3-integrals-storage", node, "integrals array has ncells + degree entries (unwrapped basis functions)", okh,
           "" if okh else (badh or "allocation of the integrals array not recognised"), file=U.SPLINES, func=BI, nontrivial=False)
    # ---- periodic uniform cubic: dx for the n functions, 0 for the wrapped copies
    body = bodies[(True, True)]
    table = _space_table(True)
    dxs = set()
    for st in _flat(body):
        if isinstance(st, ast.Assign) and isinstance(st.targets[0], ast.Tuple) and len(st.targets[0].elts) == 4 and src(st.value) in ("self.knots", "self._knots") \
                and isinstance(st.targets[0].elts[2], ast.Name):
            dxs.add(st.targets[0].elts[2].id)
        if isinstance(st, ast.Assign) and isinstance(st.targets[0], ast.Name) and src(st.value) in ("self.knots[2]", "self._knots[2]"):
            dxs.add(st.targets[0].id)
    seg = {"first": None, "wrapped": None}       # value of the entries [0, n) and [n, n+3)

    def fill_value(e):
        if (isinstance(e, ast.Name) and e.id in dxs) or src(e) in ("self.knots[2]", "self._knots[2]"):
            return "dx"
        if isinstance(e, ast.Constant) and e.value == 0 and not isinstance(e.value, bool):
            return "0"
        return None
    for st in _flat(body):
        if isinstance(st, ast.Assign) and _is_integrals(st.targets[0]) and isinstance(st.value, ast.Call):
            f = src(st.value.func)
            if f == "np.zeros":
                seg["first"] = seg["wrapped"] = "0"
            elif f == "np.full" and len(st.value.args) >= 2 and fill_value(st.value.args[1]):
                seg["first"] = seg["wrapped"] = fill_value(st.value.args[1])
    okper, badper = None, None
    stores = [st for st in _flat(body) if isinstance(st, ast.Assign) and isinstance(st.targets[0], ast.Subscript) and _is_integrals(st.targets[0].value)]
    other = [st for st in _flat(body) if isinstance(st, ast.AugAssign) and isinstance(st.target, ast.Subscript) and _is_integrals(st.target.value)]
    decided = (bool(stores) or seg["first"] is not None) and not other
    for st in stores:
        b = _slice_bounds(st.targets[0], table, NC + D)
        v = fill_value(st.value)
        if b is None or v is None:
            decided = False
            break
        lo, hi = b
        if _same(lo, 0) and _same(hi, NC + D):
            seg["first"] = seg["wrapped"] = v
        elif _same(lo, 0) and _same(hi, NC):
            seg["first"] = v
        elif _same(lo, NC) and _same(hi, NC + D):
            seg["wrapped"] = v
        else:
            decided = False
            break
    if decided:
        if seg["first"] == "dx" and seg["wrapped"] == "0":
            okper = True
        else:
            okper = False
            badper = (f"on a periodic uniform cubic space the n basis functions get `{seg['first']}` and the wrapped copies `{seg['wrapped']}`: "
                      "every function integrates to dx and the wrapped copies must carry 0, because the quadrature folds them onto the "
                      "first entries (a non-zero value is counted twice, an unset one is garbage)")
    chk.ob("Q3-uniform-cubic", stores[0] if stores else fn, "periodic uniform cubic: dx for the n functions, 0 for the wrapped copies", okper,
           "every periodic uniform cubic B-spline integrates to dx; the wrapped copies carry nothing extra" if okper else
           (badper or "periodic uniform-cubic integrals not recognised"), file=U.SPLINES, func=BI)
    # ---- clamped uniform cubic: every function starts from the full integral dx and loses what lies outside the domain, at both ends
    cu = bodies[(True, False)]
    V = ["dx", "values"]          # the names of these two locals are free, but they must be the cell size / the basis values
    dx_names = set()
    for st in _flat(cu):
        if isinstance(st, ast.Assign) and isinstance(st.targets[0], ast.Tuple) and len(st.targets[0].elts) == 4 and \
                src(st.value) in ("self.knots", "self._knots") and isinstance(st.targets[0].elts[2], ast.Name):
            dx_names.add(st.targets[0].elts[2].id)
        if isinstance(st, ast.Assign) and isinstance(st.targets[0], ast.Name) and src(st.value) in ("self.knots[2]", "self._knots[2]"):
            dx_names.add(st.targets[0].id)
    val_names = {src(c.args[4]) for st in _flat(cu) for c in own_exprs(st) if isinstance(c, ast.Call) and src(c.func) == "nu_basis_funs"
                 and len(c.args) >= 5}

    def has(fragment):
        b = find(cu, fragment, vars=V)
        return b is not None and b.get("dx", next(iter(dx_names), None)) in dx_names and ("values" not in b or b["values"] in val_names)
    okint = has("self._integrals[:] = dx") or contains(cu, "self._integrals[:] = self.knots[2]")
    old_int = has("self._integrals[d:-d] = dx") or has("self._integrals[self.degree:-self.degree] = dx") or has("self._integrals[3:-3] = dx")
    chk.pat("Q3-uniform-cubic", fn, "clamped uniform cubic: all integrals start from dx", okint,
            "a cardinal cubic B-spline integrates to dx; boundary functions lose the part outside the domain (next rule)",
            ("only the interior entries `[d:-d]` are set to dx: with fewer than three cells there is no interior and a function that "
             "reaches both boundaries gets one end's value only") if old_int and not okint else None,
            file=U.SPLINES, func=BI)
    # auxiliary construction: knots = linspace(x0, x0 + 11 dx, 12), test point = x0 + 4 dx  (same origin x0)
    xmin, dx = sp.symbols("xmin dx", real=True)
    aux = [c for st in _flat(cu) for c in own_exprs(st) if isinstance(c, ast.Call) and src(c.func) == "nu_basis_funs" and len(c.args) >= 3]
    ok = None
    why = "auxiliary knot vector / test point not found"
    kn_node = None

    def affine_knots(v, n_):
        """(first knot, spacing) of a uniform knot vector expression, or None"""
        if isinstance(v, ast.Call) and src(v.func) == "np.linspace" and len(v.args) == 3:
            a, b, cnt = n_.ev(v.args[0]), n_.ev(v.args[1]), n_.ev(v.args[2])
            return a, (b - a) / (cnt - 1)
        if isinstance(v, ast.Call) and src(v.func) == "np.arange" and len(v.args) == 1:
            return sp.Integer(0), sp.Integer(1)
        if isinstance(v, ast.BinOp) and isinstance(v.op, ast.Mult):
            for x, y in ((v.left, v.right), (v.right, v.left)):
                k = affine_knots(y, n_)
                if k is not None:
                    f = n_.ev(x)
                    return k[0] * f, k[1] * f
        if isinstance(v, ast.BinOp) and isinstance(v.op, (ast.Add, ast.Sub)):
            kl = affine_knots(v.left, n_)
            if kl is not None:
                o = n_.ev(v.right)
                return (kl[0] + o, kl[1]) if isinstance(v.op, ast.Add) else (kl[0] - o, kl[1])
            kr = affine_knots(v.right, n_)
            if kr is not None and isinstance(v.op, ast.Add):
                return kr[0] + n_.ev(v.left), kr[1]
        return None

    if aux:
        call = aux[0]
        st_of = next(st for st in _flat(cu) if any(c is call for c in own_exprs(st)))

        def resolve(e, depth=0):
            if isinstance(e, ast.Name) and depth < 4:
                d_ = _def_of(e.id, cu, st_of)
                if d_ is not None and d_[2] is None:
                    return d_[0], d_[1]
            return None, e
        kn_node, kv = resolve(call.args[0])
        _, tv = resolve(call.args[2])
        env = {"xmin": xmin, "dx": dx}
        # the names the unpacking of self.knots gives to xmin and dx
        for st in _flat(cu):
            if isinstance(st, ast.Assign) and isinstance(st.targets[0], ast.Tuple) and len(st.targets[0].elts) == 4 and \
                    src(st.value) in ("self.knots", "self._knots"):
                a0, a2 = st.targets[0].elts[0], st.targets[0].elts[2]
                if isinstance(a0, ast.Name):
                    env[a0.id] = xmin
                if isinstance(a2, ast.Name):
                    env[a2.id] = dx
        n_ = NpSym(env=env, hooks={"self.knots[0]": xmin, "self.knots[2]": dx, "self._knots[0]": xmin, "self._knots[2]": dx})
        try:
            ak = affine_knots(kv, n_)
            if ak is None:
                raise Undecided(f"knot vector `{src(kv)}` is not a recognised uniform construction")
            a, step_ = ak
            t = n_.ev(tv)
            spacing = alg_equal(step_, dx)
            rel = alg_equal(t - a, 4 * dx)
            ok = bool(spacing and rel)
            why = ("the auxiliary uniform knot vector has spacing dx and the evaluation point is 4 cells from ITS first knot: the "
                   "boundary integrals do not depend on where the domain starts") if ok else \
                (f"auxiliary knots start at {a} with spacing {step_}, evaluation point {t}: the point is {sp.simplify(t - a)} "
                 "from the first knot instead of 4 dx - for a domain that does not start at the knot origin the boundary integrals are wrong")
        except Undecided as e:
            ok, why = None, f"not extractable: {e}"
    chk.ob("Q3-uniform-cubic", kn_node if kn_node is not None else fn, "auxiliary knots and test point share one origin", ok, why, file=U.SPLINES,
           func=BI)
    okb = has("for i in range(3):\n    outside = dx * sum(values[:3 - i])\n    self._integrals[i] -= outside\n    self._integrals[-i - 1] -= outside") or \
        has("for i in range(3):\n    self._integrals[i] -= dx * sum(values[:3 - i])\n    self._integrals[-i - 1] -= dx * sum(values[:3 - i])") or \
        has("for i in range(3):\n    outside = dx * np.sum(values[:3 - i])\n    self._integrals[i] -= outside\n    self._integrals[-i - 1] -= outside")
    assigned = [st for st in _flat(cu) if isinstance(st, ast.For) and
                [x for x in ast.walk(st) if isinstance(x, ast.Assign) and isinstance(x.targets[0], ast.Subscript) and _is_integrals(x.targets[0].value)
                 and src(x.targets[0].slice).replace(" ", "") in ("i", "-i-1", "-1-i", "-(i+1)")
                 and not any(_is_integrals(y) for y in ast.walk(x.value))]]
    chk.pat("Q3-uniform-cubic", fn, "boundary functions lose the part outside the domain, symmetrically, by subtraction", okb,
            "the three functions cut by each boundary lose dx x (the mass outside), subtracted at both ends so that a function cut by "
            "both boundaries (1 or 2 cells) loses both parts",
            ("the boundary integrals are assigned, not reduced: with one or two cells the assignments of the two ends overwrite each "
             "other and the stored integrals (hence the weights) are wrong") if assigned and not okb else None,
            file=U.SPLINES, func=BI)
    # ---- general branch: one formula for every unwrapped function, the wrapped copies of a periodic space included
    gen = bodies[(False, True)]
    table = _space_table(True)
    loops = [st for st in _flat(gen) if isinstance(st, ast.For) and
             any(isinstance(x, ast.Assign) and isinstance(x.targets[0], ast.Subscript) and _is_integrals(x.targets[0].value) for x in ast.walk(st))]
    okw, badw = False, None
    if loops and isinstance(loops[0].iter, ast.Call) and src(loops[0].iter.func) == "range" and len(loops[0].iter.args) == 1 \
            and isinstance(loops[0].target, ast.Name):
        iv = loops[0].target.id
        rng = _int_attr(loops[0].iter.args[0], table)
        stores = [x for x in ast.walk(loops[0]) if isinstance(x, ast.Assign) and isinstance(x.targets[0], ast.Subscript) and
                  _is_integrals(x.targets[0].value) and src(x.targets[0].slice) == iv]
        if rng is not None and _same(rng, NC + D) and len(stores) == 1:
            okw = True
        elif rng is not None and _same(rng, NC):
            mirror = [x for st in _flat(gen) if isinstance(st, ast.Assign) and isinstance(st.targets[0], ast.Subscript)
                      and _is_integrals(st.targets[0].value) and isinstance(st.value, ast.Subscript) and _is_integrals(st.value.value)
                      for x in [st]]
            if mirror:
                badw = (f"`{src(mirror[0])}` copies the integrals of the wrapped functions from the first ones in reverse order: that "
                        "is their value only when the break points are symmetric (uniform grids); on a periodic non-uniform space "
                        "the stored integrals, and the quadrature weights, are wrong (weights do not sum to the domain length)")
            elif len(loops) == 1:
                badw = ("only the first nbasis integrals are computed: on a periodic space the wrapped functions ncells..ncells+d-1 "
                        "keep uninitialised values")
    chk.pat("Q3-integrals-storage", loops[0] if loops else fn, "general: for i in range(self.ncells + d) with one formula", okw,
            "every unwrapped basis function, the wrapped copies of a periodic space included, is integrated by the same antiderivative "
            "identity", badw, file=U.SPLINES, func=BI)


def integrals_not_memoised_on_summary(chk):
    """the stored integrals are a function of ALL break points: a memo table may not be keyed on a summary of them"""
    fn = chk.func(U.SPLINES, BI)
    hits = []
    for n in ast.walk(fn):
        if isinstance(n, ast.If) and isinstance(n.test, ast.Compare) and len(n.test.ops) == 1 and isinstance(n.test.ops[0], (ast.In, ast.NotIn)):
            # a table looked up by a key: the integrals are taken from it on one arm
            arm = n.body if isinstance(n.test.ops[0], ast.In) else n.orelse
            table = src(n.test.comparators[0])
            takes = [x for st in arm for x in ast.walk(st) if isinstance(x, ast.Subscript) and src(x.value) == table] or \
                [x for x in ast.walk(fn) if isinstance(x, ast.Subscript) and src(x.value) == table and isinstance(x.ctx, ast.Load)]
            if not takes:
                continue
            key = n.test.left
            if isinstance(key, ast.Name):
                d = [a for a in ast.walk(fn) if isinstance(a, ast.Assign) and src(a.targets[0]) == key.id]
                key = d[0].value if len(d) == 1 else key
            # local names of the key that stand for the break points / knots
            arrs = {}
            for a in ast.walk(fn):
                if isinstance(a, ast.Assign) and isinstance(a.targets[0], ast.Name) and src(a.value).split(".")[-1] in ("breaks", "knots", "_knots", "_breaks"):
                    arrs[a.targets[0].id] = src(a.value)
            def is_pts(e):
                s_ = src(e)
                return s_.split(".")[-1] in ("breaks", "knots", "_knots", "_breaks") or s_ in arrs
            # entries of the key that pick single elements of an array of break points / knots
            picks = [x for x in ast.walk(key) if isinstance(x, ast.Subscript) and isinstance(x.slice, (ast.Constant, ast.UnaryOp))
                     and is_pts(x.value)]
            whole = [x for x in ast.walk(key) if (isinstance(x, ast.Call) and src(x.func) in ("tuple", "bytes") and x.args and is_pts(x.args[0])) or
                     (isinstance(x, ast.Call) and isinstance(x.func, ast.Attribute) and x.func.attr in ("tobytes", "tostring") and is_pts(x.func.value))]
            hits.append((n, key, picks, whole))
    bad = [(n, key, picks) for n, key, picks, whole in hits if picks and not whole]
    chk.ob("Q3-integrals-not-memoised", bad[0][0] if bad else fn, "no memo table keyed on a summary of the break points",
           (not bad) if (not hits or bad or all(w for _, _, _, w in hits)) else None,
           "the integrals are computed from the knots of this very space" if not bad else
           f"the integrals are taken from a table keyed on `{src(bad[0][1])[:90]}`: the key holds only {[src(p_) for p_ in bad[0][2]]} of the "
           "break points, so a non-uniform space built after another one with the same ends, first cell and cell count receives that "
           "other space's integrals and its quadrature weights no longer integrate its splines",
           file=U.SPLINES, func=BI, nontrivial=False)


def run(chk):
    chk.explanation = (
        "Narrow mechanism claim: quadrature weights are the transposed solve, with the interpolation factorisation, of the stored "
        "basis integrals (periodic: integrals of the wrapped copies folded onto the first p entries of a copy); the stored integrals "
        "are not mutated; uniform-cubic interior integrals are dx and the auxiliary construction of the boundary integrals is "
        "translation invariant; boundary integrals of the clamped uniform cubic case are reduced (not assigned) at both ends; the "
        "general branch integrates every unwrapped function, wrapped copies included, by one formula. Each method is read as the "
        "straight-line code it is on one kind of space (branches on periodicity / family resolved, attribute aliases and private "
        "helper methods written back). The antiderivative identity itself is numerical and is not re-derived.")
    chk.in_file(U.INTERP)
    weights_mechanism(chk)
    uniform_cubic_integrals(chk)
    integrals_not_memoised_on_summary(chk)
    chk.floor("Q", 9)
