"""C19 - accelerated kernels compute the same results as the pure-Python reference.

Decides: the documented build front end accepts the five kernels of the working tree
(compile-fail witness: pyccel translation on a scratch copy); every library call site of a
kernel fits its signature; the numba/pythran source copies define what their consumers import,
bind the calls written for the reference the same way (V1), declare export signatures of the
function's arity and of the reference's argument types (V2), the duplicated copies agree (V3),
no copy writes an array the reference declares Final (V5), and every variant body (V4) is
 - AST-identical to the reference (decorators, annotations, docstrings, imports stripped), or
 - identical in canonical form (single-assignment temporaries / hoisted invariants / module
   constants written back, result variable vs early return, `if` arms with one body,
   enumerate vs range loops, shape unpacking, `+=`, literal negative indices, operand order), or
 - proved equal to the same specification formula as the reference (engine F), or
 - statement for statement the same with every differing expression equal as a rational
   function of its operands;
a body with the same statements and a recognisably different expression is VIOLATED (the
diagnosis names the two expressions), anything else is UNDECIDED - never silently accepted.
Relational steps of V4 (both sides extracted, then compared with each other):
 - engine G: a loop-free function (scalar value functions, procedures storing single elements) is a table of guarded values
   (paths, linear path conditions, returned values and stored elements); reference and copy agree when the values are equal on
   every jointly satisfiable pair of paths (Fourier-Motzkin elimination, integers tightened, int() tied to its argument); a
   satisfiable pair with different values is VIOLATED with the region and both values quoted;
 - a local / loop counter defined with a constant shift and used with the compensating shift everywhere is the same function
   (HOLDS); a use that does not follow the shift is VIOLATED; an array whose axes are permuted consistently in every access is
   another memory layout (local scratch array: HOLDS; parameter: UNDECIDED, depends on the callers); nests of independent
   loops are compared in one order; an elementwise scratch vector (T[:] = E(A); ... T[k]) is compared as its element formula
   E(A[k]); keyword arguments of calls are put at their positions; optional parameters that only the reference has and no
   library call passes are bound to their defaults before the comparison.
Pass 3 (round 5) added, all applied to BOTH sides before they are compared with each other:
 - iteration headers: enumerate(X), enumerate(X[a:]), enumerate(X, s) are index loops with the element fetched first; range(n),
   range(0, n), range(0, n, 1) are compared part by part;
 - view aliases: Y = X / Y = X.real / Y = X.imag (a local bound once to a parameter) is written back; X.real of an array declared
   real is X; a store through `.real` against a store into the element is VIOLATED only when the declared type (TypeVar
   alternatives written out) admits complex storage;
 - ONE conditional shift of a period (`if x >= H: x -= A` / `if x < L: x += B`, chained, in a row, or as conditional
   expressions) is named wrap_once_(...): against a reduction `x % A` of the other side it is a DIFFERENT function when x is built
   from input data (VIOLATED, both sides quoted), UNDECIDED when x is bounded by construction;
 - element programs: functions that only fill arrays element by element are compared with their index loops removed (same
   program of one element, same ranges): loop fission / fusion / interchange of the index loops around a reduction HOLDS;
 - case analysis on mode parameters (integer/boolean arguments only compared with literals): reference and copy are specialised
   to every region of the mode (comparisons decided, dead arms removed, boolean locals propagated) and compared case by case: a
   dispatch moved into / out of a loop, merged or duplicated arms HOLD; a case in which the specialised bodies correspond
   statement by statement and an expression differs is VIOLATED for that mode;
 - the span convention of cu_find_span is a matter between the search and the evaluators of ONE module: an evaluator of a copy is
   proved against the specification with the search of its own module, the searches are compared with each other separately.
V1 and I1 bind the actual library calls (with `*seq` / `**mapping` written out from their literal, a comprehension over a literal
sequence or class-level constant written out element by element): VIOLATED names the call that does not bind; a starred argument
that cannot be followed is UNDECIDED.  Kernels selected through a small table (namedtuple / keyword record / dict display whose
entries are kernel functions) are followed: `X.field(...)` / `X['key'](...)` is a call of every kernel stored under that field.
B1-makefile-targets reads the kernel rules by role: an explicit rule, a static pattern rule or a pattern rule whose target list
(variables, addsuffix / addprefix written out) contains the kernel, each building it from $(NAME_PREFIX)<kernel>.py.
Periodic wraps have three named forms - reduction `%`, loops over whole periods wrap_loops_(x, L, strict, H, strict, P, order), one
conditional shift wrap_once_(...) - which are compared with each other by their parameters (half-open against closed range: a
point exactly on H; one shift against many: a displacement of more than a period), VIOLATED only when x is input data.
K1: no index that interpreted Python would wrap around and compiled code would not (X - Y % n,
one-sided or single-step range correction of a difference, unreduced difference of array data,
index counted from the end by a variable; also when the index goes through a local table filled in the kernel, or is computed by
the callers as an unreduced difference of table data and handed in); an index that is an ENTRY of an integer table handed in by the callers (nothing
subtracted in the kernel) is decided with the callers: HOLDS when every library call (through forwarding wrappers) passes
values that are non-negative by construction (`% n`, abs, arange, sums of such), UNDECIDED otherwise.
K2: no loop counter read after its loop (a loop with `break`: VIOLATED in the pyccel sources when the loop can run to its end after at
    least one sweep - stop chosen by the caller or a positive literal, every `break` waiting for an inequality against a float argument on
    which nothing else in the loop depends (`_exhaustion_reachable`, dependence closure `_dependants`) - otherwise UNDECIDED).
K3: no array argument of a pyccel kernel is re-bound as a whole (`X = E`): Python binds a new local array, compiled code assigns in
place into the caller's array.
Numerical equality of compiled and interpreted results is inherently dynamic: not decided.
Pass 4 (soundness audit; every VIOLATED site carries an `AUDIT` comment with the assumptions of its diagnosis, and checks them):
 - "different as formulas" is a statement about polynomials over INDEPENDENT atoms: symbols and array elements are; applications of
   uninterpreted functions (int, abs, %, //, attributes such as X.size, kernel calls) support a difference only when both sides
   contain the SAME applications (abs(a - b) / abs(b - a), (i + n) % n / i % n, X.size / X.shape[0] are undecided or proved by a law:
   whole multiples of the modulus are taken out of `%`, min / max are symmetric), except one application recognisably shifted
   ((E + c) % n against E % n) or one unchanged kernel with a recognisably different argument; numeric agreement at positive values
   only is undecided; two call names are two functions only when both are kernels of both modules; `p and q` against `p or q` only
   with equal operands; opposite loop directions are undecided; `if a != b: A else: B` is paired with `if a == b: B else: A`;
 - differences that feed one another (a definition and its uses, target and value of one store, a loop range together with another
   statement - peeled iterations) are one possible change of convention: undecided unless the constant-shift / axis-permutation
   forms decide them; an axis permutation must turn every recognised difference into an equality;
 - caller + callee are one unit: a call of a helper that is itself written differently in the copy decides nothing; a differing
   helper that only kernels of its own module call, all of them differing too, is undecided (its callers' verdicts stand);
 - a VIOLATED verdict of the specification engines (C07 / C12) is used only when the flagged body has no library call / unusual
   construct that its passing counterpart lacks (found by probe: `norm = max(diff, norm)`);
 - engine G needs a readable declared type for every parameter (regions are decided over the reals except for known integers);
 - V1: a name bound at module level by assignment / import is defined; calls inside the reference module itself are no evidence that
   a call "does not bind in the copy"; `obj.name(...)` is a kernel call only on a kernel-module alias; a plain name is the kernel only
   when imported from a kernel module (a library function of the same name is another function);
 - V3: a private helper in one duplicate only is undecided; f_eq: a difference `simplify` leaves is checked numerically;
 - K1: every violation goes through `claim`: the index expression must consist of modelled arithmetic (no call / conditional
   expression) and some use must be reached unconditionally as far as the index is concerned (no enclosing test, no earlier
   `if ...: continue / return`); an unreduced difference computed by the CALLERS is undecided (its sign is a property of the data);
 - B1-makefile-targets reads the rules that are active for ACC=pycc (ifeq / ifneq on $(ACC) evaluated) and calls a rule wrong only
   when its recipe compiles `$<`;
 - `*self.attr` is followed into a property (plain / cached, also of a base class or mixin of the same module) returning a display;
 - "both bodies satisfy the specification formula" proves them equal only for what the formula speaks about: when the two bodies
   compare the same input data with different operators (`r > rMax` / `r >= rMax`: a point exactly on the boundary) or test a mode
   parameter against different literals (a mode only one of them has), they are compared directly as well;
 - V2-export-types: only another rank or a NARROWER exported kind (bool for int, int for float) is a violation, a wider one undecided;
 - negations are pushed down to the comparisons, chained comparisons split, `x in (a, b)` written as equalities, X.size of a vector
   as X.shape[0] (both sides, before anything is compared).
"""
from __future__ import annotations

import ast
import os
import re
import shutil
import subprocess
import tempfile
from concurrent.futures import ThreadPoolExecutor

from ..core import src, AnalysisError, parent, REPO
from .. import units as U
from .. import agree
from ..symx import Undecided

BUILD_ORDER = [U.NU, U.CU, U.INITF, U.ADVK, U.PTOOLS]


def norm_fn(fn: ast.FunctionDef) -> str:
    f = ast.parse(ast.unparse(fn)).body[0]
    f.decorator_list = []
    f.returns = None
    for a in f.args.args + f.args.kwonlyargs:
        a.annotation = None
    if f.body and isinstance(f.body[0], ast.Expr) and isinstance(f.body[0].value, ast.Constant) and isinstance(f.body[0].value.value, str):
        f.body = f.body[1:] or [ast.Pass()]
    f.body = [s for s in f.body if not isinstance(s, (ast.Import, ast.ImportFrom))] or [ast.Pass()]
    return ast.dump(f)


# ---------------------------------------------------------------------------------------------------------
# canonical form of a kernel body (engine-free, semantics-preserving source-to-source steps applied to BOTH
# sides of a comparison): undoes hoisted invariants / common-subexpression temporaries, result variables,
# shape unpacking, merged or split `if` arms with the same body, augmented assignments, operand order.
# ---------------------------------------------------------------------------------------------------------

_MATH_PURE = {"exp", "sqrt", "abs", "int", "float", "real", "floor", "ceil", "tanh", "cos", "sin", "tan", "min", "max", "len",
              "log", "arctan2", "arccos", "arcsin", "mod", "fabs"}


# calls that do not write into their arguments (but are not values to be duplicated: allocation, iteration)
_NO_WRITE = {"range", "enumerate", "zip", "empty", "zeros", "ones", "empty_like", "zeros_like", "ones_like", "print"}


def pure_functions(chk):
    """kernel functions that only compute a value: no store into a parameter, no procedure-style call statement"""
    flags: dict[str, list] = {}
    for k in list(U.KERNELS) + [v for vs in U.VARIANTS.values() for v in vs]:
        for q, fn in chk.mod(k).functions().items():
            if "." in q:
                continue
            params = {a.arg for a in fn.args.args}
            writes = False
            for n in ast.walk(fn):
                if isinstance(n, (ast.Subscript, ast.Attribute)) and isinstance(n.ctx, ast.Store):
                    b = n
                    while isinstance(b, (ast.Subscript, ast.Attribute)):
                        b = b.value
                    if isinstance(b, ast.Name) and b.id in params:
                        writes = True
                elif isinstance(n, ast.Expr) and isinstance(n.value, ast.Call):
                    writes = True
                elif isinstance(n, (ast.Global, ast.Nonlocal)):
                    writes = True
            has_value = any(isinstance(n, ast.Return) and n.value is not None for n in ast.walk(fn))
            flags.setdefault(q, []).append(has_value and not writes)
    # a name counts as pure only when every definition of it (reference and copies) is
    return set(_MATH_PURE) | {q for q, fl in flags.items() if all(fl)}


def _strip(fn: ast.FunctionDef) -> ast.FunctionDef:
    f = ast.parse(ast.unparse(fn)).body[0]
    f.decorator_list = []
    f.returns = None
    for a in f.args.args + f.args.kwonlyargs:
        a.annotation = None

    class T(ast.NodeTransformer):
        def visit_AnnAssign(self, n):
            self.generic_visit(n)
            if n.value is None:
                return None
            return ast.Assign(targets=[n.target], value=n.value)

        def visit_AugAssign(self, n):
            self.generic_visit(n)
            tl = ast.parse(ast.unparse(n.target), mode="eval").body
            return ast.Assign(targets=[n.target], value=ast.BinOp(left=tl, op=n.op, right=n.value))

        def visit_Call(self, n):
            self.generic_visit(n)
            # len(X) of an array is its first extent; range(0, n) is range(n)
            if isinstance(n.func, ast.Name) and n.func.id == "len" and len(n.args) == 1 and isinstance(n.args[0], ast.Name) and not n.keywords:
                return ast.Subscript(value=ast.Attribute(value=n.args[0], attr="shape", ctx=ast.Load()), slice=ast.Constant(0), ctx=ast.Load())
            if isinstance(n.func, ast.Name) and n.func.id == "range" and len(n.args) == 2 and isinstance(n.args[0], ast.Constant) \
                    and n.args[0].value == 0:
                n.args = [n.args[1]]
            return n

        def visit_Subscript(self, n):
            self.generic_visit(n)
            # a literal negative index counts from the end (both Python and pyccel): X[-c] is X[X.shape[k] - c]
            if isinstance(n.value, ast.Name):
                items = n.slice.elts if isinstance(n.slice, ast.Tuple) else [n.slice]
                new = []
                for k, it in enumerate(items):
                    c = None
                    if isinstance(it, ast.UnaryOp) and isinstance(it.op, ast.USub) and isinstance(it.operand, ast.Constant) \
                            and isinstance(it.operand.value, int) and it.operand.value > 0:
                        c = it.operand.value
                    elif isinstance(it, ast.Constant) and isinstance(it.value, int) and not isinstance(it.value, bool) and it.value < 0:
                        c = -it.value
                    if c is not None:
                        it = ast.BinOp(left=ast.Subscript(value=ast.Attribute(value=ast.Name(id=n.value.id, ctx=ast.Load()), attr="shape",
                                                                               ctx=ast.Load()), slice=ast.Constant(k), ctx=ast.Load()),
                                       op=ast.Sub(), right=ast.Constant(c))
                    new.append(it)
                if isinstance(n.slice, ast.Tuple):
                    n.slice.elts = new
                else:
                    n.slice = new[0]
            return n

        def visit_UnaryOp(self, n):
            self.generic_visit(n)
            # not (p and q) is (not p) or (not q); not (a < b) is b <= a (numbers that are not NaN): negations are pushed down to the
            # comparisons, so that one condition has one spelling
            if isinstance(n.op, ast.Not):
                neg = _negated(n.operand)
                if neg is not None:
                    return neg
            return n

        def visit_Compare(self, n):
            self.generic_visit(n)
            # a <= x < b is a <= x and x < b (the middle operand is a name / element / arithmetic: evaluating it twice changes nothing)
            if len(n.ops) > 1 and not any(isinstance(x, (ast.Call, ast.NamedExpr, ast.Await)) for c in n.comparators[:-1] for x in ast.walk(c)):
                parts, left = [], n.left
                for op, right in zip(n.ops, n.comparators):
                    parts.append(self.visit_Compare(ast.Compare(left=ast.parse(ast.unparse(left), mode="eval").body, ops=[op],
                                                                comparators=[ast.parse(ast.unparse(right), mode="eval").body])))
                    left = right
                return ast.BoolOp(op=ast.And(), values=parts)
            # x in (a,) is x == a;  x in (a, b) is x == a or x == b;  x not in (a, b) is x != a and x != b   (x a name, a, b numbers)
            if len(n.ops) == 1 and isinstance(n.ops[0], (ast.In, ast.NotIn)) and isinstance(n.left, ast.Name) \
                    and isinstance(n.comparators[0], (ast.Tuple, ast.List, ast.Set)) and 1 <= len(n.comparators[0].elts) <= 4 \
                    and all(_int_literal(x) is not None for x in n.comparators[0].elts):
                pos_ = isinstance(n.ops[0], ast.In)
                tests = [ast.Compare(left=ast.Name(id=n.left.id, ctx=ast.Load()), ops=[ast.Eq() if pos_ else ast.NotEq()], comparators=[x])
                         for x in n.comparators[0].elts]
                return tests[0] if len(tests) == 1 else ast.BoolOp(op=ast.Or() if pos_ else ast.And(), values=tests)
            if len(n.ops) == 1 and isinstance(n.ops[0], (ast.Gt, ast.GtE)):
                return ast.Compare(left=n.comparators[0], ops=[ast.Lt() if isinstance(n.ops[0], ast.Gt) else ast.LtE()], comparators=[n.left])
            return n
    f = T().visit(f)

    def clean(body):
        out = []
        for st in body:
            if isinstance(st, (ast.Import, ast.ImportFrom, ast.Pass)) or _is_docstring(st):
                continue
            # a, b = X.shape  ->  a = X.shape[0]; b = X.shape[1]
            if isinstance(st, ast.Assign) and len(st.targets) == 1 and isinstance(st.targets[0], ast.Tuple) \
                    and all(isinstance(e, ast.Name) for e in st.targets[0].elts) and isinstance(st.value, ast.Attribute) \
                    and st.value.attr == "shape" and isinstance(st.value.value, ast.Name):
                for k, e in enumerate(st.targets[0].elts):
                    out.append(ast.Assign(targets=[ast.Name(id=e.id, ctx=ast.Store())],
                                          value=ast.Subscript(value=ast.Attribute(value=ast.Name(id=st.value.value.id, ctx=ast.Load()),
                                                                                  attr="shape", ctx=ast.Load()),
                                                              slice=ast.Constant(k), ctx=ast.Load())))
                continue
            for fld in ("body", "orelse", "finalbody"):
                b = getattr(st, fld, None)
                if isinstance(b, list) and (not b or isinstance(b[0], ast.stmt)):
                    setattr(st, fld, clean(b))
            if isinstance(st, (ast.For, ast.While, ast.If)) and not st.body:
                st.body = [ast.Pass()]
            # for i, v in enumerate(X): ...   ->   for i in range(X.shape[0]): v = X[i]; ...
            #   for i, v in enumerate(X[a:]): ...  ->  for i in range(X.shape[0] - a): v = X[i + a]; ...      (a a literal >= 0)
            #   for i, v in enumerate(X, s): ...   ->  for i in range(s, X.shape[0] + s): v = X[i - s]; ...    (s a literal)
            en = _enumerate_header(st) if isinstance(st, ast.For) else None
            if en is not None:
                cnt, elt, arr, lo, start = en
                n_ = f"{arr}.shape[0]" + (f" - {lo}" if lo else "")
                rng = f"range({n_})" if not start else f"range({start}, {n_} + {start})"
                idx = cnt + (f" + {lo}" if lo else "") + (f" - {start}" if start else "")
                fetch = ast.parse(f"{elt} = {arr}[{idx}]").body[0]
                st = ast.For(target=ast.Name(id=cnt, ctx=ast.Store()), iter=ast.parse(rng, mode="eval").body,
                             body=[fetch] + st.body, orelse=[])
            # if not c: A else: B   ->   if c: B else: A
            if isinstance(st, ast.If) and isinstance(st.test, ast.UnaryOp) and isinstance(st.test.op, ast.Not) and st.orelse \
                    and not (len(st.orelse) == 1 and isinstance(st.orelse[0], ast.If)):
                st = ast.If(test=st.test.operand, body=st.orelse, orelse=st.body)
            out.append(st)
        return out
    f.body = clean(f.body) or [ast.Pass()]
    return ast.fix_missing_locations(f)


def _negated(e):
    """the negation of a condition with the `not` pushed down to its comparisons (None when e is not made of and / or / not /
    single comparisons with <, <=, >, >=, ==, !=)"""
    if isinstance(e, ast.UnaryOp) and isinstance(e.op, ast.Not):
        return e.operand
    if isinstance(e, ast.BoolOp):
        parts = [_negated(v_) for v_ in e.values]
        if any(p_ is None for p_ in parts):
            return None
        return ast.BoolOp(op=ast.Or() if isinstance(e.op, ast.And) else ast.And(), values=parts)
    if isinstance(e, ast.Compare) and len(e.ops) == 1:
        op = e.ops[0]
        l, r = e.left, e.comparators[0]
        # (`>` / `>=` were already turned round: the result stays in the `<` / `<=` form)
        if isinstance(op, ast.Lt):
            return ast.Compare(left=r, ops=[ast.LtE()], comparators=[l])
        if isinstance(op, ast.LtE):
            return ast.Compare(left=r, ops=[ast.Lt()], comparators=[l])
        if isinstance(op, ast.Gt):
            return ast.Compare(left=l, ops=[ast.LtE()], comparators=[r])
        if isinstance(op, ast.GtE):
            return ast.Compare(left=l, ops=[ast.Lt()], comparators=[r])
        if isinstance(op, ast.Eq):
            return ast.Compare(left=l, ops=[ast.NotEq()], comparators=[r])
        if isinstance(op, ast.NotEq):
            return ast.Compare(left=l, ops=[ast.Eq()], comparators=[r])
    return None


def _enumerate_header(st):
    """`for cnt, elt in enumerate(X)` / `enumerate(X[a:])` / `enumerate(X, s)` / `enumerate(X, start=s)` with X a name, a and s integer
    literals (a >= 0) -> (cnt, elt, X, a, s), else None"""
    it = st.iter
    if not (isinstance(it, ast.Call) and isinstance(it.func, ast.Name) and it.func.id == "enumerate" and 1 <= len(it.args) <= 2
            and isinstance(st.target, ast.Tuple) and len(st.target.elts) == 2 and all(isinstance(e, ast.Name) for e in st.target.elts)
            and not st.orelse):
        return None

    def lit(e):
        if isinstance(e, ast.UnaryOp) and isinstance(e.op, ast.USub):
            v_ = lit(e.operand)
            return None if v_ is None else -v_
        if isinstance(e, ast.Constant) and isinstance(e.value, int) and not isinstance(e.value, bool):
            return e.value
        return None
    start = 0
    extra = list(it.args[1:]) + [k.value for k in it.keywords if k.arg == "start"]
    if len(extra) > 1 or len(it.keywords) != len([k for k in it.keywords if k.arg == "start"]):
        return None
    if extra:
        start = lit(extra[0])
        if start is None:
            return None
    seq, lo = it.args[0], 0
    if isinstance(seq, ast.Subscript) and isinstance(seq.slice, ast.Slice) and seq.slice.upper is None and seq.slice.step is None \
            and seq.slice.lower is not None:
        lo = lit(seq.slice.lower)
        if lo is None or lo < 0:
            return None
        seq = seq.value
    if not isinstance(seq, ast.Name):
        return None
    cnt, elt = st.target.elts[0].id, st.target.elts[1].id
    if len({cnt, elt, seq.id}) != 3:
        return None
    return cnt, elt, seq.id, lo, start


def _is_docstring(st):
    return isinstance(st, ast.Expr) and isinstance(st.value, ast.Constant) and isinstance(st.value.value, str)


def _terminates(block):
    return bool(block) and isinstance(block[-1], (ast.Return, ast.Raise))


def _wrap_loops(block):
    """x = E; while x < 0: x += n; while x >= n: x -= n  (either order)  is  x = E % n  for a positive period n"""
    def shape(w, x):
        if not (isinstance(w, ast.While) and not w.orelse and len(w.body) == 1 and isinstance(w.body[0], ast.Assign)
                and len(w.body[0].targets) == 1 and isinstance(w.body[0].targets[0], ast.Name) and w.body[0].targets[0].id == x
                and isinstance(w.body[0].value, ast.BinOp) and isinstance(w.body[0].value.left, ast.Name) and w.body[0].value.left.id == x
                and isinstance(w.test, ast.Compare) and len(w.test.ops) == 1):
            return None
        n, op, t = w.body[0].value.right, w.body[0].value.op, w.test
        l, o, r = t.left, t.ops[0], t.comparators[0]
        if isinstance(op, ast.Add) and isinstance(o, ast.Lt) and isinstance(l, ast.Name) and l.id == x and src(r) == "0":
            return "low", src(n)
        if isinstance(op, ast.Sub) and isinstance(o, ast.LtE) and isinstance(r, ast.Name) and r.id == x and src(l) == src(n):
            return "high", src(n)        # x >= n was normalised to n <= x
        return None
    k = 0
    while k + 2 < len(block):
        a = block[k]
        if isinstance(a, ast.Assign) and len(a.targets) == 1 and isinstance(a.targets[0], ast.Name):
            x = a.targets[0].id
            s1, s2 = shape(block[k + 1], x), shape(block[k + 2], x)
            if s1 and s2 and {s1[0], s2[0]} == {"low", "high"} and s1[1] == s2[1] and x not in s1[1] \
                    and x not in {n.id for n in ast.walk(a.value) if isinstance(n, ast.Name)}:
                period = block[k + 1].body[0].value.right
                a.value = ast.BinOp(left=a.value, op=ast.Mod(), right=period)
                del block[k + 1:k + 3]
        k += 1
    for st in block:
        for fld in ("body", "orelse"):
            b = getattr(st, fld, None)
            if isinstance(b, list) and b and isinstance(b[0], ast.stmt):
                _wrap_loops(b)


_WRAP_LOOPS = "wrap_loops_"


def _wrap_intervals(block):
    """`while x < L: x += P` and `while x > H: x -= P` in a row (either order; `<=` / `>=` kept as flags) bring x into the range by
    whole periods: written x = wrap_loops_(x, L, low strict, H, high strict, P) so that the statements around them can be compared
    and a closed form on the other side (L + (x - L) % P, which maps onto the half-open [L, L + P)) can be told apart; the order of
    the two loops is kept as a tag (with P = H - L either order gives the same point, otherwise not necessarily)"""
    def shape(w):
        if not (isinstance(w, ast.While) and not w.orelse and len(w.body) == 1 and isinstance(w.body[0], ast.Assign)
                and len(w.body[0].targets) == 1 and isinstance(w.body[0].targets[0], ast.Name)
                and isinstance(w.body[0].value, ast.BinOp) and isinstance(w.body[0].value.op, (ast.Add, ast.Sub))
                and isinstance(w.test, ast.Compare) and len(w.test.ops) == 1):
            return None
        x = w.body[0].targets[0].id
        v_ = w.body[0].value
        if isinstance(v_.left, ast.Name) and v_.left.id == x:
            P = v_.right
        elif isinstance(v_.right, ast.Name) and v_.right.id == x and isinstance(v_.op, ast.Add):
            P = v_.left
        else:
            return None
        l, o, r = w.test.left, w.test.ops[0], w.test.comparators[0]
        if isinstance(l, ast.Name) and l.id == x and isinstance(o, (ast.Lt, ast.LtE)):
            side, bound = "low", r
        elif isinstance(r, ast.Name) and r.id == x and isinstance(o, (ast.Lt, ast.LtE)):
            side, bound = "high", l          # x > H was normalised to H < x
        else:
            return None
        if (side == "low") != isinstance(v_.op, ast.Add):
            return None
        for e in (P, bound):
            if x in {n.id for n in ast.walk(e) if isinstance(n, ast.Name)} or any(isinstance(n, ast.Call) for n in ast.walk(e)):
                return None
        return x, side, bound, isinstance(o, ast.Lt), P
    k = 0
    while k + 1 < len(block):
        s1, s2 = shape(block[k]), shape(block[k + 1])
        if s1 and s2 and s1[0] == s2[0] and {s1[1], s2[1]} == {"low", "high"} and ast.dump(s1[4]) == ast.dump(s2[4]):
            lo, hi = (s1, s2) if s1[1] == "low" else (s2, s1)
            x = s1[0]
            block[k:k + 2] = [ast.Assign(targets=[ast.Name(id=x, ctx=ast.Store())],
                                         value=ast.Call(func=ast.Name(id=_WRAP_LOOPS, ctx=ast.Load()),
                                                        args=[ast.Name(id=x, ctx=ast.Load()), lo[2], ast.Constant(bool(lo[3])), hi[2],
                                                              ast.Constant(bool(hi[3])), lo[4],
                                                              ast.Constant("low first" if s1[1] == "low" else "high first")], keywords=[]))]
        k += 1
    for st in block:
        for fld in ("body", "orelse"):
            b = getattr(st, fld, None)
            if isinstance(b, list) and b and isinstance(b[0], ast.stmt):
                _wrap_intervals(b)


def _loops_against_closed_form(a, b):
    """one side brings x into [L, H] by loops over whole periods, wrap_loops_(E, L, strict, H, strict, P) with H = L + P, the other uses
    the closed form L + (E - L) % P  -> True (loops test `x >= H`: the same half-open range), False (loops test `x > H`, E input data:
    a point exactly on H stays where it is in the loops and is sent to L by the closed form), None (parts do not correspond / E
    bounded by construction); 'no' when this is not the situation"""
    def is_wrap(e):
        return isinstance(e, ast.Call) and isinstance(e.func, ast.Name) and e.func.id == _WRAP_LOOPS and len(e.args) == 7
    w, m = (a, b) if is_wrap(a) else (b, a)
    if not is_wrap(w) or is_wrap(m):
        return "no"
    terms = _additive_terms(m)
    mods = [t for sg, t in terms if sg > 0 and _is_mod(t)]
    rest = [(sg, t) for sg, t in terms if not (sg > 0 and _is_mod(t))]
    if len(mods) != 1:
        return "no"
    try:
        import sympy as sp
        E, L, H, P = (_to_sym(w.args[k_], None) for k_ in (0, 1, 3, 5))
        Lm = sum((sg * _to_sym(t, None) for sg, t in rest), sp.Integer(0))
        inner, Pm = _to_sym(mods[0].left, None), _to_sym(mods[0].right, None)
        same = sp.expand(Lm - L) == 0 and sp.expand(Pm - P) == 0 and sp.expand(inner + Lm - E) == 0 and sp.expand(H - L - P) == 0
    except Exception:
        return None
    if not same or w.args[2].value is not True:
        return None
    if w.args[4].value is False:
        return True          # loops test x >= H: both map onto [L, L + P)
    return False if _is_input_data(w.args[0]) else None


def _continue_to_else(f):
    """in a loop body  `if C: S; continue` followed by R  is  `if C: S else: R`  (R up to the end of the loop body); a `continue` that
    ends the loop body is dropped"""
    def tail(block):
        # block: statements up to the END of a loop body
        for k, st in enumerate(block):
            if isinstance(st, ast.If) and st.body and isinstance(st.body[-1], ast.Continue) \
                    and not any(isinstance(n, ast.Continue) for s_ in st.body[:-1] + st.orelse for n in ast.walk(s_)
                                if not isinstance(s_, (ast.For, ast.While))):
                rest = tail(block[k + 1:])
                body = tail(st.body[:-1]) or [ast.Pass()]
                orelse = tail(st.orelse + rest) if (st.orelse or rest) else []
                return block[:k] + [ast.If(test=st.test, body=body, orelse=orelse)]
        if block and isinstance(block[-1], ast.Continue):
            return block[:-1]
        if block and isinstance(block[-1], ast.If):
            last = block[-1]
            last.body = tail(last.body) or [ast.Pass()]
            last.orelse = tail(last.orelse)
        return block
    for lp in [n for n in ast.walk(f) if isinstance(n, (ast.For, ast.While))]:
        lp.body = tail(lp.body) or [ast.Pass()]
    return ast.fix_missing_locations(f)


def _absorb_guards(block):
    """`if A or B: while A: S; while B: T`  is  `while A: S; while B: T`: when the guard is false every disjunct is false, so the
    first loop does not run, nothing has changed when the second is reached, and so on - the guarded loops do nothing exactly
    when the guard says so (tests are comparisons without calls: no effects)"""
    k = 0
    while k < len(block):
        st = block[k]
        for fld in ("body", "orelse"):
            b = getattr(st, fld, None)
            if isinstance(b, list) and b and isinstance(b[0], ast.stmt):
                _absorb_guards(b)
        if isinstance(st, ast.If) and not st.orelse and st.body and all(isinstance(w, ast.While) and not w.orelse for w in st.body):
            disj = st.test.values if isinstance(st.test, ast.BoolOp) and isinstance(st.test.op, ast.Or) else [st.test]
            have = {ast.dump(d) for d in disj}
            plain = all(not any(isinstance(n, (ast.Call, ast.NamedExpr, ast.Await, ast.Yield)) for n in ast.walk(d)) for d in disj)
            if plain and all(ast.dump(w.test) in have for w in st.body):
                block[k:k + 1] = st.body
                k += len(st.body)
                continue
        k += 1


_WRAP_ONCE = "wrap_once_"


def _wrap_once(block):
    """`if x >= H: x = x - A` / `if x < L: x = x + B` (alone, chained with elif, two in a row, or as conditional expressions) is ONE
    conditional shift of x towards a range: written as x = wrap_once_(x, L, B, strict, H, A, strict, order).  It is a function of
    its own: equal to `x % A` only while x lies within one period of the range.  Naming it lets the statements around it be
    compared (and lets a modulo on the other side be recognised as a DIFFERENT function when x is input data)."""
    none = ast.Constant(None)

    def side_of(test, x, negate=False):
        if not (isinstance(test, ast.Compare) and len(test.ops) == 1):
            return None
        l, op, r = test.left, test.ops[0], test.comparators[0]

        def is_x(e):
            return isinstance(e, ast.Name) and e.id == x

        def free(e):
            return x not in {n.id for n in ast.walk(e) if isinstance(n, ast.Name)} and not any(isinstance(n, ast.Call) for n in ast.walk(e))
        if is_x(l) and free(r) and isinstance(op, (ast.Lt, ast.LtE, ast.Gt, ast.GtE)):
            kind = type(op)
            bound = r
        elif is_x(r) and free(l) and isinstance(op, (ast.Lt, ast.LtE, ast.Gt, ast.GtE)):
            kind = {ast.Lt: ast.Gt, ast.LtE: ast.GtE, ast.Gt: ast.Lt, ast.GtE: ast.LtE}[type(op)]
            bound = l
        else:
            return None
        if negate:
            kind = {ast.Lt: ast.GtE, ast.LtE: ast.Gt, ast.Gt: ast.LtE, ast.GtE: ast.Lt}[kind]
        return ("low" if kind in (ast.Lt, ast.LtE) else "high"), bound, kind in (ast.Lt, ast.Gt)

    def shift_of(value, x):
        """x + A -> ('+', A); x - A -> ('-', A)"""
        if isinstance(value, ast.BinOp) and isinstance(value.op, (ast.Add, ast.Sub)):
            if isinstance(value.left, ast.Name) and value.left.id == x:
                amt = value.right
            elif isinstance(value.right, ast.Name) and value.right.id == x and isinstance(value.op, ast.Add):
                amt = value.left
            else:
                return None
            if x in {n.id for n in ast.walk(amt) if isinstance(n, ast.Name)} or any(isinstance(n, ast.Call) for n in ast.walk(amt)):
                return None
            return ("+" if isinstance(value.op, ast.Add) else "-"), amt
        return None

    def arm(test, body, x=None, negate=False):
        """one conditional shift -> (x, side, bound, strict, amount) when the direction of the shift is towards the range"""
        if len(body) != 1 or not (isinstance(body[0], ast.Assign) and len(body[0].targets) == 1 and isinstance(body[0].targets[0], ast.Name)):
            return None
        x_ = body[0].targets[0].id
        if x is not None and x != x_:
            return None
        sd, sh = side_of(test, x_, negate), shift_of(body[0].value, x_)
        if sd is None or sh is None or (sd[0], sh[0]) not in (("low", "+"), ("high", "-")):
            return None
        return x_, sd[0], sd[1], sd[2], sh[1]

    def one(st):
        """a statement that is one or two chained conditional shifts of one variable -> (x, [arms]) else None"""
        if isinstance(st, ast.If):
            a1 = arm(st.test, st.body)
            if a1 is None:
                return None
            if not st.orelse:
                return a1[0], [a1[1:]], ""
            if len(st.orelse) == 1 and isinstance(st.orelse[0], ast.If) and not st.orelse[0].orelse:
                a2 = arm(st.orelse[0].test, st.orelse[0].body, a1[0])
                if a2 is not None and a2[1] != a1[1]:
                    return a1[0], [a1[1:], a2[1:]], "elif"
            return None
        if isinstance(st, ast.Assign) and len(st.targets) == 1 and isinstance(st.targets[0], ast.Name) and isinstance(st.value, ast.IfExp):
            x, e = st.targets[0].id, st.value
            keep_else = isinstance(e.orelse, ast.Name) and e.orelse.id == x
            keep_body = isinstance(e.body, ast.Name) and e.body.id == x
            if keep_else == keep_body:
                return None
            moved = e.body if keep_else else e.orelse
            a1 = arm(e.test, [ast.Assign(targets=[ast.Name(id=x, ctx=ast.Store())], value=moved)], x, negate=keep_body)
            return None if a1 is None else (a1[0], [a1[1:]], "")
        return None

    def call(x, arms, order):
        slot = {"low": [none, none, none], "high": [none, none, none]}
        for sd, bound, strict, amt in arms:
            slot[sd] = [bound, amt, ast.Constant(bool(strict))]
        first = arms[0][0] + (order and "-" + order)
        return ast.Assign(targets=[ast.Name(id=x, ctx=ast.Store())],
                          value=ast.Call(func=ast.Name(id=_WRAP_ONCE, ctx=ast.Load()),
                                         args=[ast.Name(id=x, ctx=ast.Load())] + slot["low"] + slot["high"] + [ast.Constant(first)], keywords=[]))
    k = 0
    while k < len(block):
        r1 = one(block[k])
        if r1 is not None:
            x, arms, order = r1
            r2 = one(block[k + 1]) if k + 1 < len(block) and len(arms) == 1 else None
            if r2 is not None and r2[0] == x and len(r2[1]) == 1 and r2[1][0][0] != arms[0][0]:
                block[k:k + 2] = [call(x, arms + r2[1], "then")]
            else:
                block[k] = call(x, arms, order)
        k += 1
    for st in block:
        for fld in ("body", "orelse"):
            b = getattr(st, fld, None)
            if isinstance(b, list) and b and isinstance(b[0], ast.stmt):
                _wrap_once(b)


_DATA = {"scalars": set(), "arrays": set()}      # input data of the function pair being compared (set by body_equivalence)


def _is_input_data(e):
    """does the expression contain a value the callers choose freely (a float parameter, an element of an array parameter)?"""
    for n in ast.walk(e):
        if isinstance(n, ast.Name) and n.id in _DATA["scalars"]:
            return True
        if isinstance(n, ast.Subscript) and isinstance(n.value, ast.Name) and n.value.id in _DATA["arrays"]:
            return True
    return False


def _wrap_against_mod(a, b):
    """one of the two expressions is a single conditional shift wrap_once_(E, ...), the other a reduction E % P with the same E and
    the period(s) of the shift -> False when E is input data (the two functions differ as soon as E lies more than one period
    outside the range), None when E is bounded by construction or the parts do not correspond; 'no' when this is not the case at all"""
    def is_wrap(e):
        return isinstance(e, ast.Call) and isinstance(e.func, ast.Name) and e.func.id == _WRAP_ONCE and len(e.args) == 8

    def mod_parts(e):
        if isinstance(e, ast.BinOp) and isinstance(e.op, ast.Mod):
            return e.left, e.right
        if isinstance(e, ast.Call) and not e.keywords and len(e.args) == 2 and src(e.func).split(".")[-1] in ("mod", "fmod", "remainder"):
            return e.args[0], e.args[1]
        return None
    w, m = (a, b) if is_wrap(a) else (b, a)
    if not is_wrap(w) or mod_parts(m) is None:
        return "no"
    E, P = mod_parts(m)
    amounts = [x for x in (w.args[2], w.args[5]) if not (isinstance(x, ast.Constant) and x.value is None)]
    if expr_same(w.args[0], E) is True and amounts and all(expr_same(x, P) is True for x in amounts):
        return False if _is_input_data(E) else None
    return None


def _view_aliases(f, kinds):
    """Y = X / Y = X.real / Y = X.imag at the top of the body (Y a local bound once and never handed on as a whole before; X a parameter
    that is never re-bound) makes Y a name for the caller's array (or for one half of its complex elements): written back in place,
    so that a store through Y is seen as the store into X it is.  X.real of an array declared real or integer is X itself."""
    params = {a.arg for a in f.args.args}
    nstores = {}
    for n in ast.walk(f):
        if isinstance(n, ast.Name) and isinstance(n.ctx, ast.Store):
            nstores[n.id] = nstores.get(n.id, 0) + 1

    def view(e):
        if isinstance(e, ast.Name) and e.id in params and nstores.get(e.id, 0) == 0:
            return e
        if isinstance(e, ast.Attribute) and e.attr in ("real", "imag") and isinstance(e.value, ast.Name) and e.value.id in params \
                and nstores.get(e.value.id, 0) == 0:
            return e
        return None
    alias = {}
    for st in list(f.body):
        if isinstance(st, ast.Assign) and len(st.targets) == 1 and isinstance(st.targets[0], ast.Name) and view(st.value) is not None \
                and nstores.get(st.targets[0].id) == 1 and st.targets[0].id not in params:
            y = st.targets[0].id
            # no use of y before the binding
            before = [n for s_ in f.body[:f.body.index(st)] for n in ast.walk(s_) if isinstance(n, ast.Name) and n.id == y]
            if not before:
                alias[y] = st
    if alias:
        class A(ast.NodeTransformer):
            def visit_Name(self, n):
                if n.id in alias and isinstance(n.ctx, ast.Load):
                    return ast.parse(ast.unparse(alias[n.id].value), mode="eval").body
                return n
        for st in alias.values():
            f.body.remove(st)
        f = ast.fix_missing_locations(A().visit(f))

    class R(ast.NodeTransformer):
        def visit_Attribute(self, n):
            self.generic_visit(n)
            if n.attr == "real" and isinstance(n.value, ast.Name) and kinds.get(n.value.id) in ("float", "float32", "int") \
                    and nstores.get(n.value.id, 0) == 0 and isinstance(n.ctx, ast.Load):
                return n.value
            return n
    f = ast.fix_missing_locations(R().visit(f))
    if not f.body:
        f.body = [ast.Pass()]
    return f


def _accumulators(f):
    """acc = E0; <loop updating acc>; X[idx] = acc   ->   X[idx] = E0; <loop updating X[idx]>   when the loop touches neither X nor
    the operands of idx and acc lives in these three statements only: the scalar is a name for the cell"""
    count = {}
    for n in ast.walk(f):
        if isinstance(n, ast.Name):
            count[n.id] = count.get(n.id, 0) + 1

    def go(block):
        k = 0
        while k + 2 < len(block):
            a, lp, st = block[k], block[k + 1], block[k + 2]
            if isinstance(a, ast.Assign) and len(a.targets) == 1 and isinstance(a.targets[0], ast.Name) and isinstance(lp, (ast.For, ast.While)) \
                    and isinstance(st, ast.Assign) and len(st.targets) == 1 and isinstance(st.targets[0], ast.Subscript) \
                    and (isinstance(st.targets[0].value, ast.Name) or isinstance(st.targets[0].value, ast.Attribute)
                         and isinstance(st.targets[0].value.value, ast.Name)) \
                    and isinstance(st.value, ast.Name) and st.value.id == a.targets[0].id:
                acc, cell = a.targets[0].id, st.targets[0]
                X = _base_name(cell.value)
                idx_names = {n.id for n in ast.walk(cell.slice) if isinstance(n, ast.Name)}
                inside = sum(1 for n in ast.walk(lp) if isinstance(n, ast.Name) and n.id == acc)
                stored_in_loop = {n.id for n in ast.walk(lp) if isinstance(n, ast.Name) and isinstance(n.ctx, ast.Store)}
                mentions_X = any(isinstance(n, ast.Name) and n.id == X for n in ast.walk(lp))
                calls = [c for c in ast.walk(lp) if isinstance(c, ast.Call) and any(isinstance(n, ast.Name) and n.id == acc for n in ast.walk(c))]
                simple_idx = all(isinstance(n, (ast.Name, ast.Constant, ast.Tuple, ast.BinOp, ast.operator, ast.expr_context, ast.UnaryOp, ast.unaryop))
                                 for n in ast.walk(cell.slice))
                leaves = any(isinstance(n, (ast.Return, ast.Raise)) for n in ast.walk(lp))
                if count.get(acc, 0) == inside + 2 and inside >= 2 and not mentions_X and not leaves and not (idx_names & stored_in_loop) and not calls \
                        and acc not in idx_names and simple_idx \
                        and acc not in {n.id for n in ast.walk(a.value) if isinstance(n, ast.Name)}:
                    class R(ast.NodeTransformer):
                        def visit_Name(self, n):
                            if n.id == acc:
                                c = ast.parse(ast.unparse(cell), mode="eval").body
                                c.ctx = ast.Store() if isinstance(n.ctx, ast.Store) else ast.Load()
                                return c
                            return n
                    block[k] = ast.Assign(targets=[ast.parse(ast.unparse(cell), mode="eval").body], value=a.value)
                    block[k].targets[0].ctx = ast.Store()
                    block[k + 1] = R().visit(lp)
                    del block[k + 2]
                    ast.fix_missing_locations(f)
            k += 1
        for s_ in block:
            for fld in ("body", "orelse"):
                b = getattr(s_, fld, None)
                if isinstance(b, list) and b and isinstance(b[0], ast.stmt):
                    go(b)
    go(f.body)


def _control(body, tail=True):
    """merge `if a: S elif b: S`; push a trailing `return x` into the arms of the preceding `if`; drop `else` after an arm
    that returns; `x = e; return x` -> `return e`"""
    out = []
    for st in body:
        for fld in ("body", "orelse"):
            b = getattr(st, fld, None)
            if isinstance(b, list) and b and isinstance(b[0], ast.stmt):
                setattr(st, fld, _control(b, tail=False))
        out.append(st)
    # same-body arms
    changed = True
    while changed:
        changed = False
        for st in out:
            if isinstance(st, ast.If) and len(st.orelse) == 1 and isinstance(st.orelse[0], ast.If) \
                    and ast.dump(ast.Module(body=st.body, type_ignores=[])) == ast.dump(ast.Module(body=st.orelse[0].body, type_ignores=[])):
                inner = st.orelse[0]
                tests = (st.test.values if isinstance(st.test, ast.BoolOp) and isinstance(st.test.op, ast.Or) else [st.test]) + \
                    (inner.test.values if isinstance(inner.test, ast.BoolOp) and isinstance(inner.test.op, ast.Or) else [inner.test])
                st.test = ast.BoolOp(op=ast.Or(), values=tests)
                st.orelse = inner.orelse
                changed = True
    if tail:
        out = _push_return(out)
    return out


def _push_return(block):
    """tail position of a function body"""
    if len(block) >= 2 and isinstance(block[-1], ast.Return) and isinstance(block[-2], ast.If) and block[-1].value is not None \
            and all(isinstance(n, (ast.Name, ast.Tuple, ast.Constant, ast.expr_context)) for n in ast.walk(block[-1].value)):
        iff, ret = block[-2], block[-1]
        iff.body = _push_return(iff.body + [ast.Return(value=ast.parse(ast.unparse(ret.value), mode="eval").body)])
        iff.orelse = _push_return(iff.orelse + [ast.Return(value=ast.parse(ast.unparse(ret.value), mode="eval").body)])
        block = block[:-1]
    # x = e; return x  ->  return e
    if len(block) >= 2 and isinstance(block[-1], ast.Return) and isinstance(block[-1].value, ast.Name) \
            and isinstance(block[-2], ast.Assign) and len(block[-2].targets) == 1 and isinstance(block[-2].targets[0], ast.Name) \
            and block[-2].targets[0].id == block[-1].value.id:
        block = block[:-2] + [ast.Return(value=block[-2].value)]
    # if c: ...return  else: B   ->  if c: ...return ; B
    if block and isinstance(block[-1], ast.If):
        iff = block[-1]
        iff.body = _push_return(iff.body)
        if _terminates(iff.body) and iff.orelse:
            rest = iff.orelse
            iff.orelse = []
            block = block + _push_return(rest)
        elif iff.orelse:
            iff.orelse = _push_return(iff.orelse)
    return block


def _seq(fn):
    """statements in textual order with their position, block and chain of enclosing (block, index)"""
    order = []

    def go(block, chain):
        for k, st in enumerate(block):
            order.append((st, chain + [(id(block), k)]))
            for fld in ("body", "orelse", "finalbody"):
                b = getattr(st, fld, None)
                if isinstance(b, list) and b and isinstance(b[0], ast.stmt):
                    go(b, chain + [(id(block), k)])
    go(fn.body, [])
    return order


def _inline_temps(f: ast.FunctionDef, pure: set, ranks: dict = None):
    """write single-assignment locals with a side-effect-free value back into their uses (undoes hoisting of invariants
    and common-subexpression temporaries); iterated to a fixed point.  `ranks`: rank of the annotated parameters (0 = scalar):
    a value built from scalars and fully indexed elements is immutable, a callee cannot change it"""
    params = {a.arg for a in f.args.args}
    ranks = ranks or {}

    def element_of_param(n):
        if isinstance(n, ast.Subscript) and isinstance(n.value, ast.Name) and ranks.get(n.value.id, 0) > 0:
            items = n.slice.elts if isinstance(n.slice, ast.Tuple) else [n.slice]
            return len(items) == ranks[n.value.id] and not any(isinstance(it, (ast.Slice, ast.Starred)) for it in items)
        return False

    def scalar_names():
        known = {p_ for p_, r_ in ranks.items() if r_ == 0} | {"pi"} - {n.id for n in ast.walk(f) if isinstance(n, ast.Name) and n.id == "pi"
                                                                        and isinstance(n.ctx, ast.Store)}
        for n in ast.walk(f):
            if isinstance(n, ast.For) and isinstance(n.iter, ast.Call) and isinstance(n.iter.func, ast.Name) and n.iter.func.id == "range" \
                    and isinstance(n.target, ast.Name):
                known.add(n.target.id)
        defs: dict[str, list] = {}
        for n in ast.walk(f):
            if isinstance(n, ast.Name) and isinstance(n.ctx, ast.Store) and n.id not in known:
                defs.setdefault(n.id, [])
        for n in ast.walk(f):
            if isinstance(n, ast.Assign) and len(n.targets) == 1 and isinstance(n.targets[0], ast.Name) and n.targets[0].id in defs:
                defs[n.targets[0].id].append(n.value)
        nstores = {}
        for n in ast.walk(f):
            if isinstance(n, ast.Name) and isinstance(n.ctx, ast.Store):
                nstores[n.id] = nstores.get(n.id, 0) + 1

        def is_scalar(e):
            if isinstance(e, ast.Constant):
                return isinstance(e.value, (int, float)) and not isinstance(e.value, bool)
            if isinstance(e, ast.Name):
                return e.id in known
            if isinstance(e, ast.BinOp):
                return is_scalar(e.left) and is_scalar(e.right)
            if isinstance(e, ast.UnaryOp):
                return is_scalar(e.operand)
            if isinstance(e, ast.Subscript):
                items = e.slice.elts if isinstance(e.slice, ast.Tuple) else [e.slice]
                if isinstance(e.value, ast.Attribute) and e.value.attr == "shape" and isinstance(e.value.value, ast.Name):
                    return True
                return element_of_param(e) and all(is_scalar(it) for it in items)
            if isinstance(e, ast.Call) and isinstance(e.func, ast.Name) and e.func.id in _MATH_PURE and not e.keywords:
                return all(is_scalar(a) for a in e.args)
            if isinstance(e, ast.Call) and isinstance(e.func, ast.Name) and e.func.id in (_WRAP_ONCE, _WRAP_LOOPS) and e.args:
                return is_scalar(e.args[0])          # a conditionally shifted number is a number
            return False
        for _ in range(6):
            grew = False
            for x, vs in defs.items():
                if x not in known and x not in params and vs and len(vs) == nstores.get(x, 0) and all(is_scalar(v_) for v_ in vs):
                    known.add(x)
                    grew = True
            if not grew:
                break
        return known

    def handed(e, scalars):
        """names whose object a callee receiving `e` could write into"""
        out = set()

        def go(n):
            if isinstance(n, ast.Name):
                if n.id not in scalars:
                    out.add(n.id)
            elif element_of_param(n):
                pass                      # an element: a number
            elif isinstance(n, ast.Subscript) and isinstance(n.value, ast.Attribute) and n.value.attr == "shape":
                pass
            else:
                for ch in ast.iter_child_nodes(n):
                    go(ch)
        go(e)
        return out

    def scalar_pure(e):
        return all(isinstance(n, (ast.BinOp, ast.UnaryOp, ast.Name, ast.Constant, ast.operator, ast.unaryop, ast.expr_context, ast.Compare,
                                  ast.cmpop)) or (isinstance(n, ast.Call) and isinstance(n.func, ast.Name) and n.func.id in _MATH_PURE)
                   for n in ast.walk(e))

    def merge_rebinding(block):
        """x = A; x = B(x)  ->  x = B(A)   (adjacent statements, A a scalar expression)"""
        k = 0
        while k + 1 < len(block):
            a, b = block[k], block[k + 1]
            if isinstance(a, ast.Assign) and isinstance(b, ast.Assign) and len(a.targets) == 1 and len(b.targets) == 1 \
                    and isinstance(a.targets[0], ast.Name) and isinstance(b.targets[0], ast.Name) and a.targets[0].id == b.targets[0].id \
                    and (scalar_pure(a.value) or element_of_param(a.value) and all(scalar_pure(it) for it in (
                        a.value.slice.elts if isinstance(a.value.slice, ast.Tuple) else [a.value.slice]))) \
                    and a.targets[0].id not in {n.id for n in ast.walk(a.value) if isinstance(n, ast.Name)}:
                x, val = a.targets[0].id, a.value

                class S(ast.NodeTransformer):
                    def visit_Name(self, n):
                        if n.id == x and isinstance(n.ctx, ast.Load):
                            return ast.parse(ast.unparse(val), mode="eval").body
                        return n
                b.value = S().visit(b.value)
                del block[k]
                continue
            k += 1
        for st in block:
            for fld in ("body", "orelse", "finalbody"):
                bb = getattr(st, fld, None)
                if isinstance(bb, list) and bb and isinstance(bb[0], ast.stmt):
                    merge_rebinding(bb)
    merge_rebinding(f.body)
    for _round in range(400):
        order = _seq(f)
        pos = {id(st): k for k, (st, _) in enumerate(order)}
        chain_of = {id(st): ch for st, ch in order}
        stores: dict[str, list] = {}
        arr_written, proc_args = set(), set()
        for st, _ in order:
            tg = []
            if isinstance(st, ast.Assign):
                tg = st.targets
            elif isinstance(st, ast.For):
                tg = [st.target]
            for t in tg:
                for n in ast.walk(t):
                    if isinstance(n, ast.Name) and isinstance(n.ctx, ast.Store):
                        stores.setdefault(n.id, []).append(st)
                    elif isinstance(n, (ast.Subscript, ast.Attribute)) and isinstance(n.ctx, ast.Store):
                        b = n
                        while isinstance(b, (ast.Subscript, ast.Attribute)):
                            b = b.value
                        if isinstance(b, ast.Name):
                            arr_written.add(b.id)
        scalars = scalar_names()
        for st, _ in order:
            if isinstance(st, ast.Expr) and isinstance(st.value, ast.Call):
                for a in list(st.value.args) + [k.value for k in st.value.keywords]:
                    proc_args |= handed(a, scalars)
        # calls that are not known to be pure may write their array arguments
        for st, _ in order:
            for c in ast.walk(st):
                if isinstance(c, ast.Call) and not (isinstance(c.func, ast.Name) and (c.func.id in pure or c.func.id in _NO_WRITE)):
                    for a in list(c.args) + [k.value for k in c.keywords]:
                        proc_args |= handed(a, scalars)

        # a view of an array (slice, bare alias) that is written or handed to a procedure: the array itself may change
        for _ in range(3):
            for st, _c in order:
                if isinstance(st, ast.Assign) and len(st.targets) == 1 and isinstance(st.targets[0], ast.Name):
                    y, val_ = st.targets[0].id, st.value
                    while isinstance(val_, (ast.Subscript, ast.Attribute)):
                        val_ = val_.value
                    if isinstance(val_, ast.Name) and val_.id != y:
                        if y in arr_written:
                            arr_written.add(val_.id)
                        if y in proc_args:
                            proc_args.add(val_.id)

        def pure_value(e):
            for n in ast.walk(e):
                if isinstance(n, ast.Call):
                    if not (isinstance(n.func, ast.Name) and n.func.id in pure):
                        return False
                elif isinstance(n, (ast.Lambda, ast.ListComp, ast.GeneratorExp, ast.DictComp, ast.SetComp, ast.Await, ast.Yield,
                                    ast.YieldFrom, ast.NamedExpr, ast.Starred, ast.List, ast.Dict, ast.Set)):
                    return False
                elif isinstance(n, ast.Subscript):
                    b = n
                    while isinstance(b, (ast.Subscript, ast.Attribute)):
                        b = b.value
                    if not isinstance(b, ast.Name):
                        return False
                    whole_shape = isinstance(n.value, ast.Attribute) and n.value.attr == "shape"
                    if not whole_shape and (b.id in arr_written or b.id in proc_args):
                        return False
                    if any(isinstance(s_, ast.Slice) for s_ in (n.slice.elts if isinstance(n.slice, ast.Tuple) else [n.slice])):
                        return False      # a slice is a view, not a value
            return True

        def tail_inline(block):
            """in a block that ends with `return`, `x = A` (A a value) is written into the statements that follow it"""
            if block and isinstance(block[-1], ast.Return):
                for k in range(len(block) - 2, -1, -1):
                    d = block[k]
                    if not (isinstance(d, ast.Assign) and len(d.targets) == 1 and isinstance(d.targets[0], ast.Name)):
                        continue
                    x = d.targets[0].id
                    ops = {n.id for n in ast.walk(d.value) if isinstance(n, ast.Name)}
                    rest = block[k + 1:]
                    if x in ops or x in arr_written or x in proc_args or not pure_value(d.value) \
                            or any(not isinstance(r, (ast.Assign, ast.Expr, ast.Return)) for r in rest):
                        continue
                    rebound = {n.id for r in rest if isinstance(r, ast.Assign) for t in r.targets for n in ast.walk(t)
                               if isinstance(n, ast.Name) and isinstance(n.ctx, ast.Store)}
                    if x in rebound or ops & rebound:
                        continue
                    val = d.value

                    class S(ast.NodeTransformer):
                        def visit_Name(self, n):
                            if n.id == x and isinstance(n.ctx, ast.Load):
                                return ast.parse(ast.unparse(val), mode="eval").body
                            return n
                    for r in rest:
                        for fld, e in _own_fields(r):
                            _set_field(r, fld, S().visit(e))
                    del block[k]
                    return True
            for st in block:
                for fld in ("body", "orelse"):
                    bb = getattr(st, fld, None)
                    if isinstance(bb, list) and bb and isinstance(bb[0], ast.stmt) and tail_inline(bb):
                        return True
            return False
        if tail_inline(f.body):
            ast.fix_missing_locations(f)
            continue
        done = False
        for name, sts in stores.items():
            if name in params or len(sts) != 1:
                continue
            d = sts[0]
            if not (isinstance(d, ast.Assign) and len(d.targets) == 1 and isinstance(d.targets[0], ast.Name)):
                continue
            if name in arr_written or name in proc_args:
                continue       # an array (allocated here, filled elsewhere), not a value
            if not pure_value(d.value) or name in {n.id for n in ast.walk(d.value) if isinstance(n, ast.Name)}:
                continue
            if not isinstance(d.value, (ast.Name, ast.Subscript)) and any(
                    isinstance(n, ast.Subscript) and isinstance(n.value, ast.Name) and n.value.id == name for n in ast.walk(f)):
                continue       # the result of whole-array arithmetic (it is indexed later): a new array, not a formula to repeat
            dpos = pos[id(d)]
            # operands are not re-bound after the definition
            operands = {n.id for n in ast.walk(d.value) if isinstance(n, ast.Name)}
            ok = not any(pos[id(s_)] > dpos for o in operands for s_ in stores.get(o, []))
            if not ok:
                continue
            # every use is dominated by the definition: it lies in the definition's block after it
            dchain = chain_of[id(d)]
            dblock, dk = dchain[-1]
            uses = []
            for st, ch in order:
                if st is d:
                    continue
                # names read by this statement itself (not by nested statements, which come separately)
                own = _own_exprs(st)
                if any(isinstance(n, ast.Name) and n.id == name for e in own for n in ast.walk(e)):
                    uses.append((st, ch))
                    if not _own_fields(st):
                        ok = False        # a statement kind the substitution does not handle
            for st, ch in uses:
                inside = any(b == dblock and k > dk for b, k in ch)
                if not inside:
                    ok = False
            if not ok:
                continue
            # substitute
            val = d.value

            class Sub(ast.NodeTransformer):
                def visit_Name(self, n):
                    if n.id == name and isinstance(n.ctx, ast.Load):
                        return ast.parse(ast.unparse(val), mode="eval").body
                    return n
            for st, ch in uses:
                for fld, e in _own_fields(st):
                    new = Sub().visit(e)
                    _set_field(st, fld, new)
            _remove_stmt(f, d)
            done = True
            break
        if not done:
            break
    return f


def _own_fields(st):
    """(field, expression) pairs evaluated by the statement itself"""
    out = []
    if isinstance(st, ast.Assign):
        out = [("value", st.value)] + [(("targets", k), t) for k, t in enumerate(st.targets) if not isinstance(t, ast.Name)]
    elif isinstance(st, ast.Expr):
        out = [("value", st.value)]
    elif isinstance(st, ast.Return) and st.value is not None:
        out = [("value", st.value)]
    elif isinstance(st, (ast.If, ast.While)):
        out = [("test", st.test)]
    elif isinstance(st, ast.For):
        out = [("iter", st.iter)]
    elif isinstance(st, ast.Assert):
        out = [("test", st.test)]
    return out


def _own_exprs(st):
    got = [e for _, e in _own_fields(st)]
    if not got and not isinstance(st, (ast.If, ast.While, ast.For, ast.Assign, ast.Expr, ast.Return, ast.Pass, ast.Break, ast.Continue)):
        return [st]          # unknown statement kind: every name in it counts as a use here
    return got


def _set_field(st, fld, new):
    if isinstance(fld, tuple):
        getattr(st, fld[0])[fld[1]] = new
    else:
        setattr(st, fld, new)


def _remove_stmt(f, d):
    def go(block):
        for k, st in enumerate(block):
            if st is d:
                del block[k]
                if not block:
                    block.append(ast.Pass())
                return True
            for fld in ("body", "orelse", "finalbody"):
                b = getattr(st, fld, None)
                if isinstance(b, list) and b and isinstance(b[0], ast.stmt) and go(b):
                    return True
        return False
    go(f.body)


def _flatten_subscripts(f):
    """X[i, j][k] is X[i, j, k]; X[i, :][k] is X[i, k]  (numpy arrays, full slices only)"""
    def full(it):
        return isinstance(it, ast.Slice) and it.lower is None and it.upper is None and it.step is None

    class T(ast.NodeTransformer):
        def visit_Subscript(self, n):
            self.generic_visit(n)
            if isinstance(n.value, ast.Subscript) and isinstance(n.value.ctx, ast.Load) and not (
                    isinstance(n.value.value, ast.Attribute) and n.value.value.attr == "shape"):
                inner = n.value.slice.elts if isinstance(n.value.slice, ast.Tuple) else [n.value.slice]
                outer = list(n.slice.elts if isinstance(n.slice, ast.Tuple) else [n.slice])
                if any(isinstance(it, ast.Slice) and not full(it) for it in inner) or any(
                        isinstance(it, (ast.Constant,)) and it.value is None or isinstance(it, (ast.Starred,)) for it in inner + outer) \
                        or any(isinstance(it, ast.Constant) and it.value is Ellipsis for it in inner + outer):
                    return n
                merged = []
                for it in inner:
                    merged.append(outer.pop(0) if full(it) and outer else it)
                merged += outer
                sl = merged[0] if len(merged) == 1 else ast.Tuple(elts=merged, ctx=ast.Load())
                return ast.Subscript(value=n.value.value, slice=sl, ctx=n.ctx)
            return n
    return ast.fix_missing_locations(T().visit(f))


def _sort_operands(f):
    """a + b == b + a and a * b == b * a exactly; re-association of a chain changes the rounding only, which the
    property allows: chains of + (and of *) are flattened and their operands ordered"""
    class T(ast.NodeTransformer):
        def visit_BinOp(self, n):
            self.generic_visit(n)
            if isinstance(n.op, (ast.Add, ast.Mult)):
                ops = []

                def flat_(x):
                    if isinstance(x, ast.BinOp) and type(x.op) is type(n.op):
                        flat_(x.left)
                        flat_(x.right)
                    else:
                        ops.append(x)
                flat_(n)
                ops.sort(key=lambda x: ast.dump(x))
                acc = ops[0]
                for x in ops[1:]:
                    acc = ast.BinOp(left=acc, op=type(n.op)(), right=x)
                return acc
            return n
    return T().visit(f)


def _loop_order(f, pure):
    """perfectly nested rectangular `for a in range(..): for b in range(..): B` whose iterations are independent of one another
    (every array written in B is addressed by both counters, read only at the element being written; scalars of B are set before
    they are read and die with the iteration; no procedure calls, no early exit) compute the same values in either nesting order:
    the loops are put in the order of their counter names.  -> True when something was re-ordered"""
    changed = [False]

    def names(e):
        return {n.id for n in ast.walk(e) if isinstance(n, ast.Name)}

    def independent(outer, inner):
        a, b = outer.target.id, inner.target.id
        B = inner.body
        for lp in (outer, inner):
            if not (isinstance(lp.iter, ast.Call) and isinstance(lp.iter.func, ast.Name) and lp.iter.func.id == "range"
                    and not lp.iter.keywords and 1 <= len(lp.iter.args) <= 3) or lp.orelse:
                return False
        stored = {n.id for st in B for n in ast.walk(st) if isinstance(n, ast.Name) and isinstance(n.ctx, ast.Store)}
        if (names(outer.iter) | names(inner.iter)) & (stored | {a, b}):
            return False
        written = {}
        for st in B:
            for n in ast.walk(st):
                if isinstance(n, (ast.Break, ast.Continue, ast.Return, ast.Raise, ast.While, ast.Global, ast.Nonlocal, ast.With, ast.Try,
                                  ast.Delete, ast.Lambda, ast.ListComp, ast.GeneratorExp)):
                    return False
                if isinstance(n, ast.Expr) and not _is_docstring(n):
                    return False          # a procedure call: may write a shared scratch array
                if isinstance(n, ast.Call) and not (isinstance(n.func, ast.Name) and (n.func.id in pure or n.func.id in ("range", "len"))):
                    return False
                if isinstance(n, ast.Attribute) and isinstance(n.ctx, ast.Store):
                    return False
                if isinstance(n, ast.Subscript) and isinstance(n.ctx, ast.Store):
                    if not isinstance(n.value, ast.Name):
                        return False
                    items = n.slice.elts if isinstance(n.slice, ast.Tuple) else [n.slice]
                    plain = [it.id for it in items if isinstance(it, ast.Name)]
                    if a not in plain or b not in plain:
                        return False      # two iterations may write the same element
                    written.setdefault(n.value.id, set()).add(ast.dump(n.slice))
        if not written:
            return False
        for st in B:
            for n in ast.walk(st):
                if isinstance(n, ast.Name) and n.id in written and isinstance(n.ctx, ast.Load):
                    par = getattr(n, "_lo_parent", None)
                    if not (isinstance(par, ast.Subscript) and par.value is n and ast.dump(par.slice) in written[n.id]):
                        return False      # reads another element (or the whole array) of an array written in the nest
        # scalars: set at the top level of B before any read, not used outside the nest
        scal = stored - {n.id for st in B for n in ast.walk(st) if isinstance(n, ast.For) for n in ast.walk(n.target) if isinstance(n, ast.Name)}
        for x in scal:
            first = next((st for st in B if x in names(st)), None)
            if not (isinstance(first, ast.Assign) and len(first.targets) == 1 and isinstance(first.targets[0], ast.Name)
                    and first.targets[0].id == x and x not in names(first.value)):
                return False
        inside = {id(n) for n in ast.walk(outer)}
        for n in ast.walk(f):
            if isinstance(n, ast.Name) and id(n) not in inside and n.id in (stored | {a, b}) and isinstance(n.ctx, ast.Load):
                # a later read of a scalar of the nest or of a counter sees the value of the last iteration
                if (getattr(n, "lineno", 0), getattr(n, "col_offset", 0)) > (outer.lineno, outer.col_offset):
                    return False
        return True

    def go(block):
        for st in block:
            for fld in ("body", "orelse"):
                b = getattr(st, fld, None)
                if isinstance(b, list) and b and isinstance(b[0], ast.stmt):
                    go(b)
        for _ in range(4):
            swapped = False
            for st in block:
                cur = st
                while isinstance(cur, ast.For) and len(cur.body) == 1 and isinstance(cur.body[0], ast.For) \
                        and isinstance(cur.target, ast.Name) and isinstance(cur.body[0].target, ast.Name):
                    inner = cur.body[0]
                    if cur.target.id > inner.target.id:
                        for n in ast.walk(cur):
                            for ch in ast.iter_child_nodes(n):
                                ch._lo_parent = n
                        if independent(cur, inner):
                            cur.target, inner.target = inner.target, cur.target
                            cur.iter, inner.iter = inner.iter, cur.iter
                            swapped = changed[0] = True
                    cur = inner
            if not swapped:
                break
    go(f.body)
    return changed[0]


def _element_programs(f, pure):
    """A function whose only effect is to fill arrays element by element - every stored array X is addressed, in every occurrence,
    by the same tuple of distinct loop counters X[c1, .., cr]; each of these counters runs over one rectangular range, the same in
    every loop that binds it; every store into X stands inside exactly the loops over c1..cr (and possibly others); a statement reads
    no other element of a stored array than the one it writes; the only names bound are loop counters; no early exit, no procedure
    call - computes each element by its own program: the statements that touch it, in execution order.  For a fixed element that
    order is the lexicographic order of the remaining (non-index) loops, i.e. the body with the loops over c1..cr removed.  Two
    functions with the same element programs over the same ranges compute the same arrays, however the index loops are nested,
    split or fused.  -> (the body with the index loops removed, {array: counters}, {counter: range}) or None"""
    f = ast.parse(ast.unparse(f)).body[0]
    par = {}
    for n in ast.walk(f):
        for ch in ast.iter_child_nodes(n):
            par[id(ch)] = n
    params = {a.arg for a in f.args.args}
    stored_arrays = set()
    for n in ast.walk(f):
        if isinstance(n, (ast.While, ast.Break, ast.Continue, ast.With, ast.Try, ast.Global, ast.Nonlocal, ast.Delete, ast.Lambda, ast.ListComp,
                          ast.GeneratorExp, ast.Starred, ast.AugAssign, ast.AnnAssign, ast.NamedExpr, ast.Yield)):
            return None
        if isinstance(n, ast.Return) and (n.value is not None or par.get(id(n)) is not f):
            return None
        if isinstance(n, ast.Expr) and not _is_docstring(n):
            return None
        if isinstance(n, ast.Call) and not (isinstance(n.func, ast.Name) and (n.func.id in pure or n.func.id == "range")):
            return None
        if isinstance(n, ast.Attribute) and isinstance(n.ctx, ast.Store):
            return None
        if isinstance(n, ast.Subscript) and isinstance(n.ctx, ast.Store):
            if not isinstance(n.value, ast.Name):
                return None
            stored_arrays.add(n.value.id)
        if isinstance(n, ast.Name) and isinstance(n.ctx, ast.Store):
            p_ = par.get(id(n))
            if not (isinstance(p_, ast.For) and p_.target is n):
                return None          # a scalar carried from statement to statement: not an element program
    if not stored_arrays:
        return None

    def loops_around(n):
        out = []
        p_ = par.get(id(n))
        while p_ is not None:
            if isinstance(p_, ast.For):
                out.append(p_)
            p_ = par.get(id(p_))
        return out
    # the index tuple of every stored array
    index_of = {}
    for n in ast.walk(f):
        if isinstance(n, ast.Name) and n.id in stored_arrays:
            p_ = par.get(id(n))
            if isinstance(p_, ast.Attribute) and p_.attr == "shape" and p_.value is n:
                continue
            if not (isinstance(p_, ast.Subscript) and p_.value is n):
                return None
            items = p_.slice.elts if isinstance(p_.slice, ast.Tuple) else [p_.slice]
            if not all(isinstance(it, ast.Name) for it in items) or len({it.id for it in items}) != len(items):
                return None
            T = tuple(it.id for it in items)
            if index_of.setdefault(n.id, T) != T:
                return None
    counters = {c for T in index_of.values() for c in T}
    ranges = {}
    stored_names = {n.id for n in ast.walk(f) if isinstance(n, ast.Name) and isinstance(n.ctx, ast.Store)}
    for n in ast.walk(f):
        if isinstance(n, ast.For):
            if not (isinstance(n.target, ast.Name) and isinstance(n.iter, ast.Call) and isinstance(n.iter.func, ast.Name)
                    and n.iter.func.id == "range" and not n.iter.keywords and 1 <= len(n.iter.args) <= 3) or n.orelse:
                return None
            if {x.id for x in ast.walk(n.iter) if isinstance(x, ast.Name)} & (stored_names | stored_arrays - params):
                return None          # not rectangular
            if n.target.id in counters:
                # only the SET of values of an index counter matters (each value has its own element): range(a, b) and the reversed
                # range(b - 1, a - 1, -1) are the same set
                try:
                    import sympy as sp
                    z = [_to_sym(t, None) for t in n.iter.args]
                    lo, hi, step = (sp.Integer(0), z[0], sp.Integer(1)) if len(z) == 1 else (z[0], z[1], z[2] if len(z) == 3 else sp.Integer(1))
                    if step == 1:
                        key = (sp.sstr(sp.expand(lo)), sp.sstr(sp.expand(hi)))
                    elif step == -1:
                        key = (sp.sstr(sp.expand(hi + 1)), sp.sstr(sp.expand(lo + 1)))
                    else:
                        return None
                except Exception:
                    return None
                if ranges.setdefault(n.target.id, key) != key:
                    return None
                if any(lp.target.id == n.target.id for lp in loops_around(n)):
                    return None
    if set(ranges) != counters:
        return None
    # every statement: inside exactly the index loops of the element it writes; reads only that element of the stored arrays
    for n in ast.walk(f):
        if isinstance(n, ast.Assign):
            if len(n.targets) != 1 or not isinstance(n.targets[0], ast.Subscript):
                return None
            X = n.targets[0].value.id
            around = [lp.target.id for lp in loops_around(n)]
            if sorted(c for c in around if c in counters) != sorted(index_of[X]):
                return None
            for x in ast.walk(n.value):
                if isinstance(x, ast.Name) and x.id in stored_arrays and x.id != X:
                    return None
        elif isinstance(n, ast.If):
            if any(isinstance(x, ast.Name) and x.id in stored_arrays for x in ast.walk(n.test)):
                return None

    def strip(block):
        out = []
        for st in block:
            for fld in ("body", "orelse"):
                b = getattr(st, fld, None)
                if isinstance(b, list) and b and isinstance(b[0], ast.stmt):
                    setattr(st, fld, strip(b) or [ast.Pass()])
            if isinstance(st, ast.For) and st.target.id in counters:
                out += [s_ for s_ in st.body if not isinstance(s_, ast.Pass)]
            else:
                out.append(st)
        return out
    f.body = strip(f.body) or [ast.Pass()]
    return ast.parse(ast.unparse(ast.fix_missing_locations(f))).body[0], index_of, ranges


def module_constants(tree: ast.Module) -> dict:
    """module-level `NAME = <scalar expression>` bound once (e.g. TWO_PI = 2 * pi): usable inside the functions like a literal"""
    seen: dict[str, list] = {}
    for st in tree.body:
        for n in ast.walk(st) if not isinstance(st, (ast.FunctionDef, ast.ClassDef)) else []:
            if isinstance(n, ast.Name) and isinstance(n.ctx, ast.Store):
                seen.setdefault(n.id, []).append(st)
    out = {}
    for name, sts in seen.items():
        st = sts[0]
        if len(sts) == 1 and isinstance(st, ast.Assign) and len(st.targets) == 1 and isinstance(st.targets[0], ast.Name) \
                and all(isinstance(n, (ast.BinOp, ast.UnaryOp, ast.Name, ast.Constant, ast.operator, ast.unaryop, ast.expr_context, ast.Attribute))
                        for n in ast.walk(st.value)):
            out[name] = st.value
    return out


def _bound_names(fn, tree):
    """names whose meaning is visible: parameters, locals, imports, module-level functions, builtins"""
    import builtins
    out = set(dir(builtins)) | {a.arg for a in fn.args.args + fn.args.kwonlyargs}
    for n in ast.walk(fn):
        if isinstance(n, ast.Name) and isinstance(n.ctx, ast.Store):
            out.add(n.id)
        elif isinstance(n, (ast.Import, ast.ImportFrom)):
            out |= {(a.asname or a.name).split(".")[0] for a in n.names}
    for st in (tree.body if tree is not None else []):
        if isinstance(st, (ast.Import, ast.ImportFrom)):
            out |= {(a.asname or a.name).split(".")[0] for a in st.names}
        elif isinstance(st, (ast.FunctionDef, ast.ClassDef)):
            out.add(st.name)
    return out


_NUMERIC_MODULES = {"numpy", "math", "cmath", "scipy"}


def _import_aliases(fn, tree):
    """{local name: imported name} for `from numpy import abs as np_abs`, and the names under which numeric modules are imported"""
    ren, mods = {}, set()
    nodes = [n for n in ast.walk(fn) if isinstance(n, (ast.Import, ast.ImportFrom))]
    nodes += [st for st in (tree.body if tree is not None else []) if isinstance(st, (ast.Import, ast.ImportFrom))]
    for n in nodes:
        if isinstance(n, ast.ImportFrom) and (n.module or "").split(".")[0] in _NUMERIC_MODULES:
            for a in n.names:
                if a.asname and a.asname != a.name:
                    ren[a.asname] = a.name
        elif isinstance(n, ast.Import):
            for a in n.names:
                if a.name.split(".")[0] in _NUMERIC_MODULES:
                    mods.add(a.asname or a.name.split(".")[0])
    return ren, mods


def _array_ranks(fn):
    """{parameter: rank} from the annotations ('float[:,:]' -> 2, 'int' -> 0); parameters without a readable annotation are absent"""
    out = {}
    for a in fn.args.args:
        if a.annotation is not None:
            k = _type_kind(src(a.annotation))
            if k is not None:
                out[a.arg] = k[1]
    return out


def _scalarise_temps(f, ranks):
    """T = empty_like(A) ... T[:] = E(A, scalars) ... T[k]   ->   ... E(A[k], scalars)      (T a local rank-1 scratch array written
    once, as a whole, by an elementwise arithmetic expression and read element by element afterwards in the same block; the
    operands of E are not changed in between): the vectorised temporary and the element formula are the same values"""
    def names(e):
        return {n.id for n in ast.walk(e) if isinstance(n, ast.Name)}
    params = {a.arg for a in f.args.args}
    for _ in range(6):
        done = False
        for k0, alloc in enumerate(f.body):
            if not (isinstance(alloc, ast.Assign) and len(alloc.targets) == 1 and isinstance(alloc.targets[0], ast.Name)
                    and isinstance(alloc.value, ast.Call) and isinstance(alloc.value.func, ast.Name) and not alloc.value.keywords
                    and len(alloc.value.args) == 1):
                continue
            T, how, arg = alloc.targets[0].id, alloc.value.func.id, alloc.value.args[0]
            if T in params:
                continue
            if how in ("empty_like", "zeros_like") and isinstance(arg, ast.Name) and ranks.get(arg.id) == 1:
                length = ast.parse(f"{arg.id}.shape[0]", mode="eval").body
            elif how in ("empty", "zeros") and all(isinstance(n, (ast.Name, ast.Constant, ast.BinOp, ast.operator, ast.expr_context, ast.Subscript,
                                                                  ast.Attribute)) for n in ast.walk(arg)) and not isinstance(arg, (ast.Tuple, ast.List)):
                length = arg
            else:
                continue
            # every other occurrence of T
            for n in ast.walk(f):
                for ch in ast.iter_child_nodes(n):
                    ch._sc_parent = n
            occ = [n for n in ast.walk(f) if isinstance(n, ast.Name) and n.id == T and n is not alloc.targets[0]]
            writes, reads, shapes, bad = [], [], [], False
            for n in occ:
                par = getattr(n, "_sc_parent", None)
                if isinstance(par, ast.Subscript) and par.value is n:
                    full = isinstance(par.slice, ast.Slice) and par.slice.lower is None and par.slice.upper is None and par.slice.step is None
                    if isinstance(par.ctx, ast.Store) and full:
                        writes.append(par)
                    elif isinstance(par.ctx, ast.Load) and not isinstance(par.slice, (ast.Slice, ast.Tuple)):
                        reads.append(par)
                    else:
                        bad = True
                elif isinstance(par, ast.Attribute) and par.attr == "shape" and isinstance(getattr(par, "_sc_parent", None), ast.Subscript) \
                        and isinstance(par._sc_parent.slice, ast.Constant) and par._sc_parent.slice.value == 0:
                    shapes.append(par._sc_parent)
                else:
                    bad = True
            if bad or len(writes) != 1 or not reads:
                continue
            W = getattr(writes[0], "_sc_parent", None)
            if not (isinstance(W, ast.Assign) and len(W.targets) == 1 and W.targets[0] is writes[0]):
                continue
            E = W.value
            # elementwise arithmetic over rank-1 array parameters, elements of rank-1 arrays and scalars
            arrays, ok = set(), True
            local_arrays = {n.value.id for n in ast.walk(f) if isinstance(n, ast.Subscript) and isinstance(n.value, ast.Name)} - params
            for n in ast.walk(E):
                par = getattr(n, "_sc_parent", None)
                if isinstance(n, ast.Name):
                    if isinstance(par, ast.Subscript) and par.value is n:
                        if ranks.get(n.id) != 1 or isinstance(par.slice, (ast.Slice, ast.Tuple)):
                            ok = False
                    elif ranks.get(n.id) == 1:
                        arrays.add(n.id)
                    elif ranks.get(n.id, 0) != 0 or n.id in local_arrays or n.id == T:
                        ok = False
                    elif n.id not in params and n.id not in ranks and isinstance(par, ast.Attribute):
                        ok = False
                elif not isinstance(n, (ast.BinOp, ast.UnaryOp, ast.Constant, ast.Subscript, ast.operator, ast.unaryop, ast.expr_context)):
                    ok = False
                elif isinstance(n, ast.BinOp) and not isinstance(n.op, (ast.Add, ast.Sub, ast.Mult, ast.Div, ast.Mod, ast.Pow)):
                    ok = False
            if not ok or not arrays:
                continue
            # the block of the write; reads lie in the statements after it; operands unchanged there
            block = None

            def find(b):
                nonlocal block
                for st in b:
                    if st is W:
                        block = b
                    for fld in ("body", "orelse"):
                        bb = getattr(st, fld, None)
                        if isinstance(bb, list) and bb and isinstance(bb[0], ast.stmt):
                            find(bb)
            find(f.body)
            if block is None:
                continue
            after = block[block.index(W) + 1:]
            inside = {id(n) for st in after for n in ast.walk(st)}
            if any(id(r) not in inside for r in reads):
                continue
            operands = names(E)
            changed_ = False
            for st in after:
                for n in ast.walk(st):
                    if isinstance(n, ast.Name) and n.id in operands and isinstance(n.ctx, ast.Store):
                        changed_ = True
                    if isinstance(n, (ast.Subscript, ast.Attribute)) and isinstance(n.ctx, ast.Store):
                        b_ = n
                        while isinstance(b_, (ast.Subscript, ast.Attribute)):
                            b_ = b_.value
                        if isinstance(b_, ast.Name) and b_.id in operands:
                            changed_ = True
                    if isinstance(n, ast.Expr) and isinstance(n.value, ast.Call) and names(n.value) & operands:
                        changed_ = True
            if changed_:
                continue
            for r in reads:
                idx = r.slice
                if names(idx) & {T}:
                    ok = False
            if not ok:
                continue

            def element(idx):
                e = ast.parse(ast.unparse(E), mode="eval").body
                for n in ast.walk(e):
                    for ch in ast.iter_child_nodes(n):
                        ch._el_parent = n

                class X(ast.NodeTransformer):
                    def visit_Subscript(self, n):
                        return n            # an element of an array: a scalar already

                    def visit_Name(self, n):
                        if n.id in arrays:
                            return ast.Subscript(value=n, slice=ast.parse(ast.unparse(idx), mode="eval").body, ctx=ast.Load())
                        return n
                return X().visit(e)

            class Rep(ast.NodeTransformer):
                def visit_Subscript(self, n):
                    if any(n is r for r in reads):
                        return element(n.slice)
                    if any(n is s_ for s_ in shapes):
                        return ast.parse(ast.unparse(length), mode="eval").body
                    self.generic_visit(n)
                    return n
            new_f = Rep().visit(f)
            _remove_stmt(new_f, W)
            _remove_stmt(new_f, alloc)
            ast.fix_missing_locations(new_f)
            done = True
            break
        if not done:
            break
    return f


def _positional_calls(f, tree):
    """g(a, b, der=0) -> g(a, b, 0) for the functions defined in the same module (keyword arguments put at their positions,
    omitted trailing defaults written out): one spelling for one binding"""
    defs = {st.name: st for st in tree.body if isinstance(st, ast.FunctionDef)}
    local = {a.arg for a in f.args.args} | {n.id for n in ast.walk(f) if isinstance(n, ast.Name) and isinstance(n.ctx, ast.Store)}

    class T(ast.NodeTransformer):
        def visit_Call(self, n):
            self.generic_visit(n)
            if not (isinstance(n.func, ast.Name) and n.func.id in defs and n.func.id not in local):
                return n
            d = defs[n.func.id]
            if d.args.vararg or d.args.kwarg or d.args.kwonlyargs or any(isinstance(a, ast.Starred) for a in n.args) \
                    or any(k.arg is None for k in n.keywords):
                return n
            formals = [a.arg for a in d.args.args]
            defaults = dict(zip(formals[len(formals) - len(d.args.defaults):], d.args.defaults))
            kws = {k.arg: k.value for k in n.keywords}
            if len(n.args) > len(formals) or any(k not in formals[len(n.args):] for k in kws) or len(kws) != len(n.keywords):
                return n
            out = list(n.args)
            for p_ in formals[len(n.args):]:
                if p_ in kws:
                    out.append(kws[p_])
                elif p_ in defaults and all(isinstance(x, (ast.Constant, ast.UnaryOp, ast.operator, ast.unaryop)) for x in ast.walk(defaults[p_])):
                    out.append(ast.parse(ast.unparse(defaults[p_]), mode="eval").body)
                else:
                    return n
            return ast.Call(func=n.func, args=out, keywords=[])
    return ast.fix_missing_locations(T().visit(f))


def canon_fn(fn: ast.FunctionDef, pure: set, tree: ast.Module = None) -> ast.FunctionDef:
    ren, mods = _import_aliases(fn, tree)
    ranks = _array_ranks(fn)
    pure = set(pure) | {_WRAP_ONCE, _WRAP_LOOPS}
    f = _strip(fn)
    try:
        kinds = {a.arg: (_type_kind(src(a.annotation)) or (None,))[0] for a in fn.args.args if a.annotation is not None}
        f = _view_aliases(f, kinds)
    except Exception:
        f = _strip(fn)
    if any(r_ == 1 for r_ in ranks.values()):
        class Sz(ast.NodeTransformer):
            def visit_Attribute(self, n):
                self.generic_visit(n)
                # the number of elements of a vector is its first extent
                if n.attr == "size" and isinstance(n.value, ast.Name) and ranks.get(n.value.id) == 1 and isinstance(n.ctx, ast.Load):
                    return ast.parse(f"{n.value.id}.shape[0]", mode="eval").body
                return n
        f = ast.fix_missing_locations(Sz().visit(f))
    base = ast.parse(ast.unparse(f)).body[0]
    try:
        f = _scalarise_temps(f, ranks)
    except Exception:
        f = base
    if tree is not None:
        f = _positional_calls(f, tree)
    if ren or mods:
        local = {a.arg for a in f.args.args} | {n.id for n in ast.walk(f) if isinstance(n, ast.Name) and isinstance(n.ctx, ast.Store)}

        class A(ast.NodeTransformer):
            def visit_Name(self, n):
                if isinstance(n.ctx, ast.Load) and n.id in ren and n.id not in local and ren[n.id] not in local:
                    return ast.Name(id=ren[n.id], ctx=ast.Load())
                return n

            def visit_Attribute(self, n):
                self.generic_visit(n)
                if isinstance(n.value, ast.Name) and n.value.id in mods and n.value.id not in local and n.attr not in local \
                        and isinstance(n.ctx, ast.Load):
                    return ast.Name(id=n.attr, ctx=ast.Load())          # np.abs -> abs
                return n
        f = ast.fix_missing_locations(A().visit(f))
    if tree is not None:
        consts = module_constants(tree)
        local = {a.arg for a in f.args.args} | {n.id for n in ast.walk(f) if isinstance(n, ast.Name) and isinstance(n.ctx, ast.Store)}
        for _ in range(3):        # constants defined from constants

            class C(ast.NodeTransformer):
                def visit_Name(self, n):
                    if isinstance(n.ctx, ast.Load) and n.id in consts and n.id not in local:
                        return ast.parse(ast.unparse(consts[n.id]), mode="eval").body
                    return n
            f = C().visit(f)
    f = _continue_to_else(f)
    _absorb_guards(f.body)
    _wrap_loops(f.body)
    _wrap_intervals(f.body)
    _wrap_once(f.body)
    _accumulators(f)
    f.body = _control(f.body) or [ast.Pass()]
    f = _inline_temps(f, pure, ranks)
    f.body = [s for s in f.body if not isinstance(s, ast.Pass)] or [ast.Pass()]
    f = _flatten_subscripts(f)
    f = _sort_operands(f)
    f = ast.parse(ast.unparse(ast.fix_missing_locations(f))).body[0]
    return f


# ---------------------------------------------------------------------------------------------------------
# statement-by-statement comparison of two canonical bodies with the same control skeleton
# ---------------------------------------------------------------------------------------------------------

class _Skeleton(Exception):
    pass


_GUARDS = {}      # id(statement of the copy) -> conditions (of either side) the statement is control dependent on


def _pair_bodies(a, b, out, guards=()):
    if len(a) != len(b):
        raise _Skeleton(f"{len(a)} statements against {len(b)}")
    guards = tuple(guards)
    for x, y in zip(a, b):
        if type(x) is not type(y):
            raise _Skeleton(f"`{src(x).splitlines()[0][:50]}` against `{src(y).splitlines()[0][:50]}`")
        _GUARDS[id(y)] = guards
        if isinstance(x, ast.Assign):
            if len(x.targets) != len(y.targets):
                raise _Skeleton("assignment targets")
            for t, u in zip(x.targets, y.targets):
                if _base_name(t) != _base_name(u) or type(t) is not type(u):
                    # another variable is assigned here: statements re-ordered or renamed, not an operand slip
                    raise _Skeleton(f"`{src(x)[:50]}` assigns `{_base_name(t)}`, its counterpart `{_base_name(u)}`")
                out.append((t, u, x, y, "target"))
            out.append((x.value, y.value, x, y, "value"))
        elif isinstance(x, (ast.Expr, ast.Return)):
            if (x.value is None) != (y.value is None):
                raise _Skeleton("return value")
            if x.value is not None:
                out.append((x.value, y.value, x, y, "value"))
        elif isinstance(x, ast.If) and x.orelse and y.orelse and _complementary(x.test, y.test):
            # if a != b: A else: B  against  if a == b: B' else: A'  (also a <= b against b < a): the same two-way branch with its arms
            # written in the other order (numbers that are not NaN)
            inner = guards + (x.test, y.test)
            _pair_bodies(x.body, y.orelse, out, inner)
            _pair_bodies(x.orelse, y.body, out, inner)
        elif isinstance(x, (ast.If, ast.While)):
            out.append((x.test, y.test, x, y, "condition"))
            inner = guards + (x.test, y.test)
            _pair_bodies(x.body, y.body, out, inner)
            _pair_bodies(x.orelse, y.orelse, out, inner)
            if isinstance(x, ast.If) and (_terminates(x.body) or _terminates(y.body)):
                guards = inner          # what follows an arm that returns runs under the negated condition
        elif isinstance(x, ast.For):
            if ast.dump(x.target) != ast.dump(y.target):
                raise _Skeleton(f"loop over `{src(x.target)}` against loop over `{src(y.target)}`")
            out.append((x.iter, y.iter, x, y, "loop range"))
            _pair_bodies(x.body, y.body, out, guards)
            _pair_bodies(x.orelse, y.orelse, out, guards)
        elif isinstance(x, (ast.Pass, ast.Break, ast.Continue)):
            pass
        else:
            if ast.dump(x) != ast.dump(y):
                raise _Skeleton(f"statement `{src(x)[:50]}`")


def _complementary(t1, t2):
    """two comparisons of which exactly one holds (for numbers that are not NaN): a == b / a != b, a <= b / b < a, a < b / b <= a
    with identical operands (`>` and `>=` were turned round by the canonical form)"""
    if not (isinstance(t1, ast.Compare) and isinstance(t2, ast.Compare) and len(t1.ops) == 1 and len(t2.ops) == 1):
        return False
    o1, o2 = type(t1.ops[0]), type(t2.ops[0])
    l1, r1, l2, r2 = ast.dump(t1.left), ast.dump(t1.comparators[0]), ast.dump(t2.left), ast.dump(t2.comparators[0])
    if {o1, o2} == {ast.Eq, ast.NotEq}:
        return (l1, r1) == (l2, r2) or (l1, r1) == (r2, l2)
    if {o1, o2} == {ast.Lt, ast.LtE}:
        return (l1, r1) == (r2, l2)
    return False


def _equality_knowledge(stmt, a, b):
    """does the statement run under an (in)equality test that mentions names of the two expressions?  Then one side may be
    the other rewritten with that equality (span == ncells: `span + 2` is `ncells + 2`), which is no operand slip"""
    names = {n.id for e in (a, b) for n in ast.walk(e) if isinstance(n, ast.Name)}
    for g in _GUARDS.get(id(stmt), ()):
        for c in ast.walk(g):
            if isinstance(c, ast.Compare) and any(isinstance(o, (ast.Eq, ast.NotEq)) for o in c.ops):
                if names & {n.id for n in ast.walk(c) if isinstance(n, ast.Name)}:
                    return True
    return False


def _base_name(t):
    while isinstance(t, (ast.Subscript, ast.Attribute, ast.Starred)):
        t = t.value
    return t.id if isinstance(t, ast.Name) else src(t)


def _to_sym(e, atoms):
    """arithmetic expression -> sympy, everything that is not arithmetic (subscripts, calls, attributes) an uninterpreted atom
    of its canonical arguments"""
    import sympy as sp
    if isinstance(e, ast.Constant):
        if isinstance(e.value, bool) or not isinstance(e.value, (int, float)):
            raise Undecided("constant")
        return sp.Integer(e.value) if isinstance(e.value, int) else sp.Rational(repr(e.value))
    if isinstance(e, ast.Name):
        return sp.Symbol("pi", positive=True) if e.id == "pi" else sp.Symbol(e.id)
    if isinstance(e, ast.Attribute) and src(e) in ("np.pi", "numpy.pi", "math.pi"):
        return sp.Symbol("pi", positive=True)
    if isinstance(e, ast.Call) and not e.keywords and len(e.args) == 1 and src(e.func).split(".")[-1] in ("sqrt", "exp", "tanh", "cos", "sin") \
            and src(e.func).split(".")[0] in ("np", "numpy", "math", src(e.func)):
        return getattr(sp, src(e.func).split(".")[-1])(_to_sym(e.args[0], atoms))
    if isinstance(e, ast.UnaryOp) and isinstance(e.op, (ast.USub, ast.UAdd)):
        v = _to_sym(e.operand, atoms)
        return -v if isinstance(e.op, ast.USub) else v
    if isinstance(e, ast.BinOp):
        a, b = _to_sym(e.left, atoms), _to_sym(e.right, atoms)
        if isinstance(e.op, ast.Add):
            return a + b
        if isinstance(e.op, ast.Sub):
            return a - b
        if isinstance(e.op, ast.Mult):
            return a * b
        if isinstance(e.op, ast.Div):
            return a / b
        if isinstance(e.op, ast.Pow):
            return a ** b
        if isinstance(e.op, ast.FloorDiv):
            return sp.Function("floordiv")(a, b)
        if isinstance(e.op, ast.Mod):
            return _pymod(a, b)
        raise Undecided("operator")
    if isinstance(e, ast.Subscript):
        items = e.slice.elts if isinstance(e.slice, ast.Tuple) else [e.slice]
        args = []
        for it in items:
            if isinstance(it, ast.Slice):
                args.append(sp.Function("slice_")(*[sp.Symbol("none_") if x is None else _to_sym(x, atoms) for x in (it.lower, it.upper, it.step)]))
            else:
                args.append(_to_sym(it, atoms))
        return sp.Function("at_" + src(e.value).replace(".", "_"))(*args)
    if isinstance(e, ast.Call) and not e.keywords and len(e.args) == 2 and src(e.func).split(".")[-1] == "mod":
        return _pymod(_to_sym(e.args[0], atoms), _to_sym(e.args[1], atoms))
    if isinstance(e, ast.Call) and not e.keywords and not any(isinstance(a, ast.Starred) for a in e.args):
        zs = [_to_sym(a, atoms) for a in e.args]
        if src(e.func).split(".")[-1] in ("min", "max", "minimum", "maximum", "fmin", "fmax") and len(zs) >= 2:
            zs = sorted(zs, key=sp.sstr)          # symmetric in their arguments
        return sp.Function("call_" + src(e.func).replace(".", "_"))(*zs)
    if isinstance(e, ast.Attribute):
        # X.size, X.ndim, X.real, obj.field: a value related to the object in ways the comparison does not know (X.size is
        # X.shape[0] for a vector) - an opaque application, not an independent unknown
        return sp.Function("call_attr_" + e.attr)(sp.Symbol(src(e.value).replace(".", "_").replace("[", "_").replace("]", "_").replace(" ", "")[:60]))
    raise Undecided("expression")


def _reversed_ranges(pa, pb):
    """range(a, b) against range(b - 1, a - 1, -1) (either way round): the same set of values run through in opposite directions"""
    import sympy as sp
    try:
        (s1, e1, t1), (s2, e2, t2) = [[_to_sym(x, None) for x in p_] for p_ in (pa, pb)]
        if not (t1.is_Integer and t2.is_Integer and abs(t1) == 1 and t1 == -t2):
            return False
        return sp.expand(s2 - (e1 - t1)) == 0 and sp.expand(e2 - (s1 - t1)) == 0
    except Exception:
        return False


def _pymod(a, n):
    """a % n with whole multiples of the modulus taken out of a: (a + k*n) % n is a % n for every integer k (exactly for integers,
    up to rounding for reals)"""
    import sympy as sp
    try:
        if not n.is_number:
            a = sp.expand(a)
            c = a.coeff(n, 1) if n.is_Symbol or n.is_Function else sp.Integer(0)
            if c.is_Integer and c != 0:
                a = sp.expand(a - c * n)
    except Exception:
        pass
    return sp.Function("pymod")(a, n)


def expr_same(a, b):
    """True: equal (identical, or equal as rational functions over uninterpreted atoms); False: recognisably different;
    None: cannot tell"""
    if ast.dump(a) == ast.dump(b):
        return True
    if isinstance(a, ast.Compare) or isinstance(b, ast.Compare):
        if not (isinstance(a, ast.Compare) and isinstance(b, ast.Compare)) or len(a.ops) != len(b.ops):
            return None
        if [type(o) for o in a.ops] != [type(o) for o in b.ops]:
            # a < b against b > a was normalised away: a different operator is a different condition when the operands agree
            same_operands = all(expr_same(x, y) is True for x, y in zip([a.left] + a.comparators, [b.left] + b.comparators))
            return False if same_operands else None
        rs = [expr_same(x, y) for x, y in zip([a.left] + a.comparators, [b.left] + b.comparators)]
        return False if False in rs else (None if None in rs else True)
    if isinstance(a, ast.BoolOp) or isinstance(b, ast.BoolOp):
        if not (isinstance(a, ast.BoolOp) and isinstance(b, ast.BoolOp)) or len(a.values) != len(b.values):
            return None
        rs = [expr_same(x, y) for x, y in zip(a.values, b.values)]
        if type(a.op) is not type(b.op):
            # AUDIT: `p and q` against `p or q` is a different condition only when the operands are the SAME conditions (then the two
            # differ wherever exactly one of p, q holds); with other operands it may be De Morgan's form of the same test
            return False if all(r is True for r in rs) else None
        return False if False in rs else (None if None in rs else True)
    if isinstance(a, ast.UnaryOp) and isinstance(a.op, ast.Not) and isinstance(b, ast.UnaryOp) and isinstance(b.op, ast.Not):
        return expr_same(a.operand, b.operand)
    if isinstance(a, ast.Tuple) and isinstance(b, ast.Tuple) and len(a.elts) == len(b.elts):
        rs = [expr_same(x, y) for x, y in zip(a.elts, b.elts)]
        return False if False in rs else (None if None in rs else True)
    wm = _wrap_against_mod(a, b)
    if wm != "no":
        return wm
    wm = _loops_against_closed_form(a, b)
    if wm != "no":
        return wm
    if isinstance(a, ast.Call) and isinstance(b, ast.Call) and not a.keywords and not b.keywords and src(a.func) == src(b.func) \
            and src(a.func) in (_WRAP_ONCE, _WRAP_LOOPS):
        # two conditional shifts: the same function when every part is the same; a part written differently decides nothing
        if len(a.args) != len(b.args):
            return None
        rs = []
        for x, y in zip(a.args, b.args):
            if isinstance(x, ast.Constant) and isinstance(y, ast.Constant) and (isinstance(x.value, (bool, str)) or x.value is None
                                                                                    or isinstance(y.value, (bool, str)) or y.value is None):
                rs.append(True if x.value == y.value and type(x.value) is type(y.value) else None)
            elif isinstance(x, ast.Constant) and x.value is None or isinstance(y, ast.Constant) and y.value is None:
                rs.append(None)
            else:
                rs.append(expr_same(x, y))
        if all(r is True for r in rs):
            return True
        return False if rs[0] is False and all(r is True for r in rs[1:]) else None
    if isinstance(a, ast.Call) and isinstance(b, ast.Call) and not a.keywords and not b.keywords:
        if src(a.func) == src(b.func) == "range" and 1 <= len(a.args) <= 3 and 1 <= len(b.args) <= 3:
            # range(n) is range(0, n) is range(0, n, 1): the three parts are compared
            def parts(r):
                z = list(r.args)
                return [ast.Constant(0), z[0], ast.Constant(1)] if len(z) == 1 else [z[0], z[1], z[2] if len(z) == 3 else ast.Constant(1)]
            rs = [expr_same(x, y) for x, y in zip(parts(a), parts(b))]
            if False in rs and _reversed_ranges(parts(a), parts(b)):
                # AUDIT: the same values in the opposite order: another result only if the iterations depend on one another in a way
                # that is not a re-association of a sum (which the property allows) - a matter of the loop body, not decided here
                return None
            return False if False in rs else (None if None in rs else True)
        # AUDIT (calls).  A call is a different value only under assumptions that are checked here:
        #  - two different NAMES are two different functions only when both are kernels defined in both modules being compared
        #    (library names may be aliases of one another - abs / fabs, mod / remainder, int / floor on non-negative values -
        #    and empty / zeros differ only in cells that are overwritten anyway): anything else is not comparable;
        #  - the same kernel with different arguments is a different value (the kernel is an arbitrary function of its
        #    arguments; a convention moved between caller and callee is looked at by the caller of this comparison, see
        #    `_callee_differs`); a library function with different arguments decides nothing here (abs(a - b) is abs(b - a),
        #    max(a, b) is max(b, a), (i + n) % n is i % n): those go to the formula comparison below, which knows the
        #    interpreted ones and refuses to separate two formulas over different opaque applications;
        #  - another number of arguments (after keywords and defaults of module functions were written out): not comparable.
        fa_, fb_ = src(a.func), src(b.func)
        defined = _CTX["defined"]
        if (fa_ in _CTX["changed"] or fb_ in _CTX["changed"]) and ast.dump(a) != ast.dump(b):
            # AUDIT (caller + callee are one unit): the called kernel is itself written differently in the copy, so other arguments
            # (or another kernel) at this call may be the other half of ONE change of convention between caller and callee
            return None
        if fa_ != fb_:
            if fa_ in defined and fb_ in defined:
                return False if len(a.args) == len(b.args) and all(expr_same(x, y) is True for x, y in zip(a.args, b.args)) else None
            return None
        if fa_ in defined:
            if len(a.args) != len(b.args):
                return None
            rs = [expr_same(x, y) for x, y in zip(a.args, b.args)]
            return False if False in rs else (None if None in rs else True)
        if len(a.args) != len(b.args):
            return None
        rs = [expr_same(x, y) for x, y in zip(a.args, b.args)]
        if all(r is True for r in rs):
            return True
        if None in rs and False not in rs:
            return None
        # a library function whose arguments differ: fall through to the formula comparison
    if isinstance(a, ast.Subscript) and isinstance(b, ast.Subscript) and isinstance(a.ctx, ast.Store):
        if src(a.value) != src(b.value):
            return False
    synth_a = {n.func.id for n in ast.walk(a) if isinstance(n, ast.Call) and isinstance(n.func, ast.Name) and n.func.id in (_WRAP_ONCE, _WRAP_LOOPS)}
    synth_b = {n.func.id for n in ast.walk(b) if isinstance(n, ast.Call) and isinstance(n.func, ast.Name) and n.func.id in (_WRAP_ONCE, _WRAP_LOOPS)}
    if synth_a != synth_b:
        return None          # statements named as a wrap on one side, arithmetic on the other: not comparable as formulas
    try:
        import sympy as sp
        sa, sb = _to_sym(a, None), _to_sym(b, None)
        d = sp.together(sa - sb)
        num = sp.expand(sp.numer(d))
        if num == 0:
            return True
        ne = _numerically_equal(sa, sb)
        if ne is True:
            return True
        if ne is None:
            return None          # equal wherever every atom is positive, different for some signs: a matter of the domain, not decided
        # AUDIT: "different as formulas" is a statement about polynomials over atoms that are INDEPENDENT unknowns.  Symbols and
        # array elements (at_X(index): data the callers choose) are; applications of an uninterpreted function (int, abs, min, max,
        # %, //, a kernel call ...) are independent of each other only when they are the SAME applications on both sides - with
        # different applications the two sides may still be equal by a law of that function the comparison does not know
        # (abs(-x) = abs(x), (i + n) % n = i % n, int(x + 1) = int(x) + 1).  Then nothing is decided.
        if _opaque_applications(sa) != _opaque_applications(sb):
            # ... except `(E + c) % n` against `E % n` with c a non-zero number and the rest of the formulas the same: different
            # for every modulus that does not divide c (the modulus is a size the callers choose)
            return False if _shifted_remainder(sa, sb) else None
        return False
    except Exception:
        return None


# "defined": kernels defined in BOTH modules being compared; "changed": those of them whose body in the copy is not the body of the
# reference in canonical form (set by body_equivalence / the V3 comparison)
_CTX = {"defined": set(), "changed": set()}


def _opaque_applications(e):
    """the applications of uninterpreted functions other than array elements that occur anywhere in the formula (as text)"""
    import sympy as sp
    from sympy.core.function import AppliedUndef
    return {sp.sstr(a) for a in e.atoms(AppliedUndef) if not a.func.__name__.startswith("at_")}


def _shifted_remainder(sa, sb):
    """the two formulas are the same except for ONE application that is recognisably another value:
     - pymod(E1, n) against pymod(E2, n) with the same n and E1 - E2 a non-zero integer (different for every modulus that does not
       divide the difference; the modulus is a size the callers choose);
     - a kernel defined (and written the same) in both modules, applied to arguments of which one differs as a formula over the
       same atoms (the kernel is an arbitrary function of its arguments)"""
    import sympy as sp
    from sympy.core.function import AppliedUndef
    oa = {x for x in sa.atoms(AppliedUndef) if not x.func.__name__.startswith("at_")}
    ob = {x for x in sb.atoms(AppliedUndef) if not x.func.__name__.startswith("at_")}
    only_a, only_b = [x for x in oa if x not in ob], [x for x in ob if x not in oa]
    # applications that contain a differing application differ too: look at the innermost ones
    inner_a = [x for x in only_a if not any(y is not x and x.has(y) for y in only_a)]
    inner_b = [x for x in only_b if not any(y is not x and x.has(y) for y in only_b)]
    if len(inner_a) != 1 or len(inner_b) != 1:
        return False
    x1, x2 = inner_a[0], inner_b[0]
    if x1.func.__name__ != x2.func.__name__ or len(x1.args) != len(x2.args):
        return False
    if sp.expand(sa.xreplace({x1: x2}) - sb) != 0:
        return False          # something else differs as well
    name = x1.func.__name__
    if name == "pymod":
        d = sp.expand(x1.args[0] - x2.args[0])
        return sp.expand(x1.args[1] - x2.args[1]) == 0 and bool(d.is_Integer) and d != 0
    if name.startswith("call_") and name[5:] in _CTX["defined"] and name[5:] not in _CTX["changed"]:
        differs = False
        for u, w in zip(x1.args, x2.args):
            if sp.expand(u - w) == 0:
                continue
            if _opaque_applications(u) != _opaque_applications(w) or _numerically_equal(u, w) is not False:
                return False
            differs = True
        return differs
    return False


def _numerically_equal(sa, sb):
    """two formulas that differ as written but agree (to rounding) at random values of all their atoms: the same function, e.g.
    1/6 against 0.16666666666666666, exp(a)*exp(b) against exp(a + b) -> True; False when they differ already at positive values of
    the atoms; None when they agree at positive values and differ for some signs (sqrt(x**2) against x: which of the two is meant
    depends on the domain of x, which is not known here)"""
    import random
    import sympy as sp
    from sympy.core.function import AppliedUndef
    atoms = list((sa - sb).atoms(sp.Symbol)) + list((sa - sb).atoms(AppliedUndef))
    if not atoms:
        try:
            return abs(complex(sp.N(sa - sb, 30))) < 1e-13 * (1 + abs(complex(sp.N(sa, 30))))
        except Exception:
            return False
    rnd = random.Random(20260925)

    def agree(lo, hi):
        for _ in range(3):
            rule = {a_: (sp.Float(rnd.uniform(0.6, 1.9), 30) if a_.is_positive else sp.Float(rnd.uniform(lo, hi), 30)) for a_ in atoms}
            va, vb = complex(sp.N(sa.xreplace(rule), 30)), complex(sp.N(sb.xreplace(rule), 30))
            if not (abs(va - vb) <= 1e-12 * (abs(va) + abs(vb) + 1e-30)):
                return False
        return True
    try:
        if not agree(0.6, 1.9):
            return False
    except Exception:
        return False
    try:
        return True if agree(-1.9, 1.9) else None
    except Exception:
        return None


def consumers(chk):
    """{kernel module rel: set of function names the library imports from it}"""
    want = {k: set() for k in U.KERNELS}
    modname = {k: k.split("/")[-1][:-3] for k in U.KERNELS}
    libs = [U.SPLINES, U.INTERP, U.ADV, U.ADVK, U.POISSON, U.INITIALISER, U.CU, U.NU]
    for rel in libs:
        mod = chk.mod(rel)
        for st in mod.tree.body:
            if isinstance(st, ast.ImportFrom) and st.module:
                base = st.module.split(".")[-1]
                for k, mn in modname.items():
                    if base == mn:
                        for a in st.names:
                            want[k].add(a.name)
                    elif any(a.name == mn for a in st.names):
                        # `from ..initialisation import initialiser_funcs as init` -> attribute uses
                        alias = [a.asname or a.name for a in st.names if a.name == mn][0]
                        for n in ast.walk(mod.tree):
                            if isinstance(n, ast.Attribute) and isinstance(n.value, ast.Name) and n.value.id == alias:
                                want[k].add(n.attr)
    return want


LIBS = [U.SPLINES, U.INTERP, U.ADV, U.ADVK, U.POISSON, U.INITIALISER, U.CU, U.NU, U.INITF, U.PTOOLS]


def _single_local_binding(call, name):
    """the one statement `name = <value>` of the function enclosing the call (None when bound more than once or not a plain
    assignment), and the keys added afterwards by `name[<constant>] = value`"""
    from ..core import enclosing_function
    f = enclosing_function(call)
    if f is None:
        return None, None
    binds, added, other = [], [], False
    for n in ast.walk(f):
        if isinstance(n, ast.Assign):
            for t in n.targets:
                if isinstance(t, ast.Name) and t.id == name:
                    binds.append(n)
                elif isinstance(t, ast.Subscript) and isinstance(t.value, ast.Name) and t.value.id == name:
                    if isinstance(t.slice, ast.Constant) and isinstance(t.slice.value, str) and len(n.targets) == 1:
                        added.append((t.slice.value, n.value, n))
                    else:
                        other = True
                elif any(isinstance(x, ast.Name) and x.id == name and isinstance(x.ctx, ast.Store) for x in ast.walk(t)):
                    other = True
        elif isinstance(n, (ast.AugAssign, ast.AnnAssign, ast.For, ast.With, ast.NamedExpr, ast.Delete)):
            if any(isinstance(x, ast.Name) and x.id == name and isinstance(x.ctx, (ast.Store, ast.Del)) for x in ast.walk(n)):
                if not isinstance(n, ast.For) or any(isinstance(x, ast.Name) and x.id == name for x in ast.walk(n.target)):
                    other = True
        elif isinstance(n, ast.Call) and isinstance(n.func, ast.Attribute) and isinstance(n.func.value, ast.Name) and n.func.value.id == name \
                and n.func.attr in ("update", "pop", "clear", "setdefault", "popitem", "append", "extend", "insert", "remove"):
            other = True
    if len(binds) != 1 or other or len(binds[0].targets) != 1 or any(a.arg == name for a in f.args.args + f.args.kwonlyargs):
        return None, None
    return binds[0], added


def expand_call(call):
    """positional arguments and keywords of a call with `*seq` / `**mapping` written out, when seq / mapping is a literal or a local
    bound once to a literal (`dict(k=v, ...)`, `{'k': v}`, a tuple or list display) -> (args, {keyword: value}, problem);
    problem: None, or a text saying which starred argument could not be followed, or ('twice', name)"""
    args, kws, problem = [], {}, None
    _depth = [0]

    def literal_of(e, want):
        """resolve a name to its literal; -> (node, added keys) or (None, None)"""
        added = []
        if isinstance(e, ast.Name):
            b, added = _single_local_binding(call, e.id)
            if b is None:
                return None, None
            # the binding must come before the call, later additions between binding and call count
            if (b.lineno, b.col_offset) > (call.lineno, call.col_offset):
                return None, None
            added = [(k, v_) for k, v_, st in added if (st.lineno, st.col_offset) < (call.lineno, call.col_offset)] \
                if all((st.lineno, st.col_offset) < (call.lineno, call.col_offset) for _, _, st in added) else None
            if added is None:
                return None, None
            e = b.value
        if isinstance(e, ast.Attribute) and isinstance(e.value, ast.Name) and e.value.id == "self":
            # an attribute of the object bound exactly once in its class to a display
            cls = parent(call)
            while cls is not None and not isinstance(cls, ast.ClassDef):
                cls = parent(cls)
            # (the class together with the base classes / mixins defined in the same module: an attribute may be provided by any of them)
            family, todo = [], [cls] if cls is not None else []
            mod_ = cls
            while mod_ is not None and not isinstance(mod_, ast.Module):
                mod_ = parent(mod_)
            by_name = {st.name: st for st in (mod_.body if mod_ is not None else []) if isinstance(st, ast.ClassDef)}
            while todo:
                c_ = todo.pop()
                if any(c_ is f_ for f_ in family):
                    continue
                family.append(c_)
                todo += [by_name[b_.id] for b_ in c_.bases if isinstance(b_, ast.Name) and b_.id in by_name]
            sets = [n for c_ in family for n in ast.walk(c_) if isinstance(n, (ast.Assign, ast.AugAssign, ast.AnnAssign))
                    for t in (n.targets if isinstance(n, ast.Assign) else [n.target])
                    for x in ast.walk(t) if isinstance(x, ast.Attribute) and x.attr == e.attr and isinstance(x.value, ast.Name)
                    and x.value.id == "self" and isinstance(x.ctx, ast.Store)]
            # ... or a class-level constant `attr = <display>` that no method re-binds
            level = [st for c_ in family for st in c_.body if isinstance(st, ast.Assign) and len(st.targets) == 1
                     and isinstance(st.targets[0], ast.Name) and st.targets[0].id == e.attr]
            # ... or a property (plain or cached) whose one `return` gives a display: `*self.params` then has as many elements as
            # the display, whatever object the property is read on
            props = [st for c_ in family for st in c_.body if isinstance(st, ast.FunctionDef) and st.name == e.attr
                     and any(src(d).split(".")[-1] in ("property", "cached_property") for d in st.decorator_list)]
            if len(props) == 1 and not sets and not level:
                rets = [n for n in ast.walk(props[0]) if isinstance(n, ast.Return)]
                if len(rets) == 1 and rets[0].value is not None:
                    e = rets[0].value
                else:
                    return None, None
            elif len(level) == 1 and not sets:
                e = level[0].value
            elif len(sets) != 1 or level or not isinstance(sets[0], ast.Assign) or len(sets[0].targets) != 1 \
                    or not isinstance(sets[0].targets[0], ast.Attribute):
                return None, None
            else:
                e = sets[0].value
        if want == "seq":
            # [E(x) for x in <literal sequence>] (also inside list(...) / tuple(...)): one element per element of the sequence
            comp = e.args[0] if isinstance(e, ast.Call) and isinstance(e.func, ast.Name) and e.func.id in ("list", "tuple") and len(e.args) == 1 \
                and not e.keywords else e
            if isinstance(comp, (ast.ListComp, ast.GeneratorExp)) and len(comp.generators) == 1 and not comp.generators[0].ifs \
                    and not comp.generators[0].is_async and isinstance(comp.generators[0].target, ast.Name) and not added and _depth[0] < 3:
                _depth[0] += 1
                try:
                    inner, _ = literal_of(comp.generators[0].iter, "seq")
                finally:
                    _depth[0] -= 1
                if inner is not None:
                    x_ = comp.generators[0].target.id

                    def inst(val):
                        class S(ast.NodeTransformer):
                            def visit_Name(self, n):
                                return ast.parse(ast.unparse(val), mode="eval").body if n.id == x_ and isinstance(n.ctx, ast.Load) else n
                        return ast.fix_missing_locations(S().visit(ast.parse(ast.unparse(comp.elt), mode="eval").body))
                    return ast.Tuple(elts=[inst(v_) for v_ in inner.elts], ctx=ast.Load()), []
        if want == "seq" and isinstance(e, (ast.Tuple, ast.List)) and not any(isinstance(x, ast.Starred) for x in e.elts) and not added:
            return e, []
        if want == "map":
            if isinstance(e, ast.Dict) and all(isinstance(k, ast.Constant) and isinstance(k.value, str) for k in e.keys):
                return e, added
            if isinstance(e, ast.Call) and isinstance(e.func, ast.Name) and e.func.id == "dict" and not e.args \
                    and all(k.arg is not None for k in e.keywords):
                return e, added
        return None, None
    for a in call.args:
        if isinstance(a, ast.Starred):
            lit, _ = literal_of(a.value, "seq")
            if lit is None:
                problem = problem or f"`*{src(a.value)[:30]}` is not a tuple/list display (or a local bound once to one)"
                continue
            args += list(lit.elts)
        else:
            args.append(a)
    for k in call.keywords:
        if k.arg is not None:
            items = [(k.arg, k.value)]
        else:
            lit, added = literal_of(k.value, "map")
            if lit is None:
                problem = problem or f"`**{src(k.value)[:30]}` is not a dict display / dict(k=v, ...) (or a local bound once to one)"
                continue
            items = [(kk.value, vv) for kk, vv in zip(lit.keys, lit.values)] if isinstance(lit, ast.Dict) else [(kk.arg, kk.value) for kk in lit.keywords]
            seen_here = {}
            for kk, vv in items + list(added):
                seen_here[kk] = vv          # a later `d['k'] = v` replaces the entry
            items = list(seen_here.items())
        for kk, vv in items:
            if kk in kws and not isinstance(problem, tuple):
                problem = ("twice", kk)
            kws[kk] = vv
    return args, kws, problem


def keyword_calls(chk):
    """{function name: set of keyword names some library call passes}"""
    out: dict[str, set] = {}
    for rel in LIBS:
        aliases = _kernel_module_aliases(chk.mod(rel))
        for c in ast.walk(chk.mod(rel).tree):
            if isinstance(c, ast.Call) and c.keywords:
                # (a method that happens to have the name of a kernel is not a call of it: attribute calls count only on a kernel module)
                name = c.func.id if isinstance(c.func, ast.Name) else c.func.attr if isinstance(c.func, ast.Attribute) \
                    and isinstance(c.func.value, ast.Name) and c.func.value.id in aliases else None
                for name in ([name] if name else []) + sorted(_dispatched(chk, c)):
                    out.setdefault(name, set()).update(k.arg for k in c.keywords if k.arg)
                    if any(k.arg is None for k in c.keywords):
                        _, kws, problem = expand_call(c)
                        out[name].update(kws)
                        if problem is not None and not isinstance(problem, tuple):
                            out[name].add("**")          # keywords passed through a mapping that could not be followed
    return out


def _dispatch_fields(chk):
    """kernels reached through a small table: {field or key: set of kernel function names} for every record / dict display of the library
    whose entries are kernel functions - `T(field=kernel, ...)` (keyword constructor, e.g. a namedtuple or dataclass),
    `T(kernel, ...)` with `T = namedtuple('T', [<literal fields>])`, `{'key': kernel, ...}` / `dict(key=kernel)`.  A call `X.field(...)`
    / `X['key'](...)` is then a call of each of these kernels (which one is chosen at run time)."""
    cache = chk.__dict__.get("_c19_dispatch")
    if cache is not None:
        return cache
    kernels = set()
    for k in U.KERNELS:
        kernels |= {q for q in chk.mod(k).functions() if "." not in q}
    out: dict[str, set] = {}
    for rel in LIBS:
        tree = chk.mod(rel).tree
        fields_of = {}
        for st in ast.walk(tree):
            if isinstance(st, ast.Assign) and len(st.targets) == 1 and isinstance(st.targets[0], ast.Name) and isinstance(st.value, ast.Call) \
                    and src(st.value.func).split(".")[-1] == "namedtuple" and len(st.value.args) >= 2:
                spec = st.value.args[1]
                if isinstance(spec, (ast.List, ast.Tuple)) and all(isinstance(e, ast.Constant) and isinstance(e.value, str) for e in spec.elts):
                    fields_of[st.targets[0].id] = [e.value for e in spec.elts]
                elif isinstance(spec, ast.Constant) and isinstance(spec.value, str):
                    fields_of[st.targets[0].id] = spec.value.replace(",", " ").split()
        for n in ast.walk(tree):
            if isinstance(n, ast.Call):
                for kw in n.keywords:
                    if kw.arg and isinstance(kw.value, ast.Name) and kw.value.id in kernels:
                        out.setdefault(kw.arg, set()).add(kw.value.id)
                if isinstance(n.func, ast.Name) and n.func.id in fields_of:
                    for fld, a in zip(fields_of[n.func.id], n.args):
                        if isinstance(a, ast.Name) and a.id in kernels:
                            out.setdefault(fld, set()).add(a.id)
            elif isinstance(n, ast.Dict):
                for k_, v_ in zip(n.keys, n.values):
                    if isinstance(k_, ast.Constant) and isinstance(k_.value, str) and isinstance(v_, ast.Name) and v_.id in kernels:
                        out.setdefault(k_.value, set()).add(v_.id)
    out = {f_: ks for f_, ks in out.items() if f_ not in kernels}
    chk.__dict__["_c19_dispatch"] = out
    return out


def _dispatched(chk, c):
    """the kernels a call `X.field(...)` / `X['key'](...)` may reach through a dispatch table (empty when it is not such a call)"""
    table = _dispatch_fields(chk)
    if isinstance(c.func, ast.Attribute) and c.func.attr in table:
        return table[c.func.attr]
    if isinstance(c.func, ast.Subscript) and isinstance(c.func.slice, ast.Constant) and isinstance(c.func.slice.value, str) \
            and c.func.slice.value in table:
        return table[c.func.slice.value]
    return set()


def _kernel_module_aliases(mod):
    """names under which a kernel module as a whole is imported in the module (`from ..initialisation import initialiser_funcs as init`)"""
    cached = getattr(mod, "_c19_kaliases", None)
    if cached is not None:
        return cached
    kmods = {k.split("/")[-1][:-3] for k in U.KERNELS}
    aliases = set()
    for st in mod.tree.body:
        if isinstance(st, ast.ImportFrom):
            aliases |= {a.asname or a.name for a in st.names if a.name in kmods}
        elif isinstance(st, ast.Import):
            aliases |= {a.asname for a in st.names if a.asname and a.name.split(".")[-1] in kmods}
    try:
        mod._c19_kaliases = aliases
    except Exception:
        pass
    return aliases


def library_calls(chk):
    """{function name: [(file, call, positional arguments, {keyword: value}, problem)]} of the library calls by that name
    (starred arguments written out, see expand_call)"""
    cache = chk.__dict__.setdefault("_c19_libcalls", None)
    if cache is not None:
        return cache
    out: dict[str, list] = {}
    for rel in LIBS:
        mod = chk.mod(rel)
        for c in ast.walk(mod.tree):
            if isinstance(c, ast.Call):
                name = c.func.id if isinstance(c.func, ast.Name) else c.func.attr if isinstance(c.func, ast.Attribute) else None
                via = _dispatched(chk, c)
                if via:
                    args, kws, problem = expand_call(c)
                    for kname in sorted(via):
                        out.setdefault(kname, []).append((rel, c, args, kws, problem))
                    continue
                if name is None or (isinstance(c.func, ast.Name) and (_shadowed(c, name) or not _imported(mod, name, c))):
                    continue
                # AUDIT: `obj.name(...)` is a call of the kernel `name` only when obj is a kernel MODULE imported as a whole; a
                # method that happens to have the name of a kernel is not a call of it
                if isinstance(c.func, ast.Attribute) and not (isinstance(c.func.value, ast.Name) and c.func.value.id in _kernel_module_aliases(mod)):
                    continue
                args, kws, problem = expand_call(c)
                out.setdefault(name, []).append((rel, c, args, kws, problem))
    chk.__dict__["_c19_libcalls"] = out
    return out


def parameter_lists(chk, fn, vf, q, kwcalls):
    """the library calls of the function (written for the reference) bind the same way in the copy -> (True/False/None, why)"""
    pa, pb = [a.arg for a in fn.args.args], [a.arg for a in vf.args.args]
    da, db = list(fn.args.defaults), list(vf.args.defaults)
    if vf.args.vararg or vf.args.kwarg or vf.args.kwonlyargs or fn.args.vararg or fn.args.kwarg or fn.args.kwonlyargs:
        same = ast.dump(_bare_args(fn)) == ast.dump(_bare_args(vf))
        return (True, "same parameter list") if same else (None, "variadic / keyword-only parameters: binding not compared")
    # AUDIT (V1): "a call written for the reference does not bind in the copy" needs a call that really meets the copy: a call in
    # flavour-independent library code (or in another kernel module, whose copy is compared with it call by call).  Calls inside the
    # reference module ITSELF are not evidence - the copy has its own callers, which V4 compares - so they are left out here.
    own = next((k for k in U.KERNELS if chk.mod(k).has(q) and chk.mod(k).func(q) is fn), None)
    calls = [c for c in library_calls(chk).get(q, []) if c[0] != own]
    unfollowed = [c for c in calls if c[4] is not None and not isinstance(c[4], tuple)]

    def at(c):
        return f"{c[0].split('/')[-1]}:{c[1].lineno}"
    req_a, req_b = len(pa) - len(da), len(pb) - len(db)
    if len(pb) < len(pa):
        extra = pa[len(pb):]
        hits = [c for c in calls if len(c[2]) > len(pb) or any(k in extra for k in c[3])]
        if hits:
            passed = extra[0] if len(hits[0][2]) > len(pb) else [k for k in hits[0][3] if k in extra][0]
            return False, (f"the copy takes {len(pb)} parameters {pb}, the reference {len(pa)} {pa}; the call at {at(hits[0])} passes "
                           f"`{passed}`, which the copy does not take: the call does not bind in the copy (TypeError)")
        if len(pb) < req_a:
            if not calls or unfollowed:
                return None, (f"the copy takes {len(pb)} parameters, the reference requires {req_a}; no library call of `{q}` could be bound "
                              "to show the mismatch")
            return False, (f"the copy takes {len(pb)} parameters {pb}, the reference requires {req_a} {pa[:req_a]}: a call that passes the "
                           "required arguments of the reference does not bind in the copy")
        if unfollowed:
            return None, (f"the reference has {len(extra)} more optional parameter(s) {extra} than the copy and the call at {at(unfollowed[0])} "
                          "passes arguments through a starred expression that could not be followed")
        note = f"the reference has {len(extra)} more optional parameter(s) {extra}, which none of the {len(calls)} library call(s) passes; "
        pa_c, da_c = pa[:len(pb)], da[:len(da) - len(extra)]
    else:
        note, pa_c, da_c = "", pa, da
    req_ac = len(pa_c) - len(da_c)
    if req_b > len(pa_c):
        return False, (f"the copy requires {req_b} arguments {pb[:req_b]}, the reference takes only {len(pa_c)}: calls written for the "
                       "reference do not bind")
    if req_b > req_ac:
        lost = pa_c[req_ac:req_b]
        rely = [c for c in calls if any(pa_c.index(x) >= len(c[2]) and x not in c[3] for x in lost)]
        if rely and not unfollowed:
            return False, (f"the copy has no default for {lost}, which the reference has ({[src(d) for d in da_c[:len(lost)]]}); the call at "
                           f"{at(rely[0])} relies on the default: it does not bind in the copy (TypeError)")
        if unfollowed or not calls:
            return None, f"the copy has no default for {lost}, which the reference has; whether a library call relies on it is not decided"
        note += f"the copy has no default for {lost} (the reference has), but every one of the {len(calls)} library call(s) passes it; "
        db = [None] * (req_b - req_ac) + db
        req_b = req_ac
    # defaults of the shared optional parameters
    for k in range(max(req_ac, req_b), len(pa_c)):
        ea, eb = da_c[k - req_ac], db[k - req_b]
        if eb is None:
            continue
        r = expr_same(ea, eb)
        if r is False:
            return False, (f"default of parameter {k + 1} `{pb[k]}` is `{src(eb)}`, the reference has `{src(ea)}`: a call that omits it "
                           "computes something else in the copy")
        if r is None:
            return None, f"defaults `{src(eb)}` / `{src(ea)}` of parameter {k + 1} not comparable"
    renamed = [(x, y) for x, y in zip(pa_c, pb) if x != y]
    if renamed:
        used = sorted(x for x, _ in renamed if x in kwcalls.get(q, set()))
        if not used and "**" in kwcalls.get(q, set()):
            return None, (f"positional parameters renamed {renamed} and a library call passes keywords through a `**mapping` that could "
                          "not be followed: whether a renamed parameter is passed by keyword is not decided")
        if used:
            return False, (f"parameters {used} of the reference are called {[y for x, y in renamed if x in used]} in the copy and a "
                           "library call passes them by keyword: the call does not bind in the copy")
        return True, (note + f"positional parameters renamed {renamed}; no library call passes them by keyword; "
                      "every default of the reference a call relies on is kept")
    return True, note + "same positional parameters; every default of the reference a call relies on is kept"


def _bare_args(fn):
    a = ast.parse(ast.unparse(fn)).body[0].args
    for x in a.args + a.kwonlyargs + a.posonlyargs + [y for y in (a.vararg, a.kwarg) if y]:
        x.annotation = None
    return a


def _rename_params(vf, pa):
    """the copy with its positional parameters called as in the reference (None when that would capture a local)"""
    pb = [a.arg for a in vf.args.args]
    if pb == pa:
        return vf
    if len(pb) < len(pa):
        return None
    ren = {y: x for x, y in zip(pa, pb) if x != y}
    others = {n.id for n in ast.walk(vf) if isinstance(n, ast.Name)} | set(pb)
    if any(x in others and x not in ren for x in ren.values()):
        return None
    f = ast.parse(ast.unparse(vf)).body[0]
    for a in f.args.args:
        a.arg = ren.get(a.arg, a.arg)
    for n in ast.walk(f):
        if isinstance(n, ast.Name) and n.id in ren:
            n.id = ren[n.id]
    return f


# ---------------------------------------------------------------------------------------------------------
# engine G: a loop-free value function as a table of guarded values.  Every path through the `if`s of the body is
# followed symbolically (locals substituted forward, conditions collected as linear (in)equalities over the inputs and
# over opaque terms such as int(...)); two functions are the same when, on every pair of paths that can be taken by
# the same input, the returned values are equal under the equalities of the path.  They differ when some pair of
# paths is jointly satisfiable (decided by Fourier-Motzkin elimination, integers tightened) and a returned value
# differs there.  Nothing is executed: the table is a symbolic normal form of the body.
# ---------------------------------------------------------------------------------------------------------

class _NotTabular(Exception):
    pass


_SYM_FUNCS = ("sqrt", "exp", "tanh", "cos", "sin", "tan", "log")
_MAX_PATHS = 48


def _g_table(fn, tree, pure, shared=None):
    """-> [(conditions, values, stores)]: conditions a list of (sympy expression e, op) meaning `e op 0` with op in '<', '<=',
    '==', or ('bool', term, polarity); values a tuple of sympy expressions; stores {(array parameter, index tuple): value}"""
    import sympy as sp
    ren, mods = _import_aliases(fn, tree)
    consts = module_constants(tree) if tree is not None else {}
    imported = set()
    for n in list(ast.walk(fn)) + list(tree.body if tree is not None else []):
        if isinstance(n, (ast.Import, ast.ImportFrom)):
            imported |= {(a.asname or a.name).split(".")[0] for a in n.names}
    f = _strip(fn)
    params = [a.arg for a in f.args.args]
    if f.args.vararg or f.args.kwarg or f.args.kwonlyargs:
        raise _NotTabular("variadic parameters")
    assigned = {n.id for n in ast.walk(f) if isinstance(n, ast.Name) and isinstance(n.ctx, ast.Store)}

    def sym(e, env, depth=0):
        if isinstance(e, ast.Constant):
            if e.value is None:
                return sp.Symbol("None_")
            if isinstance(e.value, bool) or not isinstance(e.value, (int, float)):
                raise _NotTabular("constant " + repr(e.value))
            return sp.Integer(e.value) if isinstance(e.value, int) else sp.Rational(repr(e.value))
        if isinstance(e, ast.Name):
            if e.id in env:
                if env[e.id] is _G_ARRAY:
                    raise _NotTabular(f"the local array `{e.id}` is used as a whole")
                return env[e.id]
            if e.id in assigned:
                raise _NotTabular(f"`{e.id}` read before it is bound on this path")
            name = ren.get(e.id, e.id)
            if name in consts and depth < 4:
                return sym(consts[name], {}, depth + 1)
            if name in imported or e.id in imported:
                return sp.Symbol(name)
            raise _NotTabular(f"free name `{e.id}`")
        if isinstance(e, ast.Attribute):
            if isinstance(e.value, ast.Name) and e.value.id in mods and e.value.id not in env and e.attr == "pi":
                return sp.Symbol("pi")
            raise _NotTabular("attribute " + src(e))
        if isinstance(e, ast.UnaryOp) and isinstance(e.op, (ast.USub, ast.UAdd)):
            v_ = sym(e.operand, env, depth)
            return -v_ if isinstance(e.op, ast.USub) else v_
        if isinstance(e, ast.BinOp):
            a, b = sym(e.left, env, depth), sym(e.right, env, depth)
            if isinstance(e.op, ast.Add):
                return a + b
            if isinstance(e.op, ast.Sub):
                return a - b
            if isinstance(e.op, ast.Mult):
                return a * b
            if isinstance(e.op, ast.Div):
                return a / b
            if isinstance(e.op, ast.Pow):
                return a ** b
            if isinstance(e.op, ast.FloorDiv):
                return sp.Function("floordiv_")(a, b)
            if isinstance(e.op, ast.Mod):
                return sp.Function("pymod_")(a, b)
            raise _NotTabular("operator in " + src(e))
        if isinstance(e, ast.Call):
            if e.keywords or any(isinstance(a, ast.Starred) for a in e.args):
                raise _NotTabular("call " + src(e))
            if isinstance(e.func, ast.Name):
                name = ren.get(e.func.id, e.func.id)
            elif isinstance(e.func, ast.Attribute) and isinstance(e.func.value, ast.Name) and e.func.value.id in mods:
                name = e.func.attr
            else:
                raise _NotTabular("call " + src(e))
            if name in env or name in params:
                raise _NotTabular("call of a local " + name)
            args = [sym(a, env, depth) for a in e.args]
            if name == "int" and len(args) == 1:
                return args[0] if args[0].is_Integer else sp.Function("int_")(sp.expand(args[0]))
            if name in ("float", "real") and len(args) == 1:
                return args[0]
            if name in _SYM_FUNCS and len(args) == 1:
                return getattr(sp, name)(args[0])
            if name in pure and (shared is None or name in shared or name in imported or name in _MATH_PURE):
                return sp.Function("call_" + name)(*[sp.expand(a) for a in args])
            if name in pure:
                raise _NotTabular(f"`{name}` is defined in one of the two modules only")
            raise _NotTabular(f"call of `{name}` (not known to be side-effect free)")
        if isinstance(e, ast.Subscript):
            items = e.slice.elts if isinstance(e.slice, ast.Tuple) else [e.slice]
            if any(isinstance(it, ast.Slice) for it in items):
                raise _NotTabular("slice " + src(e))
            if isinstance(e.value, ast.Attribute) and e.value.attr == "shape" and isinstance(e.value.value, ast.Name) \
                    and e.value.value.id in params and len(items) == 1 and isinstance(items[0], ast.Constant):
                return sp.Symbol(f"{e.value.value.id}_shape_{items[0].value}")
            if isinstance(e.value, ast.Name) and (e.value.id in params and e.value.id not in assigned or env.get(e.value.id) is _G_ARRAY):
                X = e.value.id
                idx = tuple(sp.expand(sym(it, env, depth)) for it in items)
                if ("@", X, idx) in env:
                    return env[("@", X, idx)]          # the element stored earlier on this path
                for k_ in env:
                    if isinstance(k_, tuple) and k_[0] == "@" and k_[1] == X and not _g_distinct(k_[2], idx):
                        raise _NotTabular(f"`{src(e)}` may be an element stored earlier on the path")
                if env.get(X) is _G_ARRAY:
                    raise _NotTabular(f"`{src(e)}` reads an element of a local array that was not stored on this path")
                return sp.Function("at_" + X)(*idx)
            raise _NotTabular("subscript " + src(e))
        raise _NotTabular("expression " + src(e)[:40])

    def cond(e, env, positive):
        """disjunctive normal form of the test (or of its negation): a list of conjunctions"""
        if isinstance(e, ast.UnaryOp) and isinstance(e.op, ast.Not):
            return cond(e.operand, env, not positive)
        if isinstance(e, ast.BoolOp):
            parts = [cond(x, env, positive) for x in e.values]
            conj = isinstance(e.op, ast.And) == positive          # De Morgan
            if not conj:
                return [c for p in parts for c in p]
            out = [[]]
            for p in parts:
                out = [a + b for a in out for b in p]
                if len(out) > _MAX_PATHS:
                    raise _NotTabular("condition too large")
            return out
        if isinstance(e, ast.Compare):
            links, left = [], e.left
            for op, right in zip(e.ops, e.comparators):
                links.append((left, op, right))
                left = right
            parts = []
            for l, op, r in links:
                if isinstance(op, (ast.Is, ast.IsNot, ast.In, ast.NotIn)):
                    raise _NotTabular("comparison " + src(e))
                d = sym(l, env) - sym(r, env)
                kind = type(op)
                if not positive:
                    kind = {ast.Lt: ast.GtE, ast.LtE: ast.Gt, ast.Gt: ast.LtE, ast.GtE: ast.Lt, ast.Eq: ast.NotEq, ast.NotEq: ast.Eq}[kind]
                parts.append({ast.Lt: [[(d, "<")]], ast.LtE: [[(d, "<=")]], ast.Gt: [[(-d, "<")]], ast.GtE: [[(-d, "<=")]],
                              ast.Eq: [[(d, "==")]], ast.NotEq: [[(d, "<")], [(-d, "<")]]}[kind])
            if positive:
                out = [[]]
                for p in parts:
                    out = [a + b for a in out for b in p]
                return out
            return [c for p in parts for c in p]
        if isinstance(e, ast.Constant) and isinstance(e.value, bool):
            return [[]] if e.value == positive else []
        return [[("bool", sym(e, env), positive)]]

    out = []

    def stores_of(env):
        """what the path leaves in the arrays of the caller: {(array, index): value}"""
        return {(k_[1], k_[2]): v_ for k_, v_ in env.items() if isinstance(k_, tuple) and k_[0] == "@" and k_[1] in params}

    def run(block, states):
        for st in block:
            if not states:
                return []
            if isinstance(st, (ast.Import, ast.ImportFrom, ast.Pass)) or _is_docstring(st):
                continue
            if isinstance(st, ast.Assign) and len(st.targets) == 1 and isinstance(st.targets[0], ast.Name) and isinstance(st.value, ast.Call) \
                    and isinstance(st.value.func, ast.Name) and ren.get(st.value.func.id, st.value.func.id) in ("empty", "empty_like") \
                    and st.value.func.id not in params:
                for env, cs in states:
                    for k_ in [k_ for k_ in env if isinstance(k_, tuple) and k_[1] == st.targets[0].id]:
                        del env[k_]
                    env[st.targets[0].id] = _G_ARRAY          # a fresh scratch array: its elements exist once they are stored
            elif isinstance(st, ast.Assign) and len(st.targets) == 1 and isinstance(st.targets[0], ast.Name):
                for env, cs in states:
                    env[st.targets[0].id] = sym(st.value, env)
            elif isinstance(st, ast.Assign) and len(st.targets) == 1 and isinstance(st.targets[0], ast.Subscript) \
                    and isinstance(st.targets[0].value, ast.Name):
                t = st.targets[0]
                X = t.value.id
                items = t.slice.elts if isinstance(t.slice, ast.Tuple) else [t.slice]
                if any(isinstance(it, ast.Slice) for it in items):
                    raise _NotTabular("store into a slice " + src(t))
                for env, cs in states:
                    if not (X in params and X not in assigned or env.get(X) is _G_ARRAY):
                        raise _NotTabular("store into " + src(t))
                    val = sym(st.value, env)
                    idx = tuple(sp.expand(sym(it, env)) for it in items)
                    for k_ in env:
                        if isinstance(k_, tuple) and k_[0] == "@" and k_[1] == X and k_[2] != idx and not _g_distinct(k_[2], idx):
                            raise _NotTabular(f"`{src(t)}` may overwrite an element stored earlier on the path")
                    env[("@", X, idx)] = val
            elif isinstance(st, ast.Assign) and len(st.targets) == 1 and isinstance(st.targets[0], ast.Tuple) \
                    and all(isinstance(t, ast.Name) for t in st.targets[0].elts):
                names = [t.id for t in st.targets[0].elts]
                for env, cs in states:
                    if isinstance(st.value, ast.Tuple) and len(st.value.elts) == len(names):
                        vals = [sym(x, env) for x in st.value.elts]
                    elif isinstance(st.value, ast.Call):
                        whole = sym(st.value, env)
                        if not isinstance(whole, sp.Basic) or not whole.func.__name__.startswith("call_"):
                            raise _NotTabular("unpacking " + src(st.value)[:40])
                        vals = [sp.Function(f"{whole.func.__name__}_{k}")(*whole.args) for k in range(len(names))]
                    else:
                        raise _NotTabular("unpacking " + src(st.value)[:40])
                    for nm, v_ in zip(names, vals):
                        env[nm] = v_
            elif isinstance(st, ast.If):
                nxt = []
                for env, cs in states:
                    for conj in cond(st.test, env, True):
                        nxt += run(st.body, [(dict(env), cs + conj)])
                    for conj in cond(st.test, env, False):
                        nxt += run(st.orelse, [(dict(env), cs + conj)])
                    if len(nxt) + len(out) > _MAX_PATHS:
                        raise _NotTabular("too many paths")
                states = nxt
            elif isinstance(st, ast.Return):
                for env, cs in states:
                    if st.value is None:
                        vals = ()
                    elif isinstance(st.value, ast.Tuple):
                        vals = tuple(sym(x, env) for x in st.value.elts)
                    else:
                        vals = (sym(st.value, env),)
                    out.append((cs, vals, stores_of(env)))
                return []
            else:
                raise _NotTabular(f"statement `{src(st).splitlines()[0][:40]}`")
        return states
    rest = run(f.body, [({p: sp.Symbol(p) for p in params}, [])])
    for env, cs in rest:
        out.append((cs, (), stores_of(env)))
    return out


_G_ARRAY = object()


def _g_distinct(i1, i2):
    """two index tuples that cannot address the same element: some coordinate differs by a non-zero number"""
    import sympy as sp
    if len(i1) != len(i2):
        return False
    for a, b in zip(i1, i2):
        d = sp.expand(a - b)
        if d.is_number and d != 0:
            return True
    return False


def _g_linear(e):
    """sympy expression -> ({term: Fraction}, Fraction): rational-linear form over its non-numeric terms"""
    import sympy as sp
    from fractions import Fraction
    e = sp.expand(e)
    lin, const = {}, Fraction(0)
    for term, c in e.as_coefficients_dict().items():
        if not getattr(c, "is_Rational", False):
            raise _NotTabular("coefficient")
        c = Fraction(int(c.p), int(c.q))
        if term == 1:
            const += c
        elif c != 0:
            lin[term] = lin.get(term, Fraction(0)) + c
    return {t: c for t, c in lin.items() if c != 0}, const


def _g_fm(cons, order):
    """Fourier-Motzkin elimination of the terms in `order`; cons: [(lin, const, strict)] meaning lin + const (< | <=) 0.
    -> False when a contradiction between constants appears, else the remaining constraints"""
    for a in order:
        lo, up, rest = [], [], []
        for d, c, s in cons:
            k = d.get(a, 0)
            (rest if k == 0 else up if k > 0 else lo).append((d, c, s))
        for d1, c1, s1 in up:
            for d2, c2, s2 in lo:
                m1, m2 = -d2[a], d1[a]
                d = {}
                for t in set(d1) | set(d2):
                    x = m1 * d1.get(t, 0) + m2 * d2.get(t, 0)
                    if x != 0 and t != a:
                        d[t] = x
                rest.append((d, m1 * c1 + m2 * c2, s1 or s2))
        if len(rest) > 400:
            raise _NotTabular("elimination too large")
        cons = []
        for d, c, s in rest:
            if not d:
                if c > 0 or (s and c == 0):
                    return False
                continue
            cons.append((d, c, s))
    for d, c, s in cons:
        if not d and (c > 0 or (s and c == 0)):
            return False
    return [x for x in cons if x[0]]


def _g_feasible(ineqs, int_syms):
    """is the conjunction of `e < 0` / `e <= 0` (ineqs: [(sympy e, strict)]) satisfiable?  True / False / None.
    `False` is always sound (terms are treated as independent unknowns, which only adds solutions); `True` is given only when
    the terms are independent (symbols, one application per opaque function, monomials with a private factor), int(...) terms
    are tied to their argument by the definition of truncation, and the integer part is a system of difference constraints
    (for which rational and integer satisfiability coincide after tightening)."""
    import itertools
    import math
    import sympy as sp
    from fractions import Fraction
    from sympy.core.function import AppliedUndef
    ints = set()
    for e, _ in ineqs:
        ints |= {a for a in e.atoms(AppliedUndef) if a.func.__name__ == "int_"}
    exact = len(ints) <= 3
    cases = [[]]
    if exact:
        for t in sorted(ints, key=str):
            arg = t.args[0]
            # t = trunc(arg), t an integer:  arg >= 0 and t <= arg < t + 1   or   arg < 0 and t - 1 < arg <= t
            cases = [c + alt for c in cases for alt in ([(-arg, False), (t - arg, False), (arg - t - 1, True)],
                                                        [(arg, True), (arg - t, False), (t - 1 - arg, True)])]
    any_feasible, all_decided = False, True
    for extra in cases:
        cons = []
        for e, strict in list(ineqs) + extra:
            lin, const = _g_linear(e)
            cons.append((lin, const, strict))
        terms = []
        for lin, _, _ in cons:
            for t in lin:
                if t not in terms:
                    terms.append(t)

        def is_int(t):
            return (t.is_Symbol and (t.name in int_syms or "_shape_" in t.name)) or (isinstance(t, AppliedUndef) and t.func.__name__ == "int_")
        reals = [t for t in terms if not is_int(t)]
        integers = [t for t in terms if is_int(t)]
        ok_terms = exact
        fnames = [t.func.__name__ for t in terms if isinstance(t, AppliedUndef)]
        for t in reals:
            if t.is_Symbol:
                continue
            if isinstance(t, AppliedUndef):
                # only the content of an array element on entry is a free unknown (one element per array); the result of a
                # function call is not: the function is a particular one
                if fnames.count(t.func.__name__) > 1 or not t.func.__name__.startswith("at_"):
                    ok_terms = False
                continue
            others = set()
            for u in terms:
                if u is not t and not (isinstance(u, AppliedUndef) and u.func.__name__ == "int_"):
                    others |= u.free_symbols
            private = [s_ for s_ in t.free_symbols if s_ not in others and (t / s_).free_symbols.isdisjoint({s_})
                       and sp.numer(sp.together(t / s_)).is_number] \
                if t.is_Mul or t.is_Pow else []       # t = s * c / (something without s): any value, whatever the other terms are
            if not private:
                ok_terms = False
        left = _g_fm(cons, reals)
        if left is False:
            continue
        # integer part: scale to integer coefficients, tighten, test the difference form
        tight, diff_form = [], True
        for d, c, s in left:
            m = 1
            for x in d.values():
                m = m * x.denominator // math.gcd(m, x.denominator)
            coeffs = {t: int(x * m) for t, x in d.items()}
            g = 0
            for x in coeffs.values():
                g = math.gcd(g, abs(x))
            bound = -(c * m) / g
            coeffs = {t: x // g for t, x in coeffs.items()}
            b = math.floor(bound) if not s else math.ceil(bound) - 1
            tight.append(({t: Fraction(x) for t, x in coeffs.items()}, Fraction(-b), False))
            vals = sorted(coeffs.values())
            if not (vals in ([1], [-1], [-1, 1])):
                diff_form = False
        res = _g_fm(tight, integers)
        if res is False:
            continue
        any_feasible = True
        if ok_terms and diff_form:
            return True
        all_decided = False
    if not any_feasible:
        return False
    return None


def _g_generic_nonzero(d, ineqs, int_syms):
    """d (reference value minus copy value) is a non-zero polynomial / rational function of independent inputs (scalar parameters,
    initial contents of array elements) and the region described by `ineqs` has non-empty interior in the real inputs and does
    not restrict the integer ones: then d cannot vanish on the whole region -> True; anything else -> False (no claim)"""
    import sympy as sp
    from sympy.core.function import AppliedUndef
    try:
        num = sp.expand(sp.numer(sp.together(d)))
        if num == 0:
            return False
        funcs = list(num.atoms(AppliedUndef))
        if any(not f_.func.__name__.startswith("at_") or not all(a.is_number for a in f_.args) for f_ in funcs):
            return False
        if any(isinstance(f_, sp.Function) and not isinstance(f_, AppliedUndef) for f_ in num.atoms(sp.Function)):
            return False
        gens = sorted(num.free_symbols, key=str) + sorted(funcs, key=str)
        if not gens or any(g.is_Symbol and g.name in ("None_",) for g in gens):
            return False
        sp.Poly(num, *gens)           # raises when num is not a polynomial in them
        int_gens = {g for g in gens if g.is_Symbol and (g.name in int_syms or "_shape_" in g.name)}
        for e, _ in ineqs:
            if e.free_symbols & int_gens:
                return False
        return _g_feasible([(e, True) for e, _ in ineqs], int_syms) is True
    except Exception:
        return False


def _g_show(e):
    import sympy as sp
    t = sp.sstr(e)
    t = re.sub(r"\bat_(\w+)\(([^()]*)\)", r"\1[\2]", t)          # content of an array element on entry
    return re.sub(r"\b(int|floordiv|pymod)_\(", r"\1(", t).replace("None_", "None")


def _g_compare(TA, TB, int_syms):
    """reference table against copy table -> (True, n pairs) / (False, diagnosis) / (None, reason)"""
    import sympy as sp
    unknown = None
    npairs = 0
    found = []          # (rank, text): rank 0 = the values differ for every input of the region, 1 = for some
    for ca, va, sta in TA:
        for cb, vb, stb in TB:
            conj = list(ca) + list(cb)
            bools = {}
            clash = False
            for c in conj:
                if c[0] == "bool":
                    if bools.setdefault(sp.sstr(c[1]), c[2]) != c[2]:
                        clash = True
            if clash:
                continue
            arith = [(c[0], c[1]) for c in conj if c[0] != "bool"]
            # equalities of the path: solved for a term and substituted everywhere
            subs, pending, eq_left = {}, [e for e, op in arith if op == "=="], []
            dead = False
            while pending:
                e = sp.expand(pending.pop(0).xreplace(subs))
                if e == 0:
                    continue
                if e.is_number:
                    dead = True
                    break
                try:
                    lin, const = _g_linear(e)
                except _NotTabular:
                    eq_left.append(e)
                    continue
                # (an int(...) term is never substituted away: it is tied to its argument by the truncation axioms)
                cands = [t for t in lin if (t.is_Symbol or t.is_Function) and not (t.is_Function and t.func.__name__ == "int_")]
                real_c = [t for t in cands if not (t.is_Symbol and t.name in int_syms)]
                unit_c = [t for t in cands if abs(lin[t]) == 1]
                pick = (real_c or unit_c or [None])[0]
                if pick is None:
                    eq_left.append(e)
                    continue
                sol = sp.expand(pick - e / sp.Rational(lin[pick].numerator, lin[pick].denominator))
                subs = {k: sp.expand(v_.xreplace({pick: sol})) for k, v_ in subs.items()}
                subs[pick] = sol
            if dead:
                continue
            ineqs = [(sp.expand(e.xreplace(subs)), op == "<") for e, op in arith if op != "=="]
            for e in eq_left:
                ineqs += [(e, False), (-e, False)]
            if any(e.is_number and (e > 0 or (s and e == 0)) for e, s in ineqs):
                continue
            seen_c, uniq = set(), []
            for e, s_ in ineqs:
                if not e.is_number and (sp.sstr(e), s_) not in seen_c:
                    seen_c.add((sp.sstr(e), s_))
                    uniq.append((e, s_))
            ineqs = uniq
            try:
                feas = _g_feasible(ineqs, int_syms)
            except _NotTabular:
                feas = None
            if feas is False:
                continue
            npairs += 1
            where = " and ".join(f"{_g_show(e)} {'<' if s else '<='} 0" for e, s in ineqs)
            if subs:
                where += (" and " if where else "") + " and ".join(f"{_g_show(k)} == {_g_show(v_)}" for k, v_ in subs.items())
            where = ("with " + where) if where else "whatever their values"
            if len(va) != len(vb):
                if feas is True:
                    found.append((0, f"for inputs {where} the copy returns {len(vb)} value(s) where the reference returns {len(va)}"))
                else:
                    unknown = unknown or f"different number of returned values on paths whose joint satisfiability is not decided ({where})"
                continue
            # what the two paths leave behind: returned values, and elements of the caller's arrays (an element one side does not
            # store keeps its initial value)
            items = [(f"returned value {k + 1}", x, y) for k, (x, y) in enumerate(zip(va, vb))]
            ka = {(X, tuple(sp.expand(i_.xreplace(subs)) for i_ in idx)): v_ for (X, idx), v_ in sta.items()}
            kb = {(X, tuple(sp.expand(i_.xreplace(subs)) for i_ in idx)): v_ for (X, idx), v_ in stb.items()}
            for key in list(ka) + [k_ for k_ in kb if k_ not in ka]:
                init = sp.Function("at_" + key[0])(*key[1])
                items.append((f"the element {key[0]}[{', '.join(_g_show(i_) for i_ in key[1])}]", ka.get(key, init), kb.get(key, init)))
            for label, x, y in items:
                d = sp.expand((x - y).xreplace(subs))
                if d != 0:
                    d = sp.expand(sp.simplify(d))
                if d == 0:
                    continue
                if d.is_number:
                    if not d.is_real:
                        lt = gt = None
                    else:
                        lt, gt = (feas, False) if d < 0 else (False, feas)
                else:
                    try:
                        lt, gt = _g_feasible(ineqs + [(d, True)], int_syms), _g_feasible(ineqs + [(-d, True)], int_syms)
                    except _NotTabular:
                        lt = gt = None
                if lt is False and gt is False:
                    continue          # the two values coincide wherever both paths are taken
                if lt is not True and gt is not True and _g_generic_nonzero(d, ineqs, int_syms):
                    found.append((1, f"for inputs {where} {label} is `{_g_show(sp.expand(y.xreplace(subs)))}` in the copy and "
                                  f"`{_g_show(sp.expand(x.xreplace(subs)))}` in the reference (reference minus copy: `{_g_show(d)}`, a polynomial "
                                  "in the inputs that is not the zero polynomial, on a region with non-empty interior: it does not vanish "
                                  "everywhere there)"))
                    break
                if lt is True or gt is True:
                    always = (lt is False or gt is False) and feas is True
                    sign = "<" if lt is True and gt is not True else ">" if gt is True and lt is not True else "!="
                    found.append((0 if always else 1,
                                  f"for {'every input' if always else 'inputs'} {where} {label} is `{_g_show(sp.expand(y.xreplace(subs)))}` "
                                  f"in the copy and `{_g_show(sp.expand(x.xreplace(subs)))}` in the reference (reference minus copy: `{_g_show(d)}`, "
                                  + (f"which is {sign} 0 on all of this region; the region is not empty" if always else
                                     f"and these conditions are satisfiable together with `{_g_show(d)} {sign} 0`") + ")"))
                    break
                unknown = unknown or (f"{label} is `{_g_show(y)}` against `{_g_show(x)}` for inputs {where}; whether such "
                                      "inputs exist / whether the values differ there is not decided")
    if found:
        found.sort(key=lambda t: t[0])
        return False, "; ".join(t for _, t in found[:2]) + (f" (and {len(found) - 2} more region(s))" if len(found) > 2 else "") + \
            ": the two functions return different results for the same arguments"
    if unknown:
        return None, unknown
    return True, npairs


def guarded_values(chk, ref, v, q, fn, vfr, vm, pure):
    """engine G on one function pair -> (True/False/None, text)"""
    try:
        shared = {n for n in chk.mod(ref).functions() if "." not in n} & {n for n in vm.functions() if "." not in n}
        TA = _g_table(fn, chk.mod(ref).tree, pure, shared)
        TB = _g_table(vfr, vm.tree, pure, shared)
    except _NotTabular as e:
        return None, f"not a loop-free function ({e})"
    if not any(vals or sts for _, vals, sts in TA):
        return None, "the function returns no value and stores nothing"
    # (integer scalars by their declared kind: 'int', int, 'int64', 'Final[int]' ...)
    int_syms = {a.arg for a in fn.args.args if a.annotation is not None and _type_kind(src(a.annotation)) in (("int", 0), ("bool", 0))}
    declared = {a.arg for a in fn.args.args if a.annotation is not None and _type_kind(src(a.annotation)) is not None}
    if any(a.arg not in declared for a in fn.args.args):
        # AUDIT: satisfiability of a region is decided over the reals for every parameter that is not known to be an integer; a
        # parameter whose kind is not readable (TypeVar, no annotation) may be an integer, for which a region such as 0 < p < 1 is
        # empty: no verdict by this engine
        return None, "a parameter of the reference has no readable scalar / array type: path regions are not decided"
    try:
        return _g_compare(TA, TB, int_syms)
    except _NotTabular as e:
        return None, f"guarded values not comparable ({e})"


def _mode_literals_differ(fn, vfr):
    """an integer / boolean scalar parameter of the reference that the two bodies compare with different sets of literals
    -> (parameter, literals in the reference, literals in the copy), else None"""
    for a_ in fn.args.args:
        k_ = _type_kind(src(a_.annotation)) if a_.annotation is not None else None
        if k_ is None or k_[1] != 0 or k_[0] not in ("int", "bool"):
            continue
        la, _ = _mode_tests(fn, a_.arg)
        lb, _ = _mode_tests(vfr, a_.arg)
        if la != lb:
            return a_.arg, la, lb
    return None


def _strictness_flip(fa, fb):
    """a pair of operands (input data: a float argument, an element of an array argument) that both bodies compare, but not with the
    same set of operators -> (text in fa, text in fb), else None"""
    def table(f):
        out = {}
        for n in ast.walk(f):
            if isinstance(n, ast.Compare) and len(n.ops) == 1 and _is_input_data(n):
                out.setdefault((ast.dump(n.left), ast.dump(n.comparators[0])), {})[type(n.ops[0]).__name__] = src(n)
        return out
    ta, tb = table(fa), table(fb)
    for key in ta:
        if key in tb:
            only_a, only_b = set(ta[key]) - set(tb[key]), set(tb[key]) - set(ta[key])
            if only_a or only_b:
                return ta[key][sorted(only_a or ta[key])[0]], tb[key][sorted(only_b or tb[key])[0]]
    return None


def _changed_helpers(chk, ref, v, vm, pure):
    """the functions defined in both modules whose body in the copy is not the body of the reference (as written, nor in canonical
    form)"""
    cache = chk.__dict__.setdefault("_c19_changed", {})
    key = (ref, v)
    if key in cache:
        return cache[key]
    rm = chk.mod(ref)
    out = set()
    for g, fg in rm.functions().items():
        if "." in g or not vm.has(g):
            continue
        try:
            vg = vm.func(g)
            if norm_fn(fg) == norm_fn(vg):
                continue
            vgr = _rename_params(vg, [a.arg for a in fg.args.args])
            if vgr is not None:
                ca, cb = canon_fn(fg, pure, rm.tree), canon_fn(vgr, pure, vm.tree)
                ca.args = cb.args = _bare_args(ca)
                if ast.dump(ca) == ast.dump(cb):
                    continue
        except Exception:
            pass
        out.add(g)
    cache[key] = out
    return out


def body_equivalence(chk, ref, v, q, fn, vf, vm, flavour, pure):
    """V4 ladder: identical / identical in canonical form / proved against the specification formula / same statements with
    expressions compared one by one -> True (proved), False (violation recorded), None (undecided, recorded)"""
    R = "V4-body-equivalence"
    con = f"{v}:{q}"
    # API generalisation of the reference: optional parameters the copy does not have and no library call passes are bound to
    # their defaults; the copy is compared with that specialisation (what every library call computes)
    pa_, pb_ = [a.arg for a in fn.args.args], [a.arg for a in vf.args.args]
    if len(pb_) < len(pa_) and not (fn.args.vararg or fn.args.kwarg or fn.args.kwonlyargs):
        extra = pa_[len(pb_):]
        dflt = dict(zip(pa_[len(pa_) - len(fn.args.defaults):], fn.args.defaults))
        calls = library_calls(chk).get(q, [])
        passed = any(len(c[2]) > len(pb_) or any(k in extra for k in c[3]) or (c[4] is not None and not isinstance(c[4], tuple)) for c in calls)
        stored = {n.id for n in ast.walk(fn) if isinstance(n, ast.Name) and isinstance(n.ctx, ast.Store)}
        if calls and not passed and all(x in dflt and isinstance(dflt[x], (ast.Constant, ast.UnaryOp)) for x in extra) and not (set(extra) & stored):
            spec = ast.parse(ast.unparse(fn)).body[0]
            keep = len(spec.args.defaults) - len(extra)
            spec.args.args = spec.args.args[:len(pb_)]
            spec.args.defaults = spec.args.defaults[:keep] if keep > 0 else []
            k0 = 1 if spec.body and _is_docstring(spec.body[0]) else 0
            spec.body[k0:k0] = [ast.Assign(targets=[ast.Name(id=x, ctx=ast.Store())], value=ast.parse(ast.unparse(dflt[x]), mode="eval").body)
                                for x in extra]
            ast.fix_missing_locations(spec)
            spec._qual = getattr(fn, "_qual", q)
            chk.ob(R, vf, f"{con}: reference specialised", True, f"the reference takes {len(extra)} optional parameter(s) {extra} that the copy "
                   f"does not have; none of the {len(calls)} library call(s) passes them, so the copy is compared with the reference at "
                   f"their defaults ({', '.join(x + '=' + src(dflt[x]) for x in extra)})", file=v, func=q, nontrivial=False)
            fn = spec
    _DATA["scalars"], _DATA["arrays"] = set(), set()
    _CTX["defined"] = {n_ for n_ in chk.mod(ref).functions() if "." not in n_} & {n_ for n_ in vm.functions() if "." not in n_}
    _CTX["changed"] = _changed_helpers(chk, ref, v, vm, pure)
    for a_ in fn.args.args:
        k_ = _type_kind(src(a_.annotation)) if a_.annotation is not None else None
        if k_ is not None and k_[1] == 0 and k_[0] in ("float", "float32", "complex"):
            _DATA["scalars"].add(a_.arg)
        elif k_ is not None and k_[1] > 0:
            _DATA["arrays"].add(a_.arg)
    if norm_fn(fn) == norm_fn(vf):
        chk.ob(R, vf, con, True, "AST-identical to the reference after stripping decorators, annotations, docstrings and local "
               "imports", file=v, func=q)
        return True
    vfr = _rename_params(vf, [a.arg for a in fn.args.args])
    ca = cb = None
    canon_err = None
    element_note = ""
    try:
        if vfr is not None:
            ca, cb = canon_fn(fn, pure, chk.mod(ref).tree), canon_fn(vfr, pure, vm.tree)
            ca.args, cb.args = _bare_args(ca), _bare_args(ca)      # parameter lists are V1's business
    except Exception as e:       # the canonical form is a recognition aid: failing to build it decides nothing
        canon_err = f"{type(e).__name__}: {e}"
        ca = cb = None
    if ca is not None and ast.dump(ca) == ast.dump(cb):
        chk.ob(R, vf, con, True, "identical to the reference in canonical form (single-assignment temporaries and hoisted invariants "
               "written back, result variable / early return, `if` arms with one body, shape unpacking, `+=`, operand order of + and *)",
               file=v, func=q)
        return True
    if ca is not None:
        # nests of independent loops in one order (only when the bodies differ: the engines see the loops as written)
        try:
            ra, rb = ast.parse(ast.unparse(ca)).body[0], ast.parse(ast.unparse(cb)).body[0]
            if _loop_order(ra, pure) | _loop_order(rb, pure):
                ca, cb = ast.parse(ast.unparse(ra)).body[0], ast.parse(ast.unparse(rb)).body[0]
                if ast.dump(ca) == ast.dump(cb):
                    chk.ob(R, vf, con, True, "identical to the reference in canonical form once nests of independent loops are put in one "
                           "order (each iteration writes its own elements, reads no element written by another one, and its scalars die "
                           "with it: the nesting order does not change any computed value)", file=v, func=q)
                    return True
        except Exception:
            pass
        # functions that fill arrays element by element: compared as the program of one element
        try:
            ea, eb = _element_programs(ca, pure), _element_programs(cb, pure)
        except Exception:
            ea = eb = None
        if ea is not None and eb is not None and ea[1] == eb[1] and ea[2] == eb[2] and ast.dump(ea[0]) == ast.dump(eb[0]):
            arrays = ", ".join(f"{X}[{', '.join(T)}]" for X, T in sorted(ea[1].items()))
            chk.ob(R, vf, con, True, f"reference and copy only fill {arrays}, each element by the statements that address it (no scalar is "
                   "carried between statements, no statement reads another element of a stored array, the index loops run over the same "
                   "rectangular ranges on both sides); with the index loops removed both bodies are the same program of one element "
                   "(same statements in the same order, the remaining loops - sums - in the same order): the same arrays result however "
                   "the index loops are nested, split or fused", file=v, func=q)
            return True
        if ea is not None and eb is not None and ea[1] == eb[1] and ea[2] == eb[2]:
            # same arrays over the same index ranges but another program of one element: the element programs are what is compared
            # from here on (the projection preserves the meaning of each side)
            ca, cb = ea[0], eb[0]
            element_note = (" [both sides only fill " + ", ".join(f"{X}[{', '.join(T)}]" for X, T in sorted(ea[1].items())) +
                            " element by element over the same index ranges; they are compared as the program of ONE element, i.e. with "
                            "the index loops removed]")
    before_spec = len(chk.obs)
    res, why = spec_check(chk, v, q, vm)
    if res is False:
        # AUDIT: a VIOLATED verdict of the specification engine (C07 / C12) is a statement about THIS copy only as far as the engine
        # models every construct of the body.  The engine is known to read the constructs the sibling flavours use (they pass it); a
        # kind of expression / statement or a called function that only the flagged body has may have been mis-read (found by
        # probe: `norm = max(diff, norm)` for `if diff > norm: norm = diff`).  Then the engine's diagnosis is not used and the copy
        # is compared with the reference directly.
        novel = _novel_constructs(vf, fn, vm.tree, chk.mod(ref).tree)
        if not novel:
            return False
        _drop(chk, before_spec)
        res, why = None, (f"the specification engine reports a difference, but the copy uses {novel}, which the reference (on which "
                          "the engine is known to work) does not: its diagnosis is not relied on")
    if res is True:
        if q == "f_eq":
            return True           # compared with the reference's formula directly
        before_ref = len(chk.obs)
        fresh = (ref, q) not in chk.__dict__.get("_c19_refspec", {})
        rres, rwhy = reference_spec(chk, ref, q, pure)
        if rres is True:
            # both bodies satisfy the formula.  The formula identifies a strict with a non-strict comparison of data (they differ on a
            # set of measure zero) - but points exactly on a boundary are among the arguments this property names.  When the two
            # bodies do not make the same comparisons of input data, "both satisfy the formula" does not settle their equality: the
            # bodies are then compared directly as well (found by probe: `r > rMax` against `r >= rMax` in the boundary fill).
            # ... and the formula speaks about the modes it knows (der = 0 / 1, the two boundary treatments): a body that also tests a
            # mode parameter against a literal the other body never mentions has a mode of its own, about which the agreement with
            # the formula says nothing (found by probe: `elif der == 2: return 0.0` added to one flavour only)
            flip = _strictness_flip(ca, cb) if ca is not None else None
            extra = _mode_literals_differ(fn, vfr) if vfr is not None else None
            if flip is None and extra is None:
                return True
            if flip is not None:
                rres, rwhy = None, ("both bodies satisfy the specification formula, which does not tell `<` from `<=`, but the copy compares "
                                    f"`{flip[1]}` where the reference compares `{flip[0]}` (same operands, another operator)")
            else:
                rres, rwhy = None, (f"both bodies satisfy the specification formula, but they do not test the mode parameter `{extra[0]}` "
                                    f"against the same literals ({sorted(extra[1])} in the reference, {sorted(extra[2])} in the copy): one of "
                                    "them has a mode the formula does not speak about")
            why = rwhy
            res = None
        if rres is False and _novel_constructs(fn, vf, chk.mod(ref).tree, vm.tree):
            # (same caveat, the other way round: the reference is the body the engine may have mis-read)
            novel = _novel_constructs(fn, vf, chk.mod(ref).tree, vm.tree)
            if fresh:
                _drop(chk, before_ref)
            chk.__dict__.setdefault("_c19_refspec_suspect", set()).add((ref, q))
            rres, rwhy = None, (f"the engine reports a difference for the reference, which uses {novel} that this copy (which passes) does "
                                "not: its diagnosis is not relied on")
        if rres is None and res is None:
            pass
        elif rres is False:
            # AUDIT: true when the engine's two verdicts are (copy == formula, reference != formula, both read correctly); the second
            # rests on the engine modelling every construct of the reference - checked above by `_novel_constructs` against the copy
            # that passes; the verdict on the reference as written is confirmed on its canonical form before it is used (reference_spec)
            chk.ob(R, vf, con, False, f"the {flavour} copy satisfies the specification formula of `{q}`, the reference {ref} does not (see the "
                   "obligations recorded for the reference): the copy does not compute what the source it mirrors computes",
                   file=v, func=q)
            return False
        if res is True:
            why = f"the copy satisfies the specification formula but the reference could not be checked against it ({rwhy})"
    # no (applicable) specification formula: a loop-free value function is compared as a table of guarded values
    if vfr is not None:
        gres, gwhy = guarded_values(chk, ref, v, q, fn, vfr, vm, pure)
        if gres is True:
            chk.ob(R, vf, con, True, f"loop-free function: on each of the {gwhy} pair(s) of paths that one input can take in the "
                   "reference and in the copy, the returned values and the elements stored into the caller's arrays are equal (locals "
                   "substituted forward, equalities of the path conditions applied; pairs of contradictory conditions excluded by "
                   "elimination)", file=v, func=q)
            return True
        if gres is False:
            # AUDIT (engine G): true when (1) both bodies were turned into complete tables - any statement, call or expression outside
            # the modelled fragment raises _NotTabular (no default branch guesses); (2) the pair of paths quoted is jointly
            # satisfiable - claimed only when the terms of the conditions are independent unknowns (symbols, one element per array, a
            # private factor), int(...) is tied to its argument by the truncation axioms, integer parameters are known as such (every
            # parameter has a readable declared type, see guarded_values) and the integer part is a difference system; (3) the two
            # values differ there - a sign decided by the same elimination, or a non-zero polynomial of the inputs on a region with
            # non-empty interior.  Calls of functions are uninterpreted and never support a difference.
            chk.ob(R, vf, con, False, f"the {flavour} copy and the reference {ref.split('/')[-1]} are both loop-free functions and "
                   f"were compared path by path: {gwhy}", file=v, func=q)
            return False
        if not gwhy.startswith("not a loop-free") and not gwhy.startswith("the function returns no"):
            why = f"{why}; compared as guarded values: {gwhy}"
    # otherwise compare statement by statement
    pairs = []
    if ca is None:
        chk.ob(R, vf, con, None, f"body differs from the reference; {why}; canonical form not available ({canon_err or 'parameters'})",
               file=v, func=q)
        return None
    skeleton = None
    try:
        _GUARDS.clear()
        _pair_bodies(ca.body, cb.body, pairs)
    except _Skeleton as e:
        skeleton = e
    known_a, known_b = _bound_names(fn, chk.mod(ref).tree) | {_WRAP_ONCE, _WRAP_LOOPS}, _bound_names(vfr, vm.tree) | {_WRAP_ONCE, _WRAP_LOOPS}

    def half_of_complex(a, b, what):
        """a store into X.real[...] / X.imag[...] on one side and into X[...] on the other: the same element only when X holds real
        numbers -> True when that is the difference between the two targets"""
        if what != "target" or not (isinstance(a, ast.Subscript) and isinstance(b, ast.Subscript)):
            return False
        va, vb = a.value, b.value
        for p_, w_ in ((va, vb), (vb, va)):
            if isinstance(p_, ast.Attribute) and p_.attr in ("real", "imag") and isinstance(p_.value, ast.Name) and isinstance(w_, ast.Name) \
                    and w_.id == p_.value.id:
                return True
        return False

    def admits_complex(x):
        """the declared type of parameter x of the reference (TypeVar alternatives written out): 'complex' among them?  None: not declared"""
        ann = next((a_.annotation for a_ in fn.args.args if a_.arg == x), None)
        if ann is None:
            return None
        texts = [src(ann)]
        if isinstance(ann, ast.Name):
            for st in chk.mod(ref).tree.body:
                if isinstance(st, ast.Assign) and any(isinstance(t, ast.Name) and t.id == ann.id for t in st.targets) \
                        and isinstance(st.value, ast.Call) and src(st.value.func).split(".")[-1] == "TypeVar":
                    texts = [src(x_) for x_ in st.value.args[1:]]
        if not all(_type_kind(t) is not None for t in texts):
            return None
        return any(_type_kind(t)[0] == "complex" for t in texts)

    def judged(a, b, sb, what=None):
        r = expr_same(a, b)
        if r is False and half_of_complex(a, b, what):
            cx = admits_complex(_base_name(a))
            if cx is not True:
                return True if cx is False and ".imag" not in src(a) + src(b) else None
        if r is False and q.startswith("cu_"):
            # the uniform-cubic family is only selected for degree 3 (the contract under which the specification engine reads these
            # kernels too): a difference that vanishes for degree = deg1 = deg2 = 3 is not a recognised wrong form
            class D(ast.NodeTransformer):
                def visit_Name(self, n):
                    return ast.Constant(3) if n.id in ("degree", "deg1", "deg2", "deg") and isinstance(n.ctx, ast.Load) else n
            try:
                a3 = _sort_operands(D().visit(ast.parse(ast.unparse(a), mode="eval").body))
                b3 = _sort_operands(D().visit(ast.parse(ast.unparse(b), mode="eval").body))
                if expr_same(a3, b3) is True:
                    return None
            except Exception:
                pass
        if r is False:
            # a name whose binding is not visible here (module-level variable, ...) may stand for anything
            free = ({n.id for n in ast.walk(a) if isinstance(n, ast.Name)} - known_a) | ({n.id for n in ast.walk(b) if isinstance(n, ast.Name)} - known_b)
            if free or _equality_knowledge(sb, a, b):
                return None
            # a function that exists in one of the two modules only (a helper of the copy, a wrapper) is not a different operand
            fa_ = {src(c.func) for c in ast.walk(a) if isinstance(c, ast.Call)}
            fb_ = {src(c.func) for c in ast.walk(b) if isinstance(c, ast.Call)}
            if any(chk.mod(ref).has(nm) != vm.has(nm) for nm in fa_ ^ fb_ if "." not in nm):
                return None
        return r
    if skeleton is not None:
        # structured differently: case analysis on the mode parameters
        e = skeleton
        try:
            mres, mwhy, mdetail = mode_cases(fn, vfr, pure, chk.mod(ref).tree, vm.tree)
        except Exception as e2:
            mres, mwhy, mdetail = None, f"case analysis failed ({type(e2).__name__})", None
        if mres is True:
            chk.ob(R, vf, con, True, f"the bodies are structured differently ({e}) but dispatch on {mwhy}: on each region every comparison of "
                   "the mode with a literal has one truth value; with the comparisons decided, dead arms removed and boolean locals "
                   "propagated, reference and copy are identical in canonical form in every case", file=v, func=q)
            return True
        if mdetail is not None:
            where, cca, ccb, all_point = mdetail
            ps = []
            try:
                _GUARDS.clear()
                _pair_bodies(cca.body, ccb.body, ps)
            except _Skeleton:
                ps = None
            if ps and all_point:
                vs_ = [(judged(a_, b_, sb_, w_), a_, b_, sa_, sb_, w_) for a_, b_, sa_, sb_, w_ in ps]
                wrong_c = [x for x in vs_ if x[0] is False]
                differing_c = [x for x in vs_ if x[0] is not True]
                reordered = len({id(x[3]) for x in differing_c}) >= 2 and \
                    sorted({id(x[3]): ast.dump(x[3]) for x in differing_c}.values()) == sorted({id(x[4]): ast.dump(x[4]) for x in differing_c}.values())
                if wrong_c and len(wrong_c) == len(differing_c) and len(wrong_c) <= 3 and not reordered \
                        and not any(x[5] == "target" for x in wrong_c) and _entangled(wrong_c, differing_c) is None:
                    # AUDIT: true when the mode really is an integer / boolean argument only compared with literals (mode_cases), the
                    # case is a single value of it (all_point), the two specialised bodies correspond statement by statement, EVERY
                    # differing pair is recognisably different (expr_same False under the assumptions stated there), none is a store
                    # target, and the differences do not feed one another (_entangled)
                    for _, a_, b_, sa_, sb_, w_ in wrong_c:
                        head = src(sb_).splitlines()[0][:70]
                        chk.ob(R, vf, f"{con}: case {where}: {w_} of `{head}`", False,
                               f"reference and copy dispatch on the mode differently ({e}); specialised to the case {where} (comparisons of the "
                               f"mode with literals decided, dead arms removed) their statements correspond one to one, and there the "
                               f"{flavour} copy has `{_short(b_)}` where the reference {ref.split('/')[-1]} has `{_short(a_)}` ({w_} of `{head}`), "
                               "which are not equal as formulas: for this mode the copy does not compute what the source it mirrors computes",
                               file=v, func=q)
                    return False
        chk.ob(R, vf, con, None, f"body differs from the reference `{ref}` in its statement structure ({e}) and {why}; case analysis on "
               f"mode parameters: {mwhy}: equivalence not decided", file=v, func=q)
        return None
    verdicts = [(judged(a, b, sb, what), a, b, sa, sb, what) for a, b, sa, sb, what in pairs]
    wrong = [x for x in verdicts if x[0] is False]
    unknown = [x for x in verdicts if x[0] is None]
    differing = [x for x in verdicts if x[0] is not True]
    if len({id(x[3]) for x in differing}) >= 2 and \
            sorted({id(x[3]): ast.dump(x[3]) for x in differing}.values()) == sorted({id(x[4]): ast.dump(x[4]) for x in differing}.values()):
        chk.ob(R, vf, con, None, "the copy has the statements of the reference in another order; whether the re-ordered statements are "
               f"independent is not decided ({why})", file=v, func=q)
        return None
    tg = [x for x in verdicts if x[5] == "target"]
    if any(x[0] is False for x in tg) and sorted(ast.dump(x[1]) for x in tg) == sorted(ast.dump(x[2]) for x in tg):
        chk.ob(R, vf, con, None, "the copy stores into the same elements as the reference but in another order (and with differently "
               f"written values): a re-ordering of statements, not an operand slip; equivalence not decided ({why})", file=v, func=q)
        return None
    if wrong:
        def rejudge_full(body_b):
            ps = []
            try:
                _pair_bodies(ca.body, body_b, ps)
            except _Skeleton:
                return None
            return [(judged(a_, b_, sb_, w_), a_, b_, sa_, sb_, w_) for a_, b_, sa_, sb_, w_ in ps]

        def rejudge(body_b):
            vs_ = rejudge_full(body_b)
            return None if vs_ is None else [x[0] for x in vs_]
        # a local (or loop counter) that is DEFINED differently and USED differently: one change of counting convention?  The
        # shift of the definition is taken out of the copy (definition and every use) and the bodies are compared again
        conv = _local_convention(cb, wrong, rejudge_full)
        if conv is not None:
            kind, x_, c_, info = conv
            if kind == "same":
                chk.ob(R, vf, con, True, f"same statements as the reference up to the origin of the local `{x_}`: the copy defines it "
                       f"shifted by {c_} ({info}) and every use compensates the shift: the same values are computed", file=v, func=q)
                return True
            if kind == "inconsistent":
                # AUDIT: true when the local is bound exactly once in the copy, its definition differs from the reference's by a
                # constant, and with that constant taken out of the definition and of every use a pair that mentions the local is
                # still recognisably different: that use does not follow the shift (any other kind of re-definition: undecided)
                _, a_, b_, sa_, sb_, w_ = info[1]
                chk.ob(R, vf, f"{con}: {w_} of `{src(sb_).splitlines()[0][:70]}`", False,
                       f"the {flavour} copy defines the local `{x_}` shifted by {c_} with respect to the reference ({info[0]}); with that shift "
                       f"taken out of its definition and of every use, the copy still has `{_short(b_)}` where the reference "
                       f"{ref.split('/')[-1]} has `{_short(a_)}` ({w_}): this use does not follow the change of convention of `{x_}`, the copy "
                       "does not compute what the source it mirrors computes", file=v, func=q)
                return False
            if kind == "undecided":
                chk.ob(R, vf, con, None, f"the local `{x_}` is defined differently in the copy ({info}) and {c_} statement(s) that use it "
                       "differ too: possibly one consistent change of convention; whether the differences compensate is not decided",
                       file=v, func=q)
                return None
            if kind == "other":
                wrong = info          # the shift is consistent; what remains differs independently of it
        # is every difference explained by ONE permutation of the axes of one array?  Then the copy is the reference written for
        # another memory layout of that array, not an operand slip
        lay = _axis_permutation(cb, wrong, rejudge, {a.arg for a in cb.args.args}, rejudge(cb.body))
        if lay is not None:
            X, sigma, n_acc, is_param, rest = lay
            perm = ", ".join(f"axis {p_} of the reference is axis {sigma[p_]} of the copy" for p_ in range(len(sigma)) if sigma[p_] != p_)
            if not is_param and rest:
                chk.ob(R, vf, con, True, f"same statements as the reference; the local array `{X}` is allocated and addressed with its axes "
                       f"permuted ({perm}) in its allocation and in all {n_acc} accesses, and is used in no other way: the same values in "
                       "another memory layout of a scratch array", file=v, func=q)
                return True
            chk.ob(R, vf, con, None, f"the {flavour} copy addresses the array {'parameter' if is_param else 'local'} `{X}` with its axes "
                   f"permuted ({perm}) consistently in all {n_acc} accesses (subscripts and `.shape`) and is otherwise "
                   f"{'the same as' if rest else 'not shown to differ from'} the reference {ref.split('/')[-1]}: reference and copy are written "
                   f"for two different memory layouts of `{X}`; they give the same results only if each is handed the array in its own layout, "
                   "which depends on the callers and is not decided here", file=v, func=q)
            return None
    # AUDIT: "the copy has E' where the reference has E, everything else corresponds" is an operand slip only when the differences
    # do not feed one another.  A difference in the DEFINITION of a local / of the cells of an array together with a difference
    # where that local / array is USED (or target and value of one store both written differently) may be one change of
    # convention between a writer and its readers (sign, scale, origin of a scratch table), and a difference that could not be
    # compared may make up for one that could.  The constant-shift and axis-permutation forms were decided above; any other
    # entangled set of differences is not decided.
    if wrong:
        tangle = _entangled(wrong, differing)
        if tangle is not None:
            chk.ob(R, vf, con, None, f"the {flavour} copy differs from the reference {ref.split('/')[-1]} in {len(differing)} places that feed one "
                   f"another ({tangle}): possibly one consistent change of convention between a definition and its uses; whether the "
                   f"differences compensate is not decided ({why})", file=v, func=q)
            return None
    for _, a, b, sa, sb, what in wrong[:4]:
        head = src(sb).splitlines()[0][:70]
        note = element_note
        if half_of_complex(a, b, what):
            note += (f" [the reference declares `{_base_name(a)}` with a complex alternative: a store through `.real` leaves the imaginary "
                    "part of the element as it was, a store into the element sets it (to zero for a real value): for complex storage the "
                    "two sides leave different arrays behind]")
        if _WRAP_LOOPS in src(a) + src(b):
            note += (f" [`{_WRAP_LOOPS}(x, L, strict, H, strict, P)` stands for the loops `while x < L: x += P` / `while x > H: x -= P` of that "
                     "side: they leave a point that lies exactly on H where it is, whereas the closed form `L + (x - L) % P` of the other "
                     "side maps onto the half-open range [L, L + P) and sends that point to L; x is input data, and evaluation points on "
                     "the boundary are among the arguments the property names]")
        if _WRAP_ONCE in src(a) + src(b):
            note += (f" [`{_WRAP_ONCE}(x, L, B, strict, H, A, strict, order)` stands for the statements `if x < L: x += B` / `if x >= H: x -= A` "
                    "of that side: ONE conditional shift of a period, which equals the reduction `x % A` of the other side only while x lies "
                    "within one period of the range; x is computed from input data (array elements / float arguments), which no statement "
                    "bounds: for a larger displacement the two sides hand different points on]")
        # AUDIT: true when the canonical bodies have the same statement skeleton, this pair is recognisably different (expr_same
        # False: see the assumptions there - independent atoms, kernels of both modules, conditions with equal operands), every name
        # in it is bound visibly, no equality of the path makes one side a rewriting of the other, the called kernels are not
        # themselves changed, and the difference is not entangled with another one (checked above)
        chk.ob(R, vf, f"{con}: {what} of `{head}`", False,
               f"the {flavour} copy has `{_short(b)}` where the reference {ref.split('/')[-1]} has `{_short(a)}` ({what} of `{head}`); all "
               "other statements correspond one to one, and the two expressions are not equal as formulas: the copy does not compute "
               "what the source it mirrors computes" + note, file=v, func=q)
    if wrong:
        return False
    if unknown:
        _, a, b, sa, sb, what = unknown[0]
        chk.ob(R, vf, con, None, f"statements correspond one to one but `{_short(b)}` against `{_short(a)}` ({what}) could not be "
               f"compared; {why}", file=v, func=q)
        return None
    n = sum(1 for x in verdicts if ast.dump(x[1]) != ast.dump(x[2]))
    chk.ob(R, vf, con, True, f"same statements as the reference; the {n} expression(s) written differently are equal as rational "
           "functions of their operands (re-association only)", file=v, func=q)
    return True


# ---------------------------------------------------------------------------------------------------------
# case analysis on mode parameters: an integer / boolean scalar parameter that the bodies only COMPARE with integer literals
# (der == 0, bound == 2, der in {0, 1}, ...) cuts its domain into finitely many regions - each literal, and the open intervals
# between and beyond them - on each of which every such comparison has one truth value.  Reference and copy are specialised to a
# region (comparisons replaced by their truth value, dead arms removed, boolean locals propagated) and compared region by
# region: a dispatch on the mode may then sit outside a loop on one side and inside it on the other, arms may be merged or
# duplicated, the order of the tests may differ.
# ---------------------------------------------------------------------------------------------------------

def _int_literal(e):
    if isinstance(e, ast.UnaryOp) and isinstance(e.op, ast.USub):
        v_ = _int_literal(e.operand)
        return None if v_ is None else -v_
    if isinstance(e, ast.Constant) and isinstance(e.value, int) and not isinstance(e.value, bool):
        return int(e.value)
    return None


def _mode_tests(f, p):
    """-> (set of literals p is compared with, number of such tests)"""
    lits, n = set(), 0
    for c in ast.walk(f):
        if isinstance(c, ast.Compare) and len(c.ops) == 1:
            l, op, r = c.left, c.ops[0], c.comparators[0]
            if isinstance(op, (ast.In, ast.NotIn)) and isinstance(l, ast.Name) and l.id == p and isinstance(r, (ast.Tuple, ast.List, ast.Set)) \
                    and r.elts and all(_int_literal(x) is not None for x in r.elts):
                lits |= {_int_literal(x) for x in r.elts}
                n += 1
            elif isinstance(op, (ast.Eq, ast.NotEq, ast.Lt, ast.LtE, ast.Gt, ast.GtE)):
                for a_, b_ in ((l, r), (r, l)):
                    if isinstance(a_, ast.Name) and a_.id == p and _int_literal(b_) is not None:
                        lits.add(_int_literal(b_))
                        n += 1
    return lits, n


def _mode_regions(lits):
    """[(description, kind, representative)]: every literal, and the non-empty open intervals of integers around them"""
    ls = sorted(lits)
    out = [(f"< {ls[0]}", "open", ls[0] - 1)]
    for k, l in enumerate(ls):
        out.append((f"== {l}", "point", l))
        if k + 1 < len(ls) and ls[k + 1] - l > 1:
            out.append((f"in ({l}, {ls[k + 1]})", "open", l + 1))
    out.append((f"> {ls[-1]}", "open", ls[-1] + 1))
    return out


def _specialise(fn, env):
    """fn with the comparisons of the mode parameters decided on the region env = {p: (kind, representative)}; dead code removed"""
    import operator
    f = ast.parse(ast.unparse(fn)).body[0]
    ops = {ast.Eq: operator.eq, ast.NotEq: operator.ne, ast.Lt: operator.lt, ast.LtE: operator.le, ast.Gt: operator.gt, ast.GtE: operator.ge}

    def truth(e):
        return e.value if isinstance(e, ast.Constant) and isinstance(e.value, bool) else None

    class F(ast.NodeTransformer):
        def __init__(self, consts):
            self.consts = consts

        def visit_Compare(self, c):
            if len(c.ops) != 1:
                self.generic_visit(c)
                return c
            l, op, r = c.left, c.ops[0], c.comparators[0]
            if isinstance(op, (ast.In, ast.NotIn)) and isinstance(l, ast.Name) and l.id in env and isinstance(r, (ast.Tuple, ast.List, ast.Set)) \
                    and r.elts and all(_int_literal(x) is not None for x in r.elts):
                inside = env[l.id][1] in {_int_literal(x) for x in r.elts}
                return ast.Constant(inside if isinstance(op, ast.In) else not inside)
            if type(op) in ops:
                if isinstance(l, ast.Name) and l.id in env and _int_literal(r) is not None:
                    return ast.Constant(bool(ops[type(op)](env[l.id][1], _int_literal(r))))
                if isinstance(r, ast.Name) and r.id in env and _int_literal(l) is not None:
                    return ast.Constant(bool(ops[type(op)](_int_literal(l), env[r.id][1])))
            self.generic_visit(c)
            return c

        def visit_Name(self, n):
            if isinstance(n.ctx, ast.Load) and n.id in self.consts:
                return ast.Constant(self.consts[n.id])
            if isinstance(n.ctx, ast.Load) and n.id in env and env[n.id][0] == "point":
                return ast.Constant(env[n.id][1])
            return n

        def visit_BoolOp(self, b):
            self.generic_visit(b)
            absorbing = isinstance(b.op, ast.Or)
            vals = []
            for v_ in b.values:
                t = truth(v_)
                if t is None:
                    vals.append(v_)
                elif t == absorbing:
                    # `x or True` - what stands before it is still evaluated, but tests have no effects here
                    return ast.Constant(absorbing)
            if not vals:
                return ast.Constant(not absorbing)
            return vals[0] if len(vals) == 1 else ast.BoolOp(op=b.op, values=vals)

        def visit_UnaryOp(self, u):
            self.generic_visit(u)
            if isinstance(u.op, ast.Not) and truth(u.operand) is not None:
                return ast.Constant(not truth(u.operand))
            return u

        def visit_IfExp(self, e):
            self.generic_visit(e)
            t = truth(e.test)
            return e if t is None else (e.body if t else e.orelse)

        def visit_If(self, st):
            self.generic_visit(st)
            t = truth(st.test)
            if t is None:
                return st
            return (st.body if t else st.orelse) or None

        def visit_While(self, st):
            self.generic_visit(st)
            return None if truth(st.test) is False else st
    consts = {}
    for _ in range(4):
        f = F(consts).visit(f)
        if not f.body:
            f.body = [ast.Pass()]
        ast.fix_missing_locations(f)
        # boolean locals bound once to a decided value are propagated
        nst = {}
        for n in ast.walk(f):
            if isinstance(n, ast.Name) and isinstance(n.ctx, ast.Store):
                nst[n.id] = nst.get(n.id, 0) + 1
        new = {}
        for st in ast.walk(f):
            if isinstance(st, ast.Assign) and len(st.targets) == 1 and isinstance(st.targets[0], ast.Name) and truth(st.value) is not None \
                    and nst.get(st.targets[0].id) == 1 and st.targets[0].id not in consts:
                new[st.targets[0].id] = (st.value.value, st)
        if not new:
            break
        for x, (v_, st) in new.items():
            consts[x] = v_
            _remove_stmt(f, st)
    # what follows an unconditional return / raise / break / continue in its block is dead; a bare return at the end of the body is
    # the end of the body
    def prune(block):
        for k, st in enumerate(block):
            for fld in ("body", "orelse"):
                b = getattr(st, fld, None)
                if isinstance(b, list) and b and isinstance(b[0], ast.stmt):
                    prune(b)
            if isinstance(st, (ast.Return, ast.Raise, ast.Break, ast.Continue)):
                del block[k + 1:]
                break
    prune(f.body)
    if f.body and isinstance(f.body[-1], ast.Return) and f.body[-1].value is None:
        f.body.pop()
    for blk in ast.walk(f):
        for fld in ("body", "orelse"):
            b = getattr(blk, fld, None)
            if isinstance(b, list) and fld == "body" and not b and isinstance(blk, (ast.For, ast.While, ast.If, ast.FunctionDef)):
                blk.body = [ast.Pass()]
    return ast.fix_missing_locations(f)


def mode_cases(fn, vfr, pure, tree_a, tree_b):
    """-> (True, text) when reference and copy are identical in canonical form on every region of their mode parameters;
    (None, reason) otherwise"""
    import itertools
    stored = {n.id for f_ in (fn, vfr) for n in ast.walk(f_) if isinstance(n, ast.Name) and isinstance(n.ctx, ast.Store)}
    modes = {}
    for a_ in fn.args.args:
        k_ = _type_kind(src(a_.annotation)) if a_.annotation is not None else None
        if k_ is None or k_[1] != 0 or k_[0] not in ("int", "bool") or a_.arg in stored:
            continue
        la, na = _mode_tests(fn, a_.arg)
        lb, nb = _mode_tests(vfr, a_.arg)
        if k_[0] == "bool":
            if na + nb == 0 and any(isinstance(t, (ast.If, ast.IfExp, ast.While)) and any(isinstance(x, ast.Name) and x.id == a_.arg
                                                                                        for x in ast.walk(t.test))
                                    for f_ in (fn, vfr) for t in ast.walk(f_)):
                modes[a_.arg] = [("is False", "point", False), ("is True", "point", True)]
        elif na + nb and (la | lb):
            modes[a_.arg] = _mode_regions(la | lb)
    if not modes:
        return None, "no mode parameter (integer argument compared with literals)", None
    names = sorted(modes)
    combos = list(itertools.product(*[modes[p] for p in names]))
    if len(combos) > 40:
        return None, f"{len(combos)} combinations of the mode parameters {names}", None
    for combo in combos:
        env = {p: (kind, rep) for p, (_, kind, rep) in zip(names, combo)}
        where = ", ".join(f"{p} {desc}" for p, (desc, _, _) in zip(names, combo))
        try:
            sa, sb = _specialise(fn, env), _specialise(vfr, env)
            ca, cb = canon_fn(sa, pure, tree_a), canon_fn(sb, pure, tree_b)
            ca.args = cb.args = _bare_args(ca)
            if ast.dump(ca) != ast.dump(cb):
                ra, rb = ast.parse(ast.unparse(ca)).body[0], ast.parse(ast.unparse(cb)).body[0]
                _loop_order(ra, pure)
                _loop_order(rb, pure)
                ca, cb = ast.parse(ast.unparse(ra)).body[0], ast.parse(ast.unparse(rb)).body[0]
        except Exception as e:
            return None, f"case {where}: specialisation failed ({type(e).__name__})", None
        if ast.dump(ca) != ast.dump(cb):
            return None, f"for {where} the two bodies specialised to the case are not identical in canonical form", \
                (where, ca, cb, all(kind == "point" for _, kind, _ in combo))
    return True, (f"{len(combos)} case(s) of the mode parameter(s) " +
                  ", ".join(f"`{p}` ({'; '.join(d for d, _, _ in modes[p])})" for p in names)), None


def _assigned_bases(st):
    """names (scalars, bases of stored arrays, loop counters) the statement itself binds or stores into"""
    out = set()
    if isinstance(st, ast.Assign):
        for t in st.targets:
            for e in (t.elts if isinstance(t, (ast.Tuple, ast.List)) else [t]):
                out.add(_base_name(e))
    elif isinstance(st, ast.For):
        out |= {n.id for n in ast.walk(st.target) if isinstance(n, ast.Name)}
    return out


def _entangled(wrong, differing):
    """a recognised difference that is not independent of the other differences -> text, else None: another differing statement
    binds / stores into something this one reads (or the other way round), or target and value of one store both differ"""
    def names(e):
        return {n.id for n in ast.walk(e) if isinstance(n, ast.Name)}
    for P in wrong:
        _, a, b, sa, sb, what = P
        if what == "loop range" and len(differing) > 1:
            # a loop that runs over another range while some other statement differs as well: iterations may have been peeled off
            # the loop or merged into it (X = T(0); for k in range(1, n): X += T(k)  is  X = 0; for k in range(n): X += T(k))
            other = next(Q for Q in differing if Q is not P)
            return (f"the loop `{_short(sb, 50)}` runs over another range and `{_short(other[4], 50)}` differs too: iterations may have been "
                    "peeled off the loop or merged into it")
        for Q in differing:
            if Q is P:
                continue
            _, a2, b2, sa2, sb2, what2 = Q
            if sb2 is sb:
                if {what, what2} == {"target", "value"}:
                    return f"target and value of `{_short(sb, 60)}` are both written differently"
                continue
            hit = ((_assigned_bases(sa2) | _assigned_bases(sb2)) & (names(a) | names(b))) | \
                ((_assigned_bases(sa) | _assigned_bases(sb)) & (names(a2) | names(b2)))
            if hit:
                return (f"`{_short(sb, 50)}` and `{_short(sb2, 50)}` both differ from their counterparts and are connected through "
                        f"`{sorted(hit)[0]}`")
    return None


_EXOTIC = (ast.IfExp, ast.ListComp, ast.SetComp, ast.DictComp, ast.GeneratorExp, ast.Lambda, ast.NamedExpr, ast.Starred, ast.JoinedStr,
           ast.Dict, ast.Set, ast.Try, ast.With, ast.Assert, ast.Delete, ast.Global, ast.Nonlocal, ast.Match if hasattr(ast, "Match") else ast.Try)


def _novel_constructs(f_flagged, f_other, tree_flagged=None, tree_other=None):
    """what the body of `f_flagged` (with the helpers of its module that it calls, which the engines inline) uses and the body of
    `f_other` (with its helpers) does not, among the things an extractor may silently mis-read: calls of library / builtin functions
    (max, min, where, clip, ...) and unusual kinds of expressions and statements (conditional expressions, comprehensions, lambdas,
    walrus, star-expressions, try / with / assert) -> sorted list of texts.  Ordinary statements, operators and calls of functions
    defined in the module itself are not listed: the engines read those in every flavour."""
    def inventory(f, tree):
        ren, _mods = _import_aliases(f, tree)
        defs = {st.name: st for st in (tree.body if tree is not None else []) if isinstance(st, ast.FunctionDef)}
        kinds, calls, seen, work = set(), set(), set(), [f]
        while work:
            g0 = work.pop()
            if id(g0) in seen:
                continue
            seen.add(id(g0))
            g = _strip(g0)
            local = {a.arg for a in g.args.args}
            for n in ast.walk(g):
                if isinstance(n, _EXOTIC):
                    kinds.add(type(n).__name__)
                if isinstance(n, ast.Call):
                    nm = src(n.func).split(".")[-1]
                    if isinstance(n.func, ast.Name) and nm in defs and nm not in local:
                        work.append(defs[nm])
                    elif not (isinstance(n.func, ast.Name) and nm in local):
                        calls.add(ren.get(nm, nm))
        return kinds, calls
    try:
        (ka, ca_), (kb, cb_) = inventory(f_flagged, tree_flagged), inventory(f_other, tree_other)
    except Exception:
        return ["a body that could not be read"]
    return sorted(ka - kb) + sorted(f"a call of `{c}`" for c in ca_ - cb_)


def _local_convention(cb, wrong, rejudge_full):
    """a wrong pair that defines a local / loop counter x while other wrong pairs use x
    -> ('same', x, c, text) | ('inconsistent', x, c, (text, pair)) | ('undecided', x, n, text) | ('other', x, c, remaining wrong) | None"""
    import sympy as sp

    def names(e):
        return {n.id for n in ast.walk(e) if isinstance(n, ast.Name)}

    def const_node(c):
        if c.is_Integer:
            return ast.Constant(int(c))
        return ast.BinOp(left=ast.Constant(int(c.p)), op=ast.Div(), right=ast.Constant(int(c.q)))

    def minus(e, c):
        e = ast.parse(ast.unparse(e), mode="eval").body
        return ast.BinOp(left=e, op=ast.Sub(), right=const_node(c)) if c > 0 else ast.BinOp(left=e, op=ast.Add(), right=const_node(-c))
    for w in wrong:
        _, a, b, sa, sb, what = w
        if what == "value" and isinstance(sb, ast.Assign) and len(sb.targets) == 1 and isinstance(sb.targets[0], ast.Name):
            x, kind = sb.targets[0].id, "assign"
        elif what == "loop range" and isinstance(sb, ast.For) and isinstance(sb.target, ast.Name):
            x, kind = sb.target.id, "for"
        else:
            continue
        users = [u for u in wrong if u[4] is not sb and x in (names(u[1]) | names(u[2]))]
        if not users:
            continue
        text = f"`{_short(b, 50)}` where the reference has `{_short(a, 50)}`"
        nstores = sum(1 for n in ast.walk(cb) if isinstance(n, ast.Name) and n.id == x and isinstance(n.ctx, ast.Store))
        c = None
        try:
            if nstores == 1 and kind == "assign":
                c = sp.simplify(_to_sym(b, None) - _to_sym(a, None))
            elif nstores == 1 and isinstance(a, ast.Call) and isinstance(b, ast.Call) and src(a.func) == src(b.func) == "range" \
                    and not a.keywords and not b.keywords and 1 <= len(a.args) <= 3 and 1 <= len(b.args) <= 3:
                def parts(r):
                    z = [_to_sym(t, None) for t in r.args]
                    return (sp.Integer(0), z[0], sp.Integer(1)) if len(z) == 1 else (z[0], z[1], z[2] if len(z) == 3 else sp.Integer(1))
                (s1, e1, t1), (s2, e2, t2) = parts(a), parts(b)
                if sp.simplify(t1 - t2) == 0 and sp.simplify((s2 - s1) - (e2 - e1)) == 0:
                    c = sp.simplify(s2 - s1)
        except Exception:
            c = None
        if c is None or not c.is_Rational or c == 0:
            return "undecided", x, len(users), text
        f = ast.parse(ast.unparse(cb)).body[0]
        done = [False]

        class S(ast.NodeTransformer):
            def visit_Name(self, n):
                if n.id == x and isinstance(n.ctx, ast.Load):
                    return ast.BinOp(left=n, op=ast.Add(), right=const_node(c)) if c > 0 else ast.BinOp(left=n, op=ast.Sub(), right=const_node(-c))
                return n

            def visit_Assign(self, n):
                self.generic_visit(n)
                if kind == "assign" and len(n.targets) == 1 and isinstance(n.targets[0], ast.Name) and n.targets[0].id == x:
                    n.value = minus(n.value, c)
                    done[0] = True
                return n

            def visit_For(self, n):
                if kind == "for" and isinstance(n.target, ast.Name) and n.target.id == x and isinstance(n.iter, ast.Call):
                    r = n.iter
                    if len(r.args) == 1:
                        r.args = [ast.Constant(0), r.args[0]]
                    r.args[0], r.args[1] = minus(r.args[0], c), minus(r.args[1], c)
                    done[0] = True
                    n.body = [self.visit(st) for st in n.body]
                    n.orelse = [self.visit(st) for st in n.orelse]
                    return n
                self.generic_visit(n)
                return n
        try:
            f = ast.parse(ast.unparse(_sort_operands(ast.fix_missing_locations(S().visit(f))))).body[0]
        except Exception:
            return "undecided", x, len(users), text
        vs = rejudge_full(f.body) if done[0] else None
        if vs is None:
            return "undecided", x, len(users), text
        wrong2 = [u for u in vs if u[0] is False]
        if not wrong2:
            return ("same", x, c, text) if all(u[0] is True for u in vs) else ("undecided", x, len(users), text)
        tied = [u for u in wrong2 if x in (names(u[1]) | names(u[2]))]
        if tied:
            return "inconsistent", x, c, (text, tied[0])
        return "other", x, c, wrong2
    return None


def _axis_permutation(cb, wrong, rejudge, params, before=None):
    """-> (array, sigma, number of accesses, is parameter, everything else proved equal) when permuting the axes of one array in the
    copy `cb` (sigma[p] = axis of the copy that plays the role of axis p of the reference) removes every recognised difference"""
    import itertools
    cands = {}
    for _, a, b, _, _, _ in wrong:
        for e in (a, b):
            for n in ast.walk(e):
                if isinstance(n, ast.Subscript) and isinstance(n.value, ast.Name) and isinstance(n.slice, ast.Tuple) and 2 <= len(n.slice.elts) <= 4:
                    cands.setdefault(n.value.id, set()).add(len(n.slice.elts))
                elif isinstance(n, ast.Subscript) and isinstance(n.value, ast.Attribute) and n.value.attr == "shape" \
                        and isinstance(n.value.value, ast.Name):
                    cands.setdefault(n.value.value.id, set())
    for X, ranks in sorted(cands.items()):
        # every use of X in the copy: full-rank subscripts and X.shape[k] (and, for a local, its allocation)
        rank_seen = set(ranks)
        for n in ast.walk(cb):
            if isinstance(n, ast.Subscript) and isinstance(n.value, ast.Name) and n.value.id == X:
                rank_seen.add(len(n.slice.elts) if isinstance(n.slice, ast.Tuple) else 1)
        if len(rank_seen) != 1 or not (2 <= next(iter(rank_seen)) <= 4):
            continue
        r = next(iter(rank_seen))
        is_param = X in params
        for sigma in itertools.permutations(range(r)):
            if list(sigma) == list(range(r)):
                continue
            inv = {sigma[p_]: p_ for p_ in range(r)}
            f = ast.parse(ast.unparse(cb)).body[0]
            n_acc, clean = [0], [True]

            class P(ast.NodeTransformer):
                def visit_Subscript(self, n):
                    self.generic_visit(n)
                    if isinstance(n.value, ast.Name) and n.value.id == X and isinstance(n.slice, ast.Tuple) and len(n.slice.elts) == r:
                        n.slice.elts = [n.slice.elts[sigma[p_]] for p_ in range(r)]
                        n_acc[0] += 1
                        if any(isinstance(it, ast.Slice) for it in n.slice.elts):
                            clean[0] = False
                    elif isinstance(n.value, ast.Attribute) and n.value.attr == "shape" and isinstance(n.value.value, ast.Name) \
                            and n.value.value.id == X:
                        if isinstance(n.slice, ast.Constant) and isinstance(n.slice.value, int) and 0 <= n.slice.value < r:
                            n.slice = ast.Constant(inv[n.slice.value])
                            n_acc[0] += 1
                        else:
                            clean[0] = False
                    return n

                def visit_Assign(self, n):
                    self.generic_visit(n)
                    # allocation of a local: X = empty((a, b, c)) / zeros([a, b, c], ...)
                    if not is_param and len(n.targets) == 1 and isinstance(n.targets[0], ast.Name) and n.targets[0].id == X \
                            and isinstance(n.value, ast.Call) and n.value.args and isinstance(n.value.args[0], (ast.Tuple, ast.List)) \
                            and len(n.value.args[0].elts) == r:
                        n.value.args[0].elts = [n.value.args[0].elts[sigma[p_]] for p_ in range(r)]
                    return n
            f = ast.fix_missing_locations(P().visit(f))
            # any other use of X (whole array handed on, bare name, other rank): the layout is visible elsewhere
            bare = 0
            for n in ast.walk(f):
                if isinstance(n, ast.Name) and n.id == X:
                    bare += 1
            uses_ok = True
            for n in ast.walk(f):
                for ch in ast.iter_child_nodes(n):
                    if isinstance(ch, ast.Name) and ch.id == X:
                        ok_here = (isinstance(n, ast.Subscript) and n.value is ch) or \
                            (isinstance(n, ast.Attribute) and n.attr == "shape") or \
                            (isinstance(n, ast.Assign) and ch in n.targets)
                        if not ok_here:
                            uses_ok = False
            try:
                f = ast.parse(ast.unparse(_sort_operands(f))).body[0]
            except Exception:
                continue
            vs = rejudge(f.body)
            if vs is None or any(x is False for x in vs):
                continue
            # AUDIT: the permutation explains the differences only when every pair that was recognisably different is EQUAL once the
            # axes are permuted back (a pair that merely became incomparable is not explained by it)
            if before is not None and (len(before) != len(vs) or any(o is False and n_ is not True for o, n_ in zip(before, vs))):
                continue
            return X, sigma, n_acc[0], is_param, (all(x is True for x in vs) and clean[0] and uses_ok)
    return None


def _short(e, n=110):
    t = src(e).replace("\n", " ")
    return t if len(t) <= n else t[:n] + "..."



def _module_level_names(tree):
    """every name bound by a statement of the module outside function and class bodies (assignments, imports, defs, classes, loop
    and `with` targets, also inside `if` / `try` at module level); `from x import *` -> the marker '*' """
    out = set()

    def go(block):
        for st in block:
            if isinstance(st, (ast.FunctionDef, ast.AsyncFunctionDef, ast.ClassDef)):
                out.add(st.name)
                continue
            if isinstance(st, (ast.Import, ast.ImportFrom)):
                out.update((a.asname or a.name).split(".")[0] for a in st.names)
                continue
            for n in ast.walk(st):
                if isinstance(n, ast.Name) and isinstance(n.ctx, ast.Store):
                    out.add(n.id)
                elif isinstance(n, (ast.FunctionDef, ast.ClassDef)):
                    out.add(n.name)
                elif isinstance(n, (ast.Import, ast.ImportFrom)):
                    out.update((a.asname or a.name).split(".")[0] for a in n.names)
    go(tree.body)
    return out


def reference_inputs(chk):
    """V5 on the reference kernels themselves: an array annotated Final is not written, also not through a view (pyccel checks
    direct stores only; a store through a slice of the array changes the caller's data in the interpreted kernel)"""
    from .. import lints
    for ref in U.KERNELS:
        rm = chk.mod(ref)
        for q, fn in rm.functions().items():
            if "." in q:
                continue
            final = {a.arg for a in fn.args.args if a.annotation is not None and "Final" in src(a.annotation)
                     and "[" in src(a.annotation).replace("Final[", "", 1)}
            if not final:
                continue
            # AUDIT: true when the annotation really is Final[<array>] and lints.shared_state_mutations reports a store that reaches
            # the parameter's own array (direct store, in-place operator, view / alias of it, out= / overwrite flag); a copy
            # (`.copy()`, arithmetic result) is a new array and is not followed (engine: pgverif/lints.py)
            found_ = lints.shared_state_mutations(fn, lambda s_, final=final: s_ in final)
            muts = list(found_)
            und_ = list(getattr(found_, "undecided", []) or [])
            for node, desc, reason in und_:
                # a possible write the engine could not establish (kind of the receiver / view-or-copy of the alias unknown): no verdict
                chk.ob("V5-inputs-not-written", node, f"{ref}:{q}: {src(node)[:70]}", None,
                       f"a write may reach an array declared Final ({desc}) but this is not established: {reason}", file=ref, func=q)
            for node, desc in muts:
                chk.ob("V5-inputs-not-written", node, f"{ref}:{q}: {src(node)[:70]}", False,
                       desc.replace("the stored", "the caller's read-only input") + f" - `{q}` declares {sorted(final)} Final: the interpreted "
                       "kernel changes the caller's array (every later call sees other data), which the declaration promises the compiled "
                       "kernel never does", file=ref, func=q)
            chk.ob("V5-inputs-not-written", fn, f"{ref}:{q} leaves {sorted(final)} unchanged", (None if und_ else True) if not muts else False,
                   (f"{len(und_)} possible write(s) to an array declared Final are not decided (listed separately)" if und_ else
                    "no store, in-place update or overwrite flag reaches an array declared Final, directly or through a view") if not muts else
                   f"{len(muts)} write(s) reach an array declared Final (listed separately)", file=ref, func=q, nontrivial=False)


def variant_agreement(chk):
    want = consumers(chk)
    proved = unproved = 0
    pure = pure_functions(chk)
    kwcalls = keyword_calls(chk)
    analysed, module_dump = {}, {}
    for ref, variants in U.VARIANTS.items():
        rm = chk.mod(ref)
        for v in variants:
            vm = chk.mod(v)
            flavour = "numba" if "numba_" in v else "pythran"
            # V1: consumer names and parameter lists
            # AUDIT: "the copy does not define the name" is true only when NOTHING binds it at module level: a name provided by an
            # assignment (`init_f = _init_f_impl`), an import (`from .x import f`) or a conditional definition is defined too
            bound_v = _module_level_names(vm.tree)
            missing = sorted(n for n in want[ref] if rm.has(n) and not vm.has(n) and n not in bound_v and "*" not in bound_v)
            chk.ob("V1-consumer-names", vm.tree, f"{v}: names imported by the library from {ref.split('/')[-1]}", not missing,
                   f"all {len(want[ref])} imported names are defined by the {flavour} copy" if not missing else
                   f"the {flavour} copy does not define {missing}, which the library imports from the module it replaces",
                   file=v, func="<module>")
            per_q = {}
            for q, fn in rm.functions().items():
                if "." in q or not vm.has(q):
                    continue
                vf = vm.func(q)
                pa, pb = [a.arg for a in fn.args.args], [a.arg for a in vf.args.args]
                okp, whyp = parameter_lists(chk, fn, vf, q, kwcalls)
                chk.ob("V1-parameter-lists", vf, f"{v}:{q}", okp, whyp, file=v, func=q, nontrivial=False)
                # V2: export arity
                ars = export_arities(vm, q, flavour)
                if ars:
                    # an export may leave out trailing parameters that have a default (one signature per way of calling the function)
                    req_v = len(pb) - len(vf.args.defaults)
                    # AUDIT: true when the export was read (a string signature / tuple / call: anything else is None -> undecided) and its
                    # arity lies outside [required, all] parameters of the def it decorates / names
                    bad = [x for x in ars if x is not None and not (req_v <= x <= len(pb))]
                    full = any(x == len(pb) for x in ars)
                    oka = False if bad else (None if any(x is None for x in ars) else True)
                    chk.ob("V2-export-arity", vf, f"{v}:{q} export signature", oka,
                           (f"export declares {ars[0]} arguments = def arity" if ars[0] == len(pb) and len(ars) == 1 else
                            f"the {len(ars)} export signature(s) declare {sorted(set(ars))} arguments: between the {req_v} required and the "
                            f"{len(pb)} parameters of the def (the others have defaults)" + ("" if full else "; none declares all of them")) if oka else
                           f"export declares {bad[0]} arguments but the function takes {len(pb)}"
                           + (f" ({req_v} of them required)" if req_v != len(pb) else "") + f": the {flavour} build rejects the module or "
                           "exports a function the library cannot call" if bad else "export signature not in a recognised form",
                           file=v, func=q, nontrivial=False)
                # V2b: the exported argument types are those the reference kernel declares (kind and rank)
                ann = [_type_kind(src(a.annotation)) if a.annotation is not None else None for a in fn.args.args]
                sigs = [sg for sg in export_types(vm, q, flavour) if len(sg) == len(ann)]
                # AUDIT: compared only when every annotation of the reference AND every exported type is of the readable form
                # <kind>[:,..] (TypeVars, function types, unknown spellings: no verdict) and the arities agree; kinds are compared up
                # to width (int32/int64 -> int, float64 -> float), ranks exactly
                if sigs and all(a is not None for a in ann) and all(x is not None for sg in sigs for x in sg):
                    okt = any(sg == ann for sg in sigs)
                    diffs = [(k, sg[k]) for sg in sigs[:1] for k in range(len(ann)) if sg[k] != ann[k]]
                    if not okt:
                        # AUDIT: "converts or rejects the arguments" is true when some argument is exported with another RANK or with a
                        # NARROWER kind than the reference declares (int for float, bool for int, float for complex: values are lost);
                        # an export that is only WIDER (int for bool, float for int) takes every value the reference takes - whether
                        # the body then computes the same is the business of V4: not a violation of this rule
                        width = {"bool": 0, "int": 1, "float32": 2, "float": 3, "complex": 4}
                        def only_wider(sg):
                            return all(x == y or (x[1] == y[1] and width.get(x[0], -1) > width.get(y[0], 99)) for x, y in zip(sg, ann))
                        if any(only_wider(sg) for sg in sigs):
                            okt = None
                    chk.ob("V2-export-types", vf, f"{v}:{q} exported argument types", okt,
                           "an export signature declares, argument by argument, the kind (int/float/bool/complex) and rank the reference "
                           "kernel is annotated with" if okt else
                           (f"an export signature of the {flavour} copy differs from the annotations of the reference only by WIDER kinds (argument "
                            f"{diffs[0][0] + 1} `{pb[diffs[0][0]] if diffs[0][0] < len(pb) else '?'}`: {diffs[0][1][0]} for {ann[diffs[0][0]][0]}): every "
                            "value the reference takes is representable; whether the same results follow is not decided by this rule") if okt is None else
                           f"no export signature of the {flavour} copy has the argument types of the reference: argument {diffs[0][0] + 1} "
                           f"`{pb[diffs[0][0]] if diffs[0][0] < len(pb) else '?'}` is exported as {diffs[0][1][0]} of rank {diffs[0][1][1]}, the "
                           f"reference declares {ann[diffs[0][0]][0]} of rank {ann[diffs[0][0]][1]}: the compiled copy converts or rejects the "
                           "arguments the library passes to the pyccel kernel", file=v, func=q, nontrivial=False)
                # V5: arrays the reference declares read-only (Final) are not written by the copy, also not through a view
                final = {a.arg for a in fn.args.args if a.annotation is not None and "Final" in src(a.annotation)
                         and "[" in src(a.annotation).replace("Final[", "", 1)}
                if final:
                    from .. import lints
                    # follow the read-only arrays into helpers that exist only in the copy
                    work, seen_h, muts, und_v = [(vf, q, frozenset(final))], set(), [], []
                    while work:
                        hf, hq, hfinal = work.pop()
                        if (hq, hfinal) in seen_h:
                            continue
                        seen_h.add((hq, hfinal))
                        found_ = lints.shared_state_mutations(hf, lambda s_, hfinal=hfinal: s_ in hfinal)
                        for node, desc in found_:
                            muts.append((hq, node, desc))
                        for node, desc, reason in (getattr(found_, "undecided", []) or []):
                            und_v.append((hq, node, desc, reason))
                        for c in ast.walk(hf):
                            if isinstance(c, ast.Call) and isinstance(c.func, ast.Name) and vm.has(c.func.id) and not rm.has(c.func.id):
                                cf = vm.func(c.func.id)
                                formals = [a.arg for a in cf.args.args]
                                passed = {formals[k] for k, a in enumerate(c.args) if k < len(formals) and isinstance(a, ast.Name) and a.id in hfinal}
                                passed |= {k.arg for k in c.keywords if isinstance(k.value, ast.Name) and k.value.id in hfinal}
                                if passed:
                                    work.append((cf, c.func.id, frozenset(passed)))
                    for hq, node, desc in muts:
                        chk.ob("V5-inputs-not-written", node, f"{v}:{hq}: {src(node)[:70]}", False,
                               desc.replace("the stored", "the caller's read-only input") + f" - the reference kernel `{q}` declares "
                               f"{sorted(final)} Final (never written); this copy changes the caller's array, so later calls give other "
                               "results than the reference", file=v, func=hq)
                    for hq, node, desc, reason in und_v:
                        chk.ob("V5-inputs-not-written", node, f"{v}:{hq}: {src(node)[:70]}", None,
                               f"a write may reach an input array the reference declares Final ({desc}) but this is not established: {reason}",
                               file=v, func=hq)
                    chk.ob("V5-inputs-not-written", vf, f"{v}:{q} leaves {sorted(final)} unchanged", (None if und_v else True) if not muts else False,
                           (f"{len(und_v)} possible write(s) to an input array of the reference are not decided (listed separately)" if und_v else
                            f"no store, in-place update or overwrite flag reaches an input array of the reference, directly, through a view or in "
                            f"the {len(seen_h) - 1} helper(s) it is handed to") if not muts else
                           f"{len(muts)} write(s) reach an input array the reference never writes (listed separately)",
                           file=v, func=q, nontrivial=False)
                # V4: body equivalence (a copy whose module is AST-identical to a sibling already analysed - the pythran dependency
                # copies - gets the sibling's obligations under its own file name: the analysis reads nothing but the module)
                vkey = (ref, q, flavour, module_dump.setdefault(v, ast.dump(vm.tree)))
                if vkey in analysed:
                    res, v0, obs0, funcs0 = analysed[vkey]
                    import dataclasses
                    for o in obs0:
                        o2 = dataclasses.replace(o, file=v if o.file == v0 else o.file, construct=o.construct.replace(v0, v),
                                                 msg=o.msg.replace(v0, v), facts=dict(o.facts))
                        k2 = (o2.key, o2.status, o2.line)
                        if k2 not in chk._seen:
                            chk._seen.add(k2)
                            chk.obs.append(o2)
                    chk.functions |= {f_.replace(v0, v) for f_ in funcs0}
                    per_q[q] = (res, None)
                    if res is True:
                        proved += 1
                    elif res is None:
                        unproved += 1
                    continue
                before_v4, funcs_v4 = len(chk.obs), set(chk.functions)
                try:
                    res = body_equivalence(chk, ref, v, q, fn, vf, vm, flavour, pure)
                except (AnalysisError, Undecided) as e:
                    res = None
                    chk.ob("V4-body-equivalence", vf, f"{v}:{q}", None, f"comparison with the reference not possible: {e}", file=v, func=q)
                except Exception as e:      # a defect of the comparison itself decides nothing about the kernel
                    res = None
                    chk.ob("V4-body-equivalence", vf, f"{v}:{q}", None, f"comparison with the reference failed ({type(e).__name__}: {e})",
                           file=v, func=q)
                analysed[vkey] = (res, v, list(chk.obs[before_v4:]), set(chk.functions) - funcs_v4)
                per_q[q] = (res, vkey)
                if res is True:
                    proved += 1
                elif res is None:
                    unproved += 1
            # AUDIT (caller + callee are one unit): a helper of the copy that the library never reaches directly - not imported from
            # the module, no library call - is seen only through its callers inside the copy.  When it differs from the reference's
            # helper and EVERY caller in the copy is written differently too (none of them proved equal to its counterpart), the
            # two differences may be the two halves of one change of convention: the difference of the helper alone is then no
            # violation of "same results as the reference" (the callers' own verdicts stand).
            for g, (res_g, vkey_g) in list(per_q.items()):
                if res_g is not False or vkey_g is None or g in want[ref] or any(c_[0] != ref for c_ in library_calls(chk).get(g, [])):
                    continue          # (vkey None: the verdict was taken over from an identical sibling module, demoted there if at all)
                callers = [f_ for f_, ff in vm.functions().items() if "." not in f_ and f_ != g
                           and any(isinstance(n_, ast.Name) and n_.id == g for n_ in ast.walk(ff))]
                if not callers or any(per_q.get(f_, (True, None))[0] is True for f_ in callers):
                    continue
                res0, v0, obs0, funcs0 = analysed[vkey_g]
                for o in obs0:
                    if o.status == "VIOLATED":
                        chk._seen.discard((o.key, o.status, o.line))
                        o.status = "UNDECIDED"
                        o.msg = (f"`{g}` is a helper that only the kernels of this module call ({', '.join(sorted(callers)[:4])}); every one of "
                                 "them is written differently from its counterpart too, so the following difference may be one half of a "
                                 "change of convention between the helper and its callers - not decided: " + o.msg)
                        chk._seen.add((o.key, o.status, o.line))
                analysed[vkey_g] = (None, v0, obs0, funcs0)
                per_q[g] = (None, vkey_g)
                unproved += 1
    chk.extra["variant_bodies_proved"] = proved
    chk.extra["variant_bodies_unproved"] = unproved
    if proved < 55:
        raise AnalysisError(f"C19: only {proved} variant bodies proved equivalent (floor 55)")
    # V3: duplicated copies identical
    for a, b in (("pygyro/splines/pythran_spline_eval_funcs.py", "pygyro/advection/pythran_deps/pythran_spline_eval_funcs.py"),
                 ("pygyro/splines/pythran_cubic_uniform_spline_eval_funcs.py", "pygyro/advection/pythran_deps/pythran_cubic_uniform_spline_eval_funcs.py"),
                 ("pygyro/initialisation/pythran_initialiser_funcs.py", "pygyro/advection/pythran_deps/pythran_initialiser_funcs.py")):
        ma, mb = chk.mod(a), chk.mod(b)
        R3, con = "V3-duplicate-identity", f"{b} == {a}"
        if os.path.realpath(ma.path) == os.path.realpath(mb.path):
            chk.ob(R3, mb.tree, con, True, "the copy used as a pythran dependency is a symbolic link to its sibling", file=b, func="<module>")
            continue
        # the text as written (the per-file normalisation of the loader must not make two equal files look different)
        ta, tb = ast.parse(ma.src), ast.parse(mb.src)
        _DATA["scalars"], _DATA["arrays"] = set(), set()
        if ast.dump(ta) == ast.dump(tb):
            chk.ob(R3, mb.tree, con, True, "the copy used as a pythran dependency is AST-identical to its sibling", file=b, func="<module>")
            continue
        fa = {f.name: f for f in ta.body if isinstance(f, ast.FunctionDef)}
        fb = {f.name: f for f in tb.body if isinstance(f, ast.FunctionDef)}
        _CTX["defined"], _CTX["changed"] = set(fa) & set(fb), set()
        only = sorted(set(fa) ^ set(fb))
        # AUDIT: a function that exists in one copy only is a difference between the two builds only when it is part of what the
        # module offers (exported to pythran, or imported by the library from the module it replaces); a private helper of one copy
        # is a matter of how that copy is written
        public = sorted(n_ for n_ in only if re.search(r"#\s*pythran\s+export\s+" + re.escape(n_) + r"\s*\(", ma.src + "\n" + mb.src)
                        or any(n_ in w for w in want.values()))
        if public:
            chk.ob(R3, mb.tree, con, False, f"the two copies of the same pythran module do not define the same functions: {public} exist in one "
                   "of them only - which of the two is compiled depends on the kernel being built", file=b, func="<module>")
            continue
        if only:
            chk.ob(R3, mb.tree, con, None, f"the two copies of the same pythran module differ: the helper(s) {only} exist in one of them only "
                   "(not exported, not imported by the library); whether the functions that use them still agree is not decided",
                   file=b, func="<module>")
            continue
        verdict, detail = True, ""
        for name in fa:
            try:
                ca, cb = canon_fn(fa[name], pure, ta), canon_fn(fb[name], pure, tb)
            except Exception as e:
                verdict, detail = None, f"{name}: canonical form not available ({type(e).__name__})"
                break
            if ast.dump(ca) == ast.dump(cb):
                continue
            pairs = []
            try:
                _GUARDS.clear()
                _pair_bodies(ca.body, cb.body, pairs)
                args_same = ast.dump(ca.args) == ast.dump(cb.args)
            except _Skeleton as e:
                if verdict is True:
                    verdict, detail = None, f"`{name}` is structured differently in the two copies ({e})"
                continue
            # AUDIT: the two files are meant to be the SAME module: a recognisably different expression (expr_same False) in functions
            # with the same skeleton is a difference between the two builds
            bad = [(x, y, what) for x, y, _, sy, what in pairs if expr_same(x, y) is False and not _equality_knowledge(sy, x, y)]
            if bad or not args_same:
                x, y, what = bad[0] if bad else (ca.args, cb.args, "parameter list")
                verdict, detail = False, f"`{name}`: `{_short(y)}` in {b} against `{_short(x)}` in {a} ({what})"
                break
            if any(expr_same(x, y) is None for x, y, _, _, _ in pairs) and verdict is True:
                verdict, detail = None, f"`{name}`: expressions not comparable"
        rest_a = [ast.dump(st) for st in ta.body if not isinstance(st, ast.FunctionDef) and not _is_docstring(st)]
        rest_b = [ast.dump(st) for st in tb.body if not isinstance(st, ast.FunctionDef) and not _is_docstring(st)]
        if verdict is True and rest_a != rest_b:
            verdict, detail = None, "module-level statements (imports, constants) differ"
        chk.ob(R3, mb.tree, con, verdict,
               "the two copies are written differently but every function is the same in canonical form" if verdict is True else
               (f"the two copies of the same pythran module compute different things: {detail}; which of them is compiled depends on "
                "the kernel being built (the advection kernel takes the one under pythran_deps)") if verdict is False else
               f"the two copies of the same pythran module differ and their equivalence is not decided: {detail}", file=b, func="<module>")


def _count_top_level(sig: str) -> int:
    sig = sig.strip()
    if not sig:
        return 0
    depth, n = 0, 1
    for ch in sig:
        if ch in "([":
            depth += 1
        elif ch in ")]":
            depth -= 1
        elif ch == "," and depth == 0:
            n += 1
    return n


def export_arities(vm, q, flavour):
    """argument counts of every export declaration of q (pythran comment lines, numba cc.export decorators)"""
    out = []
    if flavour == "pythran":
        for m in re.finditer(r"#\s*pythran\s+export\s+" + re.escape(q) + r"\s*\((.*)\)", vm.src):
            out.append(_count_top_level(m.group(1)))
        return out
    fn = vm.func(q)
    for d in fn.decorator_list:
        if isinstance(d, ast.Call) and src(d.func).endswith(".export") and len(d.args) >= 2:
            sig = d.args[1]
            if isinstance(sig, ast.Constant) and isinstance(sig.value, str):
                t = sig.value
                out.append(_count_top_level(t[t.index("(") + 1: t.rindex(")")]) if "(" in t and ")" in t else None)
            elif isinstance(sig, ast.Tuple):
                out.append(len(sig.elts))
            elif isinstance(sig, ast.Call) and sig.args is not None:      # ret_type(arg, arg, ...)
                out.append(len(sig.args))
            else:
                out.append(None)
    return out


_KINDS = {"float": "float", "float64": "float", "f8": "float", "double": "float", "float32": "float32", "f4": "float32",
          "int": "int", "int64": "int", "int32": "int", "i4": "int", "i8": "int", "bool": "bool", "b1": "bool",
          "complex": "complex", "complex128": "complex", "c16": "complex"}


def _type_kind(t: str):
    """'Final[float[:,:]]' / 'float64[:,:]order(C)' / 'f8[:, :]' -> ('float', 2); None when not of that form"""
    t = t.strip().strip("'\"")
    m = re.match(r"Final\[(.*)\]$", t)
    if m:
        t = m.group(1).strip()
    t = re.sub(r"order\(\w\)", "", t).strip()
    m = re.match(r"([A-Za-z_]\w*)\s*(\[[^\]]*\])?$", t)
    if not m or m.group(1) not in _KINDS:
        return None
    return _KINDS[m.group(1)], (m.group(2) or "").count(":")


def _split_top_level(sig: str):
    out, depth, cur = [], 0, ""
    for ch in sig:
        if ch in "([":
            depth += 1
        elif ch in ")]":
            depth -= 1
        if ch == "," and depth == 0:
            out.append(cur)
            cur = ""
        else:
            cur += ch
    if cur.strip():
        out.append(cur)
    return out


def export_types(vm, q, flavour):
    """per export declaration the list of (kind, rank) of its arguments (None where not recognised)"""
    sigs = []
    if flavour == "pythran":
        for m in re.finditer(r"#\s*pythran\s+export\s+" + re.escape(q) + r"\s*\((.*)\)", vm.src):
            sigs.append([_type_kind(x) for x in _split_top_level(m.group(1))])
        return sigs
    for d in vm.func(q).decorator_list:
        if isinstance(d, ast.Call) and src(d.func).endswith(".export") and len(d.args) >= 2:
            sg = d.args[1]
            if isinstance(sg, ast.Constant) and isinstance(sg.value, str) and "(" in sg.value and ")" in sg.value:
                t = sg.value
                sigs.append([_type_kind(x) for x in _split_top_level(t[t.index("(") + 1: t.rindex(")")])])
            elif isinstance(sg, ast.Tuple):
                sigs.append([_type_kind(src(x)) for x in sg.elts])
    return sigs


def _drop(chk, before):
    """forget the obligations recorded since `before` (an attempt that decided nothing)"""
    for o in chk.obs[before:]:
        chk._seen.discard((o.key, o.status, o.line))
    gone = chk.obs[before:]
    del chk.obs[before:]
    return gone


class _Shim:
    """a module in which one function is replaced (its canonical form): what the engines see of a module is `func`"""

    def __init__(self, mod, fns):
        self._mod, self._fns = mod, fns

    def func(self, q):
        return self._fns[q] if q in self._fns else self._mod.func(q)

    def functions(self):
        d = dict(self._mod.functions())
        d.update(self._fns)
        return d

    def __getattr__(self, n):
        return getattr(self._mod, n)


def spec_check(chk, v, q, vm, override=None):
    """prove a body against the specification formula of the function
    -> (True / False, "") with the obligations recorded, or (None, reason) with nothing recorded.
    override: a FunctionDef analysed in place of vm.func(q)"""
    from . import C07, C12
    from .. import symx
    before = len(chk.obs)
    for k in U.KERNELS:
        for name, f in chk.mod(k).functions().items():
            if "." not in name:
                symx.ANNOTATION_SOURCE[name] = f
    real_mod = chk.mod
    patched_mod = False
    if override is not None:
        vm = _Shim(vm, {q: override})
        chk.mod = lambda rel, _vm=vm: _vm if rel == v else real_mod(rel)
        patched_mod = True
    if v != U.CU and "cu_" in q and vm.has("cu_find_span"):
        # the evaluator of a copy is read together with the span search of ITS module (the index convention of cu_find_span is a
        # matter between the search and the evaluators of one module; the search itself is compared with the reference separately)
        inner_mod = chk.mod
        own_search = _Shim(real_mod(U.CU), {"cu_find_span": vm.func("cu_find_span")})
        chk.mod = lambda rel, _in=inner_mod, _s=own_search: _s if rel == U.CU else _in(rel)
        patched_mod = True
    try:
        if "eval_spline" in q and q.split("_")[-1] in ("scalar", "vector", "cross") and not re.search(r"_\d\d$", q):
            _with_module_funcs(C07.check_evaluator, chk, v, q, vm, rule="V4-body-equivalence")
        elif q == "general_poloidal_advection_step_impl":
            C12.check_implicit(chk, vm, modname=v, qname=q)
        elif q == "general_poloidal_advection_step_expl":
            C12.check_explicit(chk, vm, modname=v, qname=q)
        elif q == "f_eq":
            r, why = feq_equal(chk, v, vm)
            return r, why
        else:
            return None, "there is no specification formula for this function"
    except (Undecided, AnalysisError) as e:
        _drop(chk, before)
        return None, f"the specification check is not applicable ({e})"
    except Exception as e:        # an engine that cannot digest the rewritten body decides nothing
        _drop(chk, before)
        return None, f"the specification check failed on this body ({type(e).__name__}: {e})"
    finally:
        symx.ANNOTATION_SOURCE.clear()
        if patched_mod:
            del chk.mod          # back to the class method
    new = chk.obs[before:]
    for o in new:
        o.file = v
    if not new:
        return None, "the specification check produced no obligation"
    if any(o.status == "VIOLATED" for o in new):
        return False, ""
    und = [o for o in new if o.status == "UNDECIDED"]
    if und:
        _drop(chk, before)
        return None, f"the specification check could not extract the formula ({und[0].msg[:160]})"
    return True, ""


def reference_spec(chk, ref, q, pure):
    """the reference body against the same formula (once per function): a copy that satisfies the formula equals the reference
    only if the reference satisfies it too.  The body as written is tried first, then its canonical form."""
    cache = chk.__dict__.setdefault("_c19_refspec", {})
    if (ref, q) in cache:
        return cache[(ref, q)]
    rm = chk.mod(ref)
    before = len(chk.obs)
    r, why = spec_check(chk, ref, q, rm)
    if r is not True:
        first = _drop(chk, before) if r is False else []
        try:
            fn = rm.func(q)
            c = canon_fn(fn, pure, rm.tree)
            c.args = fn.args                    # the engines read the annotations
            c._qual = q
            ast.fix_missing_locations(c)
            for n in ast.walk(c):
                for ch in ast.iter_child_nodes(n):
                    ch._parent = n
            c._parent = getattr(fn, "_parent", None)
            r2, why2 = spec_check(chk, ref, q, rm, override=c)
        except Exception as e:
            r2, why2 = None, f"canonical form not available ({type(e).__name__}: {e})"
        if r2 is True:
            r, why = True, ""
        else:
            if r2 is False:
                _drop(chk, before)
            if r is False:
                chk.obs.extend(first)          # the diagnosis on the body as written
            elif r2 is False:
                r, why = None, "the reference satisfies the formula neither as written nor in canonical form, but only the " \
                    "canonical form gives a definite difference: " + why
    cache[(ref, q)] = (r, why)
    return r, why


def _with_module_funcs(fn, chk, v, q, vm, **kw):
    # variants may split an evaluator into helper functions: let the symbolic interpreter inline them
    from .. import symx
    orig = symx.SymExec.__init__

    def patched(self, f, args, calls=None, consts=None):
        orig(self, f, args, calls, consts)
        self.module_funcs = {n: d for n, d in vm.functions().items() if "." not in n and n != q and n not in (calls or {})}
    symx.SymExec.__init__ = patched
    try:
        fn(chk, v, q, **kw)
    finally:
        symx.SymExec.__init__ = orig


def feq_equal(chk, v, vm):
    """f_eq of the variant equals the reference as a formula (n0, Ti uninterpreted) -> (True/False, "") or (None, reason)"""
    import sympy as sp
    from ..npsym import NpSym
    rm = chk.mod(U.INITF)

    def formula(mod, name="f_eq", actuals=None, depth=0):
        fn = mod.func(name)
        ps = [a.arg for a in fn.args.args]
        if actuals is None:
            actuals = [sp.Symbol(f"a{k}", positive=True) for k in range(len(ps))]
        if len(actuals) != len(ps):
            raise Undecided(f"`{name}` called with {len(actuals)} arguments")
        env = dict(zip(ps, actuals))
        env["pi"] = sp.Symbol("pi", positive=True)
        env["real"] = lambda x: x
        for other in mod.functions():
            if "." not in other and other != name and depth < 3:
                env[other] = (lambda *xs, other=other: formula(mod, other, list(xs), depth + 1))
        n = NpSym(env=env)
        body = [s_ for s_ in fn.body if not isinstance(s_, (ast.Import, ast.ImportFrom, ast.Pass)) and not _is_docstring(s_)]
        if not body or not isinstance(body[-1], ast.Return) or body[-1].value is None or \
                any(not (isinstance(s_, ast.Assign) and len(s_.targets) == 1 and isinstance(s_.targets[0], ast.Name)) for s_ in body[:-1]):
            raise Undecided(f"`{name}` is not a sequence of scalar assignments followed by a return")
        n.run(body[:-1])       # scalar locals by forward substitution
        return n.ev(body[-1].value)
    try:
        a, b = formula(rm), formula(vm)
        ok = sp.simplify(a - b) == 0
        if not ok:
            # AUDIT: a difference that `simplify` does not reduce to zero is not yet a difference of the functions: the two formulas
            # are also evaluated at random positive values of the parameters (the parameters of f_eq are positive quantities);
            # they differ only if they differ there
            ne = _numerically_equal(a, b)
            if ne is True:
                ok = True
            elif ne is None:
                return None, f"the formulas of f_eq ({b} / {a}) agree at positive parameters and differ for other signs: not decided"
    except (Undecided, Exception) as e:
        return None, f"the formula of f_eq is not extractable ({e})"
    chk.ob("V4-body-equivalence", vm.func("f_eq"), f"{v}:f_eq", ok, "same formula as the reference (n0, Ti uninterpreted)" if ok else
           f"formula {b} differs from the reference {a}", file=v, func="f_eq")
    return ok, ""


def call_sites(chk):
    """I1: every library call of a kernel function fits the kernel's signature"""
    kernels = {}
    for k in U.KERNELS:
        for q, fn in chk.mod(k).functions().items():
            if "." not in q:
                kernels[q] = (k, fn)
    n = 0
    for rel in (U.SPLINES, U.INTERP, U.ADV, U.ADVK, U.POISSON, U.INITIALISER, U.CU, U.NU, U.INITF, U.PTOOLS):
        mod = chk.mod(rel)
        # names under which a kernel module as a whole is imported (`from ..initialisation import initialiser_funcs as init`)
        kmods = {k.split("/")[-1][:-3] for k in U.KERNELS}
        aliases = set()
        for st in mod.tree.body:
            if isinstance(st, ast.ImportFrom):
                aliases |= {a.asname or a.name for a in st.names if a.name in kmods}
            elif isinstance(st, ast.Import):
                aliases |= {a.asname for a in st.names if a.asname and a.name.split(".")[-1] in kmods}
        for c in ast.walk(mod.tree):
            if isinstance(c, ast.Call):
                name = c.func.id if isinstance(c.func, ast.Name) else (c.func.attr if isinstance(c.func, ast.Attribute) and
                                                                     isinstance(c.func.value, ast.Name) and c.func.value.id in aliases else None)
                direct = [name] if name in kernels and not _shadowed(c, name) and _imported(mod, name, c) else []
                for name in direct + sorted(kn for kn in _dispatched(chk, c) if kn in kernels and kn not in direct):
                    k, fn = kernels[name]
                    formals = [a.arg for a in fn.args.args]
                    nd = len(fn.args.defaults)
                    required = formals[:len(formals) - nd]
                    from ..core import qual
                    args, kws, problem = expand_call(c)
                    n += 1
                    con = f"{name}(...) in {rel.split('/')[-1]}:{qual(c)}"
                    sig = f"`{name}({', '.join(formals)})`"
                    # AUDIT (I1): true when the call is a call of THIS kernel (plain name imported from a kernel module and not re-bound in
                    # an enclosing function, attribute of a kernel module alias, or an entry of a dispatch table), its starred
                    # arguments were written out from literals (otherwise `problem` -> undecided) and the kernel has no variadic
                    # parameters: then Python's own binding rules give the TypeError quoted
                    bad = None
                    if fn.args.vararg or fn.args.kwarg or fn.args.kwonlyargs:
                        chk.ob("I1-call-fits-signature", c, con, None, f"{sig} has variadic / keyword-only parameters: binding not "
                               "compared", file=rel, func=qual(c), nontrivial=False)
                        continue
                    if isinstance(problem, tuple):
                        bad = f"keyword `{problem[1]}` is passed twice (explicitly and through the `**mapping`): TypeError at the call"
                    elif len(args) > len(formals):
                        bad = f"{len(args)} positional arguments for the {len(formals)} parameters of {sig}: TypeError at the call"
                    else:
                        unknown_kw = sorted(kk for kk in kws if kk not in formals)
                        twice = sorted(kk for kk in kws if kk in formals[:len(args)])
                        missing = [r for r in required if r not in formals[:len(args)] and r not in kws]
                        if unknown_kw:
                            bad = f"keyword(s) {unknown_kw} are not parameters of {sig}: TypeError at the call"
                        elif twice:
                            bad = f"parameter(s) {twice} of {sig} are passed both by position and by keyword: TypeError at the call"
                        elif missing and problem is None:
                            bad = f"required parameter(s) {missing} of {sig} are not passed: TypeError at the call"
                    if bad:
                        chk.ob("I1-call-fits-signature", c, con, False, "call does not fit the kernel signature: " + bad, file=rel,
                               func=qual(c), nontrivial=False)
                    elif problem is not None:
                        chk.ob("I1-call-fits-signature", c, con, None, f"the call passes arguments through a starred expression that could not "
                               f"be followed ({problem}): whether it fits {sig} is not decided", file=rel, func=qual(c), nontrivial=False)
                    else:
                        chk.ob("I1-call-fits-signature", c, con, True,
                               f"{len(args)} positional + {len(kws)} keyword arguments bind {len(formals)} parameters"
                               + (" (starred arguments written out from their literal)" if len(args) != len(c.args) or len(kws) != len(c.keywords)
                                  or any(k_.arg is None for k_ in c.keywords) else ""), file=rel, func=qual(c), nontrivial=False)
    if n < 60:
        raise AnalysisError(f"C19: only {n} kernel call sites found (floor 60)")
    chk.extra["kernel_call_sites"] = n


def _shadowed(call, name):
    """is `name` re-bound (nested def, parameter, assignment) in a function enclosing the call?"""
    p = parent(call)
    while p is not None:
        if isinstance(p, (ast.FunctionDef, ast.Lambda)):
            args = p.args
            if any(a.arg == name for a in args.args + args.kwonlyargs):
                return True
            if isinstance(p, ast.FunctionDef):
                rebound = getattr(p, "_c19_rebound", None)
                if rebound is None:
                    rebound = set()
                    for n in ast.walk(p):
                        if isinstance(n, ast.FunctionDef) and n is not p:
                            rebound.add(n.name)
                        elif isinstance(n, ast.Name) and isinstance(n.ctx, ast.Store):
                            rebound.add(n.id)          # assignment, loop / with / comprehension target, walrus
                        elif isinstance(n, (ast.Import, ast.ImportFrom)):
                            # a local import: the kernel itself only when it comes from a kernel module
                            kmods = {k.split("/")[-1][:-3] for k in U.KERNELS}
                            if not (isinstance(n, ast.ImportFrom) and (n.module or "").split(".")[-1] in kmods):
                                rebound |= {(a.asname or a.name).split(".")[0] for a in n.names}
                    p._c19_rebound = rebound
                if name in rebound:
                    return True
        p = parent(p)
    return False


def _imported(mod, name, call):
    """is the plain name `name` at this call the kernel of that name?  AUDIT: only when the module imports it from a kernel module
    (`from .spline_eval_funcs import name`) or IS the kernel module that defines it; a function of the same name defined in a
    library module, or imported from somewhere else, is another function with its own signature"""
    if isinstance(call.func, ast.Attribute):
        return True       # init.<name>
    kmods = {k.split("/")[-1][:-3] for k in U.KERNELS}
    for st in mod.tree.body:
        if isinstance(st, ast.ImportFrom) and any((a.asname or a.name) == name for a in st.names):
            return (st.module or "").split(".")[-1] in kmods
        if isinstance(st, ast.FunctionDef) and st.name == name:
            return getattr(mod, "rel", None) in U.KERNELS
    return False


# ---------------------------------------------------------------------------------------------------------
# K1: indices that interpreted Python would wrap around
# ---------------------------------------------------------------------------------------------------------

def _additive_terms(e, sign=1, out=None):
    out = [] if out is None else out
    if isinstance(e, ast.BinOp) and isinstance(e.op, (ast.Add, ast.Sub)):
        _additive_terms(e.left, sign, out)
        _additive_terms(e.right, sign if isinstance(e.op, ast.Add) else -sign, out)
    elif isinstance(e, ast.UnaryOp) and isinstance(e.op, (ast.USub, ast.UAdd)):
        _additive_terms(e.operand, -sign if isinstance(e.op, ast.USub) else sign, out)
    else:
        out.append((sign, e))
    return out


def _from_end(e):
    """-k, -1 - j: an index that is negative by construction (Python counts from the end, compiled code does not)"""
    terms = _additive_terms(e)
    return all(sg < 0 for sg, _ in terms) and any(not isinstance(t, ast.Constant) for _, t in terms)


def _is_mod(e):
    return isinstance(e, ast.BinOp) and isinstance(e.op, ast.Mod)


def _names_outside_mod(e):
    if _is_mod(e):
        return set()
    if isinstance(e, ast.Name):
        return {e.id}
    out = set()
    for c in ast.iter_child_nodes(e):
        out |= _names_outside_mod(c)
    return out


def _int_arrays(fn, ref_fn):
    """parameters declared as integer arrays (own annotation, or the annotation of the reference kernel of the same name)"""
    out = set()
    own = {a.arg for a in fn.args.args}
    for f in (fn, ref_fn):
        if f is None:
            continue
        for a in f.args.args:
            if a.annotation is not None and a.arg in own and re.search(r"\bint\d*\s*\[", src(a.annotation)):
                out.add(a.arg)
    return out


def _data_ints(fn, int_arrays):
    """locals that hold an element of an integer array argument: data, of either sign and any size"""
    T = set()
    for _ in range(4):
        for st in ast.walk(fn):
            if isinstance(st, ast.For):
                it, tg = st.iter, st.target
                if isinstance(it, ast.Call) and src(it.func) == "enumerate" and it.args and isinstance(tg, ast.Tuple) and len(tg.elts) == 2:
                    it, tg = it.args[0], tg.elts[1]
                if isinstance(it, ast.Name) and it.id in int_arrays and isinstance(tg, ast.Name):
                    T.add(tg.id)
            elif isinstance(st, ast.Assign) and len(st.targets) == 1 and isinstance(st.targets[0], ast.Name):
                v = st.value
                if isinstance(v, ast.Subscript) and isinstance(v.value, ast.Name) and v.value.id in int_arrays:
                    T.add(st.targets[0].id)
                elif not _is_mod(v) and (_names_outside_mod(v) & T) and not any(isinstance(c, ast.Call) for c in ast.walk(v)):
                    T.add(st.targets[0].id)
    return T


def _test_side(test, x):
    """which end of the range a condition on the index x tests: 'neg' (x < 0), 'high' (x >= n), None"""
    if not (isinstance(test, ast.Compare) and len(test.ops) == 1):
        return None, None
    l, op, r = test.left, test.ops[0], test.comparators[0]
    if isinstance(r, ast.Name) and r.id == x and not (isinstance(l, ast.Name) and l.id == x):
        l, r = r, l
        op = {ast.Lt: ast.Gt, ast.LtE: ast.GtE, ast.Gt: ast.Lt, ast.GtE: ast.LtE}.get(type(op), type(op))()
    if not (isinstance(l, ast.Name) and l.id == x):
        return None, None
    if isinstance(op, (ast.Lt, ast.LtE)) and src(r) in ("0", "-1"):
        return "neg", r
    if isinstance(op, (ast.Gt, ast.GtE)):
        return "high", r
    return None, None


def _correction(st, x):
    """a statement that re-binds the index x from itself -> ('mod'|'low-if'|'low-while'|'up'|'unknown', text)"""
    if isinstance(st, ast.Assign) and isinstance(st.value, ast.IfExp):
        # x = x - n if x >= n else x   /   x = x if x < n else x - n
        e = st.value
        arms = [(e.body, e.test, True), (e.orelse, e.test, False)]
        keep = [a for a, _, _ in arms if isinstance(a, ast.Name) and a.id == x]
        move = [(a, pol) for a, _, pol in arms if isinstance(a, ast.BinOp) and isinstance(a.left, ast.Name) and a.left.id == x
                and isinstance(a.op, (ast.Add, ast.Sub)) and x not in {n.id for n in ast.walk(a.right) if isinstance(n, ast.Name)}]
        if len(keep) == 1 and len(move) == 1:
            a, pol = move[0]
            side, _ = _test_side(e.test, x)
            if not pol:       # the moving arm is taken when the test is false
                t = e.test
                if isinstance(t, ast.Compare) and len(t.ops) == 1 and isinstance(t.left, ast.Name) and t.left.id == x:
                    side = {ast.Lt: "high", ast.LtE: "high"}.get(type(t.ops[0])) if src(t.comparators[0]) not in ("0", "-1") else \
                        {ast.GtE: "neg", ast.Gt: "neg"}.get(type(t.ops[0]))
                else:
                    side = None
            if isinstance(a.op, ast.Add) and side == "neg":
                return "low-if", src(st)
            if isinstance(a.op, ast.Sub) and side == "high":
                return "up", src(st)
        return "unknown", src(st)
    if isinstance(st, ast.AugAssign):
        op, amount = st.op, st.value
    elif isinstance(st, ast.Assign) and isinstance(st.value, ast.BinOp):
        v = st.value
        op = v.op
        if isinstance(v.left, ast.Name) and v.left.id == x:
            amount = v.right
        elif isinstance(v.right, ast.Name) and v.right.id == x and isinstance(op, ast.Add):
            amount = v.left
        else:
            return "unknown", src(st)
    else:
        return "unknown", src(st)
    if x in {n.id for n in ast.walk(amount) if isinstance(n, ast.Name)}:
        return "unknown", src(st)
    if isinstance(op, ast.Mod):
        return "mod", src(st)
    p = parent(st)
    if not isinstance(p, (ast.If, ast.While)) or st not in p.body:
        return "unknown", src(st)
    side, _ = _test_side(p.test, x)
    head = ("while " if isinstance(p, ast.While) else "if ") + src(p.test) + ": " + src(st)
    if isinstance(op, ast.Add) and side == "neg":
        return ("low-while" if isinstance(p, ast.While) else "low-if"), head
    if isinstance(op, ast.Sub) and side == "high":
        return "up", head
    return "unknown", head


def _correction_amount(st, x):
    """the amount a statement `if x < 0: x += P` / `x = x + P if x < 0 else x` adds to x (source text), else None"""
    if isinstance(st, ast.AugAssign) and isinstance(st.op, ast.Add):
        return src(st.value)
    if isinstance(st, ast.Assign) and isinstance(st.value, ast.BinOp) and isinstance(st.value.op, ast.Add):
        v = st.value
        if isinstance(v.left, ast.Name) and v.left.id == x:
            return src(v.right)
        if isinstance(v.right, ast.Name) and v.right.id == x:
            return src(v.left)
    if isinstance(st, ast.Assign) and isinstance(st.value, ast.IfExp):
        for arm in (st.value.body, st.value.orelse):
            if isinstance(arm, ast.BinOp) and isinstance(arm.op, ast.Add) and isinstance(arm.left, ast.Name) and arm.left.id == x:
                return src(arm.right)
    return None


def _data_sources(fn, int_arrays):
    """{local: set of integer array parameters whose elements it is computed from} (see _data_ints)"""
    T: dict[str, set] = {}
    for _ in range(4):
        for st in ast.walk(fn):
            if isinstance(st, ast.For):
                it, tg = st.iter, st.target
                if isinstance(it, ast.Call) and src(it.func) == "enumerate" and it.args and isinstance(tg, ast.Tuple) and len(tg.elts) == 2:
                    it, tg = it.args[0], tg.elts[1]
                if isinstance(it, ast.Name) and it.id in int_arrays and isinstance(tg, ast.Name):
                    T.setdefault(tg.id, set()).add(it.id)
            elif isinstance(st, ast.Assign) and len(st.targets) == 1 and isinstance(st.targets[0], ast.Name):
                v = st.value
                if isinstance(v, ast.Subscript) and isinstance(v.value, ast.Name) and v.value.id in int_arrays:
                    T.setdefault(st.targets[0].id, set()).add(v.value.id)
                elif not _is_mod(v) and not any(isinstance(c, ast.Call) for c in ast.walk(v)):
                    for nm in _names_outside_mod(v) & set(T):
                        T.setdefault(st.targets[0].id, set()).update(T[nm])
    return T


def _nonnegative_by_construction(e, call, depth=0):
    """is the value (a number or every element of an array) non-negative whatever the data?  True, or None (not followed).
    Followed: reductions `% n`, abs, sums and products of such values, non-negative literals, elements / slices of such arrays,
    np.arange(n), locals of the calling function bound once, attributes of `self` whose every assignment in the class is such a value"""
    from ..core import enclosing_function
    if depth > 4:
        return None
    if isinstance(e, ast.Constant):
        return True if isinstance(e.value, (int, float)) and not isinstance(e.value, bool) and e.value >= 0 else None
    if isinstance(e, ast.BinOp):
        if isinstance(e.op, ast.Mod):
            return True          # Python / numpy remainder has the sign of the modulus, a size
        if isinstance(e.op, (ast.Add, ast.Mult)):
            return True if _nonnegative_by_construction(e.left, call, depth + 1) and _nonnegative_by_construction(e.right, call, depth + 1) else None
        return None
    if isinstance(e, ast.Call) and not e.keywords:
        name = src(e.func).split(".")[-1]
        if name in ("abs", "absolute", "fabs") and len(e.args) == 1:
            return True
        if name in ("mod", "remainder") and len(e.args) == 2:
            return True
        if name == "arange" and len(e.args) == 1:
            return True
        if name in ("array", "asarray", "ascontiguousarray", "int", "copy") and len(e.args) >= 1:
            return _nonnegative_by_construction(e.args[0], call, depth + 1)
        return None
    if isinstance(e, ast.Subscript):
        return _nonnegative_by_construction(e.value, call, depth + 1)
    if isinstance(e, ast.Name):
        b, _ = _single_local_binding(call, e.id)
        if b is not None and (b.lineno, b.col_offset) < (call.lineno, call.col_offset):
            return _nonnegative_by_construction(b.value, call, depth + 1)
        return None
    if isinstance(e, ast.Attribute) and isinstance(e.value, ast.Name) and e.value.id == "self":
        cls = parent(call)
        while cls is not None and not isinstance(cls, ast.ClassDef):
            cls = parent(cls)
        if cls is None:
            return None
        vals = []
        for n in ast.walk(cls):
            if isinstance(n, (ast.Assign, ast.AugAssign, ast.AnnAssign)):
                for t in (n.targets if isinstance(n, ast.Assign) else [n.target]):
                    b_ = t
                    while isinstance(b_, ast.Subscript):
                        b_ = b_.value
                    if isinstance(b_, ast.Attribute) and b_.attr == e.attr and isinstance(b_.value, ast.Name) and b_.value.id == "self":
                        if not isinstance(n, ast.Assign) or n.value is None:
                            return None
                        vals.append(n.value)
            elif isinstance(n, ast.Call) and any(isinstance(a, ast.Attribute) and a.attr == e.attr and isinstance(a.value, ast.Name)
                                                 and a.value.id == "self" for a in list(n.args) + [k.value for k in n.keywords]
                                                 if not (n is call)) and n is not call:
                # handed to another routine, which may fill it
                fname = src(n.func).split(".")[-1]
                if fname not in ("len", "enumerate", "zip", "print", "range"):
                    return None
        if not vals:
            return None
        return True if all(_nonnegative_by_construction(v_, n_ctx, depth + 1) for v_, n_ctx in ((v_, call) for v_ in vals)) else None
    return None


def _unreduced_table_difference(e, call, depth=0):
    """the value handed to the kernel is a difference from which stored table data (an element / slice of an array, an attribute of
    the object, a name bound by a loop over such a table) is subtracted, and nothing reduces it afterwards -> text, else None"""
    from ..core import enclosing_function
    if depth > 3 or e is None:
        return None
    if isinstance(e, ast.Name):
        b, _ = _single_local_binding(call, e.id)
        if b is not None and (b.lineno, b.col_offset) < (call.lineno, call.col_offset):
            return _unreduced_table_difference(b.value, call, depth + 1)
        return None
    if isinstance(e, ast.Subscript):
        return _unreduced_table_difference(e.value, call, depth + 1)
    if isinstance(e, ast.Call) and not e.keywords and src(e.func).split(".")[-1] in ("array", "asarray", "ascontiguousarray", "int", "copy") and e.args:
        return _unreduced_table_difference(e.args[0], call, depth + 1)
    if not (isinstance(e, ast.BinOp) and isinstance(e.op, (ast.Add, ast.Sub))):
        return None
    encl = enclosing_function(call)
    loop_data = set()
    for n in ast.walk(encl) if encl is not None else []:
        if isinstance(n, ast.For) and not (isinstance(n.iter, ast.Call) and src(n.iter.func) == "range") \
                and any(isinstance(x, ast.Attribute) for x in ast.walk(n.iter)):
            loop_data |= {t.id for t in ast.walk(n.target) if isinstance(t, ast.Name)}
            if isinstance(n.iter, ast.Call) and src(n.iter.func) == "enumerate" and isinstance(n.target, ast.Tuple) and n.target.elts \
                    and isinstance(n.target.elts[0], ast.Name):
                loop_data.discard(n.target.elts[0].id)
    for sg, t in _additive_terms(e):
        if sg < 0 and not _is_mod(t) and not any(isinstance(c, ast.Call) for c in ast.walk(t)):
            if any(isinstance(x, (ast.Subscript, ast.Attribute)) for x in ast.walk(t)) or \
                    any(isinstance(x, ast.Name) and x.id in loop_data for x in ast.walk(t)):
                return f"`{_short(e, 60)}` subtracts the table data `{_short(t, 40)}` and is not reduced (`% n`) before it is handed over"
    return None


def _callers_pass_nonnegative(chk, q, param, depth=0, seen=None):
    """every library call of kernel `q` passes a value that is non-negative by construction for `param`
    -> (True, text) / (None, reason); wrappers that hand their own parameter on are followed"""
    from ..core import enclosing_function
    cache = chk.__dict__.setdefault("_c19_nonneg", {})
    if (q, param) in cache:
        return cache[(q, param)]
    seen = seen or set()
    if (q, param) in seen or depth > 3:
        return None, "call chain too deep"
    seen.add((q, param))
    res = _callers_pass_nonnegative_1(chk, q, param, depth, seen)
    seen.discard((q, param))
    cache[(q, param)] = res
    return res


def _callers_pass_nonnegative_1(chk, q, param, depth, seen):
    from ..core import enclosing_function
    fn = None
    for k in U.KERNELS:
        if chk.mod(k).has(q):
            fn = chk.mod(k).func(q)
            break
    if fn is None:
        return None, f"`{q}` is not a kernel of the reference modules"
    formals = [a.arg for a in fn.args.args]
    if param not in formals:
        return None, f"`{param}` is not a parameter of the reference `{q}`"
    calls = library_calls(chk).get(q, [])
    if not calls:
        return None, f"no library call of `{q}` found"
    shown = []
    for rel, c, args, kws, problem in calls:
        if problem is not None:
            return None, f"the call at {rel.split('/')[-1]}:{c.lineno} passes arguments through a starred expression"
        k_ = formals.index(param)
        actual = args[k_] if k_ < len(args) else kws.get(param)
        if actual is None:
            return None, f"the call at {rel.split('/')[-1]}:{c.lineno} does not pass `{param}`"
        encl = enclosing_function(c)
        if isinstance(actual, ast.Name) and encl is not None and actual.id in {a.arg for a in encl.args.args} \
                and not any(isinstance(n, ast.Name) and n.id == actual.id and isinstance(n.ctx, ast.Store) for n in ast.walk(encl)):
            ok, why = _callers_pass_nonnegative(chk, encl.name, actual.id, depth + 1, seen)
            if ok is not True:
                return ok, why
            shown.append(why)
            continue
        diff = _unreduced_table_difference(actual, c)
        if diff is not None:
            # AUDIT: a difference of table data handed over without a reduction CAN be negative, but whether the subtracted data ever
            # exceed the minuend is a property of the data the library stores (an offset into a window, a global-to-local index ...),
            # which is not established here: not a violation, the sign of what the callers pass is simply not known
            return None, f"the call at {rel.split('/')[-1]}:{c.lineno} passes {diff} (whether the subtracted data can exceed the minuend is not known)"
        if _nonnegative_by_construction(actual, c) is not True:
            return None, (f"the call at {rel.split('/')[-1]}:{c.lineno} passes `{_short(actual, 60)}`, which is not recognisably non-negative "
                          "(no reduction `% n`, abs, ... on the way)")
        shown.append(f"`{_short(actual, 60)}` at {rel.split('/')[-1]}:{c.lineno}")
    return True, "; ".join(shown[:3])


def periodic_indices(chk, rel, q, fn, ref_fn):
    """-> number of violations recorded"""
    R = "K1-no-negative-index-wrap"
    nviol = 0
    int_arrays = _int_arrays(fn, ref_fn)
    data = _data_ints(fn, int_arrays)
    sources = _data_sources(fn, int_arrays)
    int_scalars = {a.arg for f_ in (fn, ref_fn) if f_ is not None for a in f_.args.args
                   if a.annotation is not None and _type_kind(src(a.annotation)) == ("int", 0)} & {a.arg for a in fn.args.args}

    def table_lookup(val):
        """the index is read from integer array arguments and only constants / counters are ADDED to it (no variable is subtracted,
        nothing counts from the end): its sign is the sign of what the callers pass -> (True/None, text), or 'no'"""
        terms = _additive_terms(val)
        if _from_end(val) or open_mods(val) or any(sg < 0 and not isinstance(t, ast.Constant) for sg, t in terms):
            return "no"
        arrays = set()
        for sg, t in terms:
            for n in ast.walk(t):
                if isinstance(n, ast.Name) and n.id in data:
                    arrays |= sources.get(n.id, set()) or {None}
                if isinstance(n, ast.Name) and n.id in int_arrays:
                    arrays.add(n.id)
        if not arrays or None in arrays:
            return "no"
        if any(isinstance(t, ast.Constant) and sg * t.value < 0 for sg, t in terms if isinstance(t, ast.Constant) and isinstance(t.value, (int, float))):
            return None, "a constant is subtracted from the table entry"
        texts, undecided = [], None
        for X in sorted(arrays):
            ok, why = _callers_pass_nonnegative(chk, q, X)
            if ok is False:
                return False, f"`{X}`: {why}"
            if ok is not True:
                undecided = undecided or f"`{X}`: {why}"
            texts.append(f"`{X}`: {why}")
        return (None, undecided) if undecided else (True, "; ".join(texts))

    def table_text(what, ok_t, why_t):
        if ok_t:
            return (f"{what} is an entry of an index table the callers hand in; every library call passes values that are non-negative by "
                    f"construction ({why_t}): nothing for compiled code to wrap")
        if ok_t is False:
            return (f"{what} is an entry of an index table the callers hand in and is used as an index as it is; {why_t}: the entries are "
                    "negative whenever the subtracted data exceed the minuend - interpreted Python then indexes from the end (silently, "
                    "the periodic neighbour), the compiled (pyccel/pythran) kernel does not wrap a negative index and reads/writes "
                    "before the start of the array")
        return (f"{what} is an entry of an index table the callers hand in and is used as an index as it is: whether a negative entry can "
                f"reach the compiled kernel depends on the callers, which could not be followed ({why_t})")
    stmts = sorted((st for st in ast.walk(fn) if isinstance(st, ast.stmt) and st is not fn), key=lambda s_: (s_.lineno, s_.col_offset))
    pos = {id(st): k for k, st in enumerate(stmts)}
    stores: dict[str, list] = {}
    for st in stmts:
        if isinstance(st, (ast.Assign, ast.AugAssign, ast.AnnAssign)):
            for t in (st.targets if isinstance(st, ast.Assign) else [st.target]):
                if isinstance(t, ast.Name):
                    stores.setdefault(t.id, []).append(st)
                elif isinstance(t, ast.Tuple):
                    for e in t.elts:
                        if isinstance(e, ast.Name):
                            stores.setdefault(e.id, []).append(None)
        elif isinstance(st, ast.For):
            for e in ast.walk(st.target):
                if isinstance(e, ast.Name):
                    stores.setdefault(e.id, []).append(None)

    # loop counters with a literal first value: for j in range(n) / range(a, ...) / enumerate(X)
    first_value = {}
    for st in stmts:
        if isinstance(st, ast.For) and isinstance(st.iter, ast.Call) and isinstance(st.iter.func, ast.Name):
            nm, start = None, None
            if st.iter.func.id == "range" and isinstance(st.target, ast.Name) and len(st.iter.args) in (1, 2) or \
                    (st.iter.func.id == "range" and isinstance(st.target, ast.Name) and len(st.iter.args) == 3
                     and isinstance(st.iter.args[2], ast.Constant) and isinstance(st.iter.args[2].value, int) and st.iter.args[2].value > 0):
                nm = st.target.id
                a0 = st.iter.args[0] if len(st.iter.args) >= 2 else ast.Constant(0)
                start = a0.value if isinstance(a0, ast.Constant) and isinstance(a0.value, int) else None
            elif st.iter.func.id == "enumerate" and isinstance(st.target, ast.Tuple) and st.target.elts and isinstance(st.target.elts[0], ast.Name) \
                    and len(st.iter.args) == 1:
                nm, start = st.target.elts[0].id, 0
            if nm is not None:
                first_value[nm] = start if nm not in first_value or first_value[nm] == start else None

    def first_iteration_negative(e):
        """`j - c` with j a loop counter whose first value is smaller than the literal c"""
        terms = _additive_terms(e)
        pos_ = [t for sg, t in terms if sg > 0 and not isinstance(t, ast.Constant)]
        neg_ = [t for sg, t in terms if sg < 0 and not isinstance(t, ast.Constant)]
        if len(pos_) != 1 or neg_ or not isinstance(pos_[0], ast.Name) or first_value.get(pos_[0].id) is None:
            return None
        if len(stores.get(pos_[0].id, [])) != sum(1 for st in stmts if isinstance(st, ast.For) and pos_[0].id in {n.id for n in ast.walk(st.target) if isinstance(n, ast.Name)}):
            return None       # the counter is also assigned elsewhere
        const = sum(sg * t.value for sg, t in terms if isinstance(t, ast.Constant) and isinstance(t.value, int) and not isinstance(t.value, bool))
        if any(isinstance(t, ast.Constant) and not isinstance(t.value, int) for _, t in terms):
            return None
        v0 = first_value[pos_[0].id] + const
        return (pos_[0].id, first_value[pos_[0].id], v0) if v0 < 0 else None

    def guarded_on(node, name):
        """is the node control dependent on an `if`/`while` test (or conditional expression) that mentions `name`?  Then the first
        iterations may be excluded by that test: no claim about them"""
        from ..core import guards_of
        return any(kind_ != "for" and name in {n.id for n in ast.walk(t) if isinstance(n, ast.Name)} for t, _, kind_ in guards_of(node))

    def resolve(e, depth=0):
        """single-assignment scalar locals written back (two levels): `d = i - s; idx = d` is `idx = i - s`"""
        if depth > 2:
            return e

        class Sub(ast.NodeTransformer):
            def visit_Name(self, n):
                ds = stores.get(n.id, [])
                if isinstance(n.ctx, ast.Load) and len(ds) == 1 and isinstance(ds[0], ast.Assign) and len(ds[0].targets) == 1 \
                        and isinstance(ds[0].value, (ast.BinOp, ast.UnaryOp, ast.Name)) and n.id not in data:
                    return resolve(ast.parse(src(ds[0].value), mode="eval").body, depth + 1)
                return n
        return Sub().visit(ast.parse(src(e), mode="eval").body)

    def open_mods(e):
        """subtracted `Y % n` terms that are not made up for by an added `n` in the same sum (i + n - s % n is never negative for
        i >= 0)"""
        terms = _additive_terms(e)
        plus = [src(t) for sg, t in terms if sg > 0]
        out = []
        for sg, t in terms:
            if sg < 0 and _is_mod(t):
                if src(t.right) in plus:
                    plus.remove(src(t.right))
                else:
                    out.append(t)
        return out

    def may_be_negative(e):
        """recognisable reasons why an index value can be negative: a variable is subtracted, or it contains array data"""
        if _is_mod(e):
            return None
        terms = _additive_terms(e)
        if any(sg < 0 and _is_mod(t) for sg, t in terms) and not open_mods(e) and not (_names_outside_mod(e) & data) \
                and not any(sg < 0 and not _is_mod(t) and not isinstance(t, ast.Constant) for sg, t in terms):
            return None           # every subtracted remainder is made up for by its modulus
        if len(terms) == 1 and not (terms[0][0] < 0) and not (_names_outside_mod(e) & data):
            return None
        if all(sg < 0 for sg, _ in terms) and any(not isinstance(t, ast.Constant) for _, t in terms):
            return f"`{src(e)}` counts from the end of the array (negative for every positive `{src([t for _, t in terms if not isinstance(t, ast.Constant)][0])}`)"
        for t in open_mods(e):
            return f"`{src(t)}` can exceed the rest of `{src(e)}`"
        for sg, t in terms:
            if _names_outside_mod(t) & data:
                nm = sorted(_names_outside_mod(t) & data)[0]
                return f"`{nm}` is an element of the integer array argument `{sorted(int_arrays)[0] if int_arrays else '?'}` (any sign, any size)"
        for sg, t in terms:
            if sg < 0 and not isinstance(t, ast.Constant):
                return f"the variable `{src(t)}` is subtracted"
        return None

    own_params = {a.arg for a in fn.args.args}

    # AUDIT (every VIOLATED verdict of K1 goes through `claim`).  "This index can be negative when it reaches the subscript" is
    # true of the code only if (1) the index expression consists of what the analysis models - sums and differences of names,
    # literals, array elements and `%` terms: a call (max, abs, int, a helper), a conditional expression or a comparison in it may
    # be the very thing that keeps it in range; (2) some use of the index is reached unconditionally as far as the index is
    # concerned: a use that stands under an `if` / `while` / conditional expression whose test mentions the index or one of the
    # names it is computed from, or that follows an early exit (`if <such a test>: continue / break / return / raise`), may be
    # reached by non-negative values only.  When one of the two cannot be established the verdict is UNDECIDED.
    array_names = {n.value.id for n in ast.walk(fn) if isinstance(n, ast.Subscript) and isinstance(n.value, ast.Name)}

    def stmt_of(node):
        while node is not None and not isinstance(node, ast.stmt):
            node = parent(node)
        return node

    def names_in(e):
        return {n.id for n in ast.walk(e) if isinstance(n, ast.Name)} if e is not None else set()

    def conditioned(node, names):
        from ..core import guards_of
        if any(kind_ != "for" and names & names_in(t) for t, _, kind_ in guards_of(node)):
            return "it stands under a condition on " + ", ".join(sorted(names & set().union(*[names_in(t) for t, _, k_ in guards_of(node) if k_ != "for"])))
        st0 = stmt_of(node)
        if st0 is None or id(st0) not in pos:
            return None
        for st in stmts:
            if isinstance(st, ast.If) and pos[id(st)] < pos[id(st0)] and names & names_in(st.test) and not any(x is st0 for x in ast.walk(st)) \
                    and any(isinstance(x, (ast.Continue, ast.Break, ast.Return, ast.Raise)) for x in ast.walk(st)):
                return f"it follows the early exit `if {src(st.test)[:50]}: ...`"
        return None

    def claim(node, construct, msg, names, uses, val=None):
        """record VIOLATED (-> 1) when the assumptions of the diagnosis hold, UNDECIDED (-> 0) otherwise"""
        unmodelled = None
        for e in ([val] if val is not None else []):
            for n in ast.walk(e):
                if isinstance(n, ast.Call) and not (isinstance(n.func, ast.Name) and n.func.id == "len"):
                    unmodelled = f"the call `{src(n)[:40]}`"
                elif isinstance(n, (ast.IfExp, ast.Compare, ast.BoolOp, ast.Lambda, ast.NamedExpr, ast.Starred)):
                    unmodelled = f"`{src(n)[:40]}`"
                elif isinstance(n, ast.BinOp) and not isinstance(n.op, (ast.Add, ast.Sub, ast.Mult, ast.Mod, ast.FloorDiv)):
                    unmodelled = f"`{src(n)[:40]}`"
        names = (set(names) | names_in(val)) - array_names
        why_not = None
        if unmodelled:
            why_not = f"the index goes through {unmodelled}, which the index analysis does not model (it may be what keeps the index in range)"
        elif uses:
            conds = [conditioned(u, names) for u in uses]
            if all(c is not None for c in conds):
                why_not = f"every use of the index is conditional ({conds[0]}): whether a negative value reaches a subscript is not decided"
        if why_not is None:
            chk.ob(R, node, construct, False, msg, file=rel, func=q)
            return 1
        chk.ob(R, node, construct, None, msg.split(": interpreted Python")[0][:400] + " - but " + why_not, file=rel, func=q)
        return 0

    uses_of = {}
    for sub_ in ast.walk(fn):
        if isinstance(sub_, ast.Subscript) and not (isinstance(sub_.value, ast.Attribute) and sub_.value.attr == "shape"):
            for it_ in (sub_.slice.elts if isinstance(sub_.slice, ast.Tuple) else [sub_.slice]):
                if isinstance(it_, ast.Name):
                    uses_of.setdefault(it_.id, []).append(sub_)
                elif not isinstance(it_, (ast.Slice, ast.Constant)):
                    uses_of.setdefault(src(it_), []).append(sub_)

    def local_table(val):
        """the index is an element of a LOCAL array filled in this kernel: what was stored decides its sign -> (store statement, text)
        for a stored value that can be negative (unreduced difference of array data, subtracted remainder, counted from the end)"""
        if not (isinstance(val, ast.Subscript) and isinstance(val.value, ast.Name) and val.value.id not in own_params):
            return None
        L = val.value.id
        for st in stmts:
            if isinstance(st, (ast.Assign, ast.AugAssign)):
                tg = st.targets if isinstance(st, ast.Assign) else [st.target]
                if any(isinstance(t, ast.Subscript) and isinstance(t.value, ast.Name) and t.value.id == L for t in tg):
                    if isinstance(st, ast.AugAssign):
                        if isinstance(st.op, ast.Mod):
                            return None          # reduced in place afterwards
                        continue
                    V = resolve(st.value)
                    if _is_mod(V):
                        continue
                    neg = [t for sg, t in _additive_terms(V) if sg < 0 and not isinstance(t, ast.Constant)]
                    hit = [t for t in neg if (_names_outside_mod(t) & (data | int_arrays)) or _is_mod(t) and t in open_mods(V)]
                    if hit or (_from_end(V) and (_names_outside_mod(V) & (data | int_arrays))):
                        return st, (f"the local index table `{L}` is filled with `{src(st.value)}`, from which "
                                    f"`{src(hit[0]) if hit else src(V)}` (data of an integer array argument, any sign, any size) is subtracted "
                                    "without a reduction")
        return None
    seen = set()
    for sub in ast.walk(fn):
        if not isinstance(sub, ast.Subscript) or isinstance(sub.value, ast.Attribute) and sub.value.attr == "shape":
            continue
        items = sub.slice.elts if isinstance(sub.slice, ast.Tuple) else [sub.slice]
        for it in items:
            if isinstance(it, ast.Slice) or isinstance(it, ast.Constant):
                continue
            if isinstance(it, ast.Name):
                x = it.id
                if x in seen:
                    continue
                seen.add(x)
                defs = [d for d in stores.get(x, []) if d is not None]
                if not stores.get(x) and x in int_scalars:
                    # an integer argument used as an index as it is: the index is computed by the callers
                    ok_p, why_p = _callers_pass_nonnegative(chk, q, x)
                    if ok_p is False:
                        nviol += claim(sub, f"{src(sub)[:60]} with the argument {x} as index",
                               f"the integer argument `{x}` is used as an index as it is and {why_p}: the value is negative whenever the "
                               "subtracted data exceed the minuend - interpreted Python then indexes from the end (silently, the periodic "
                               "neighbour), the compiled (pyccel/pythran) kernel does not wrap a negative index and reads/writes before the "
                               "start of the array",
                                       names={x}, uses=uses_of.get(x, []), val=None)
                    continue
                if len(defs) != len(stores.get(x, [])):
                    continue          # loop counters and unpacked values: not an index computed here
                base = [d for d in defs if isinstance(d, ast.Assign) and x not in {n.id for n in ast.walk(d.value) if isinstance(n, ast.Name)}]
                corr = [d for d in defs if d not in base]
                for k, d in enumerate(sorted(base, key=lambda d_: pos[id(d_)])):
                    nxt = min([pos[id(o)] for o in base if pos[id(o)] > pos[id(d)]], default=10 ** 9)
                    mine = [_correction(c, x) for c in corr if pos[id(d)] < pos[id(c)] < nxt]
                    val = resolve(d.value)
                    lt = local_table(val) if not mine else None
                    if lt is not None:
                        nviol += claim(lt[0], f"index {x} = {src(d.value)}: {src(lt[0])[:60]}",
                               f"`{x} = {src(d.value)}` is used as an index as it is and {lt[1]}: a negative entry is wrapped around by "
                               "interpreted Python, the compiled kernel reads/writes out of bounds",
                                       names={x}, uses=uses_of.get(x, []), val=None)
                        continue
                    fi = first_iteration_negative(val)
                    if fi is not None and not mine and (guarded_on(d, fi[0]) or guarded_on(sub, fi[0])):
                        chk.ob(R, d, f"index {x} = {src(d.value)}", None, f"`{x} = {src(d.value)}` would be {fi[2]} in the first iteration of "
                               f"`{fi[0]}`, but it is computed / used under a condition on `{fi[0]}`: whether the negative value reaches the "
                               "subscript is not decided", file=rel, func=q)
                        continue
                    if fi is not None and not mine:
                        nviol += claim(d, f"index {x} = {src(d.value)}",
                               f"the loop counter `{fi[0]}` starts at {fi[1]}, so `{x} = {src(d.value)}` is {fi[2]} in the first iteration and "
                               f"nothing brings it back into range: interpreted Python indexes `{src(sub)[:40]}` from the end, the compiled "
                               "(pyccel/pythran) kernel does not wrap a negative index and accesses memory before the array",
                                       names={x, fi[0]}, uses=uses_of.get(x, []), val=val)
                        continue
                    why = may_be_negative(val)
                    kinds = {k_ for k_, _ in mine}
                    shown = f"index {x} = {src(d.value)}" + "".join("; " + t for _, t in mine[:2])
                    if why is None:
                        if _is_mod(val) and any(sg < 0 for sg, _ in _additive_terms(val.left)):
                            chk.ob(R, d, f"index {x} = {src(d.value)}", True, "the difference is reduced with `%` before it is used as an "
                                   "index: never negative, in interpreted and in compiled code alike", file=rel, func=q)
                        continue
                    wrapped_mod = bool(open_mods(val))
                    neg_vars = [t for sg, t in _additive_terms(val) if sg < 0 and not isinstance(t, ast.Constant)]
                    counters_only = bool(neg_vars) and all(isinstance(t, ast.Name) and t.id in first_value and t.id not in data for t in neg_vars) \
                        and not (_names_outside_mod(val) & data)
                    periods = {a_ for a_ in (_correction_amount(c, x) for c in corr if pos[id(d)] < pos[id(c)] < nxt) if a_}
                    one_remainder = len(neg_vars) == 1 and _is_mod(neg_vars[0]) and src(neg_vars[0].right) in periods \
                        and not (_names_outside_mod(val) & data)
                    if "mod" in kinds or "low-while" in kinds:
                        chk.ob(R, d, shown, True, "the index is brought into range by `%` / by a loop that adds the period as long as it is "
                               "negative", file=rel, func=q)
                    elif "unknown" in kinds:
                        chk.ob(R, d, shown, None, f"the index can be negative ({why}) and is re-bound by `{[t for k_, t in mine if k_ == 'unknown'][0][:80]}`, "
                               "which is none of the recognised range corrections: cannot decide whether a negative value reaches the subscript",
                               file=rel, func=q)
                    elif "low-if" in kinds and one_remainder:
                        chk.ob(R, d, shown, True, f"the only subtracted term `{src(neg_vars[0])}` is smaller than the period "
                               f"`{src(neg_vars[0].right)}`, which is added back when the index is negative: one correction is enough",
                               file=rel, func=q)
                    elif counters_only and ("low-if" in kinds or "up" in kinds):
                        chk.ob(R, d, shown, None, f"`{x} = {src(d.value)}` subtracts the loop counter(s) {[src(t) for t in neg_vars]}, whose "
                               "range bounds the shift: whether the single range correction that follows is enough is not decided",
                               file=rel, func=q)
                    elif wrapped_mod:
                        nviol += claim(sub, f"{src(sub)[:60]} with index {src(d.value)}",
                               f"the index `{src(d.value)}` can be negative ({why}): interpreted Python wraps it around, the compiled "
                               "(pyccel/pythran) kernel reads/writes out of bounds",
                                       names={x}, uses=uses_of.get(x, []), val=val)
                    elif "low-if" in kinds:
                        variable = [t for sg, t in _additive_terms(val) if sg < 0 and not isinstance(t, ast.Constant)] or \
                            [t for sg, t in _additive_terms(val) if _names_outside_mod(t) & data]
                        if not variable:
                            continue      # a constant offset: one period is enough
                        b0 = [t for k_, t in mine if k_ == "low-if"][0]
                        nviol += claim(d, f"index {x} = {src(d.value)}; {b0}",
                               f"`{x} = {src(d.value)}` is brought back into range by adding the period once: when the shift exceeds one period "
                               f"`{x}` stays negative - interpreted Python then indexes from the end (silently, and here even correctly), the "
                               "compiled kernel reads/writes before the start of the array",
                                       names={x}, uses=uses_of.get(x, []), val=val)
                    elif "up" in kinds:
                        up = [t for k_, t in mine if k_ == "up"][0]
                        nviol += claim(d, f"index {x} = {src(d.value)}; {up}",
                               f"`{x} = {src(d.value)}` is corrected only at the upper end (`{up}`); it can be negative ({why}) and "
                               f"nothing adds the period back: interpreted Python silently indexes `{src(sub)[:40]}` from the end (the "
                               "plane the modulo would have given), the compiled (pyccel/pythran) kernel does not wrap a negative index and "
                               "reads/writes before the start of the array, leaving the intended element untouched",
                                       names={x}, uses=uses_of.get(x, []), val=val)
                    elif (_names_outside_mod(val) & data) and table_lookup(val) != "no":
                        ok_t, why_t = table_lookup(val)
                        nviol += ok_t is False
                        chk.ob(R, d, f"index {x} = {src(d.value)} (read from an integer array argument)", ok_t,
                               table_text(f"`{x} = {src(d.value)}`", ok_t, why_t), file=rel, func=q)
                    elif (_names_outside_mod(val) & data) or _from_end(val):
                        nviol += claim(d, f"index {x} = {src(d.value)} (never reduced)",
                               f"`{x} = {src(d.value)}` is used as an index as it is; {why}, so it can be negative: interpreted Python "
                               "wraps it around, the compiled kernel reads/writes out of bounds",
                                       names={x}, uses=uses_of.get(x, []), val=val)
                    # otherwise: a structural offset such as span - degree + j, kept non-negative by the callers' contract
            else:
                key = src(it)
                if key in seen:
                    continue
                seen.add(key)
                val = resolve(it)
                lt = local_table(val)
                if lt is not None:
                    nviol += claim(lt[0], f"{src(sub)[:60]} with index {src(it)}: {src(lt[0])[:60]}",
                           f"the index `{src(it)}` is used as it is and {lt[1]}: a negative entry is wrapped around by interpreted "
                           "Python, the compiled kernel reads/writes out of bounds",
                                   names=names_in(it), uses=uses_of.get(src(it), [sub]), val=None)
                    continue
                fi = first_iteration_negative(val)
                if fi is not None and guarded_on(sub, fi[0]):
                    chk.ob(R, sub, f"{src(sub)[:60]} with index {src(it)}", None, f"`{src(it)}` would be {fi[2]} in the first iteration of "
                           f"`{fi[0]}`, but the access stands under a condition on `{fi[0]}`: whether the negative value reaches the "
                           "subscript is not decided", file=rel, func=q)
                    continue
                if fi is not None:
                    nviol += claim(sub, f"{src(sub)[:60]} with index {src(it)}",
                           f"the loop counter `{fi[0]}` starts at {fi[1]}, so `{src(it)}` is {fi[2]} in the first iteration: interpreted Python "
                           f"reads/writes `{src(sub.value)}` from the end (the periodic neighbour), the compiled (pyccel/pythran) kernel does "
                           "not wrap a negative index and accesses memory before the array",
                                   names=names_in(it), uses=uses_of.get(src(it), [sub]), val=val)
                    continue
                why = may_be_negative(val)
                if why is None:
                    if _is_mod(val) and any(sg < 0 for sg, _ in _additive_terms(val.left)):
                        chk.ob(R, sub, f"{src(sub)[:60]}", True, "the difference is reduced with `%` inside the subscript", file=rel, func=q)
                    continue
                if (_names_outside_mod(val) & data) and table_lookup(val) != "no":
                    ok_t, why_t = table_lookup(val)
                    nviol += ok_t is False
                    chk.ob(R, sub, f"{src(sub)[:60]} with index {src(it)} (read from an integer array argument)", ok_t,
                           table_text(f"`{src(it)}`", ok_t, why_t), file=rel, func=q)
                elif open_mods(val) or (_names_outside_mod(val) & data) or _from_end(val):
                    nviol += claim(sub, f"{src(sub)[:60]} with index {src(it)}",
                           f"the index `{src(it)}` can be negative ({why}): interpreted Python wraps it around, the compiled "
                           "(pyccel/pythran) kernel reads/writes out of bounds",
                                   names=names_in(it), uses=uses_of.get(src(it), [sub]), val=val)
    return nviol


_K2_PURE_CALLS = {"range", "len", "int", "float", "abs", "min", "max", "sqrt", "exp", "log", "sin", "cos", "tan", "tanh", "floor", "ceil",
                  "fabs", "pow", "mod", "sign", "bool", "round", "enumerate", "zip"}


def _free_scalar_params(fn, kind):
    """parameters of fn annotated as a scalar of `kind` ('float' / 'int') that the function never binds again"""
    stored = {n.id for n in ast.walk(fn) if isinstance(n, ast.Name) and isinstance(n.ctx, (ast.Store, ast.Del))}
    stored |= {nm for n in ast.walk(fn) if isinstance(n, (ast.Global, ast.Nonlocal)) for nm in n.names}
    out = set()
    for a in list(fn.args.posonlyargs) + list(fn.args.args) + list(fn.args.kwonlyargs):
        if a.annotation is None or a.arg in stored:
            continue
        t = a.annotation.value if isinstance(a.annotation, ast.Constant) and isinstance(a.annotation.value, str) else src(a.annotation)
        t = t.replace("Final", "").strip(" []'\"")
        if "[" in t or "(" in t:
            continue
        if t.strip() in ((kind, kind + "64", "f8", "real") if kind == "float" else (kind, kind + "64", kind + "32", "i4", "i8")):
            out.add(a.arg)
    return out


def _own_breaks(lp):
    """the `break`s that leave THIS loop -> [(break, [(test, polarity)])] with the tests of the `if`s between the loop body and the break
    (polarity False: the break sits in the else branch); None when a break is reached through anything other than `if`s"""
    out = []

    def walk(block, guards):
        for st in block:
            if isinstance(st, ast.Break):
                out.append((st, list(guards)))
            elif isinstance(st, ast.If):
                if walk(st.body, guards + [(st.test, True)]) is None or walk(st.orelse, guards + [(st.test, False)]) is None:
                    return None
            elif isinstance(st, (ast.For, ast.While)):
                if any(isinstance(b_, ast.Break) for s_ in st.orelse for b_ in ast.walk(s_)):
                    return None           # a break in the else clause of an inner loop leaves the outer one: not followed
            elif isinstance(st, (ast.FunctionDef, ast.AsyncFunctionDef, ast.ClassDef)):
                continue
            elif any(isinstance(b_, ast.Break) for b_ in ast.walk(st)):
                return None               # try / with / match around a break: not followed
        return True
    return out if walk(lp.body, []) is True else None


def _threshold_tests(test, polarity, free):
    """conjuncts of (test if polarity else not test) that compare a quantity with a bare free parameter p by an inequality
    -> [(p, node of the comparison, 'small' / 'large')]: the conjunct is TRUE when p is small / large enough"""
    if isinstance(test, ast.UnaryOp) and isinstance(test.op, ast.Not):
        return _threshold_tests(test.operand, not polarity, free)
    if isinstance(test, ast.BoolOp):
        if (isinstance(test.op, ast.And) and polarity) or (isinstance(test.op, ast.Or) and not polarity):
            return [t for v in test.values for t in _threshold_tests(v, polarity, free)]
        return []
    if not (isinstance(test, ast.Compare) and len(test.ops) == 1 and isinstance(test.ops[0], (ast.Lt, ast.LtE, ast.Gt, ast.GtE))):
        return []
    l, r = test.left, test.comparators[0]
    less = isinstance(test.ops[0], (ast.Lt, ast.LtE))           # l < r
    for p_side, other, p_is_left in ((l, r, True), (r, l, False)):
        if isinstance(p_side, ast.Name) and p_side.id in free and not any(isinstance(n, ast.Name) and n.id == p_side.id for n in ast.walk(other)):
            true_when_small = (less == p_is_left)               # p < E  or  E > p
            if not polarity:
                true_when_small = not true_when_small
            return [(p_side.id, test, "small" if true_when_small else "large")]
    return []


def _dependants(fn, seed, skip=()):
    """names whose value can depend on the name `seed` (data and control dependence, flow-insensitive over the whole function; a call that is
    not a known pure scalar function may write every array it is handed).  `skip`: statements left out"""
    def base(t):
        while isinstance(t, (ast.Subscript, ast.Attribute, ast.Starred)):
            t = t.value
        return t.id if isinstance(t, ast.Name) else None
    facts = []                 # (targets, reads)
    skip_ids = {id(s) for s in skip}

    def loads(e):
        return {n.id for n in ast.walk(e) if isinstance(n, ast.Name)}

    def visit(block, control):
        for st in block:
            if id(st) in skip_ids:
                continue
            if isinstance(st, (ast.FunctionDef, ast.AsyncFunctionDef, ast.ClassDef)):
                facts.append(({st.name}, loads(st) | control))
                continue
            tg, rd = set(), set()
            heads = []
            if isinstance(st, ast.Assign):
                heads = [st.value] + st.targets
                for t in st.targets:
                    for e in (t.elts if isinstance(t, (ast.Tuple, ast.List)) else [t]):
                        tg.add(base(e))
            elif isinstance(st, (ast.AugAssign, ast.AnnAssign)):
                heads = [st.target] + ([st.value] if st.value is not None else [])
                tg.add(base(st.target))
            elif isinstance(st, (ast.For, ast.AsyncFor)):
                heads = [st.iter, st.target]
                for e in ast.walk(st.target):
                    if isinstance(e, ast.Name):
                        tg.add(e.id)
            elif isinstance(st, (ast.If, ast.While)):
                heads = [st.test]
            elif isinstance(st, (ast.With, ast.AsyncWith)):
                heads = [i.context_expr for i in st.items] + [i.optional_vars for i in st.items if i.optional_vars is not None]
                for i in st.items:
                    if i.optional_vars is not None:
                        tg.add(base(i.optional_vars))
            elif isinstance(st, ast.Try):
                heads = []
            else:
                heads = [st]
            for h in heads:
                rd |= loads(h)
                for c in ast.walk(h):
                    if isinstance(c, ast.NamedExpr):
                        tg.add(c.target.id)
                    if isinstance(c, ast.Call):
                        fname = c.func.id if isinstance(c.func, ast.Name) else c.func.attr if isinstance(c.func, ast.Attribute) else ""
                        if isinstance(c.func, ast.Attribute):
                            tg.add(base(c.func))            # a method may change its receiver
                        if fname not in _K2_PURE_CALLS:
                            for a in list(c.args) + [k.value for k in c.keywords]:
                                tg.add(base(a))
            tg.discard(None)
            if tg:
                facts.append((tg, rd | control))
            inner = control | (loads(st.test) if isinstance(st, (ast.If, ast.While)) else loads(st.iter) if isinstance(st, (ast.For, ast.AsyncFor)) else set())
            for fld in ("body", "orelse", "finalbody"):
                if isinstance(getattr(st, fld, None), list):
                    visit(getattr(st, fld), inner)
            for h in getattr(st, "handlers", []) or []:
                visit(h.body, inner)
    visit(fn.body, set())
    dep = {seed}
    changed = True
    while changed:
        changed = False
        for tg, rd in facts:
            if rd & dep and not tg <= dep:
                dep |= tg
                changed = True
    return dep


def _exhaustion_reachable(fn, lp, counter):
    """Can the range loop `lp` (which contains `break`) run to its end after at least one sweep?
    -> (True, explanation) when established, (None, reason) otherwise.
    Established when (1) the stop of the range is a bare integer parameter the function never binds (the caller chooses the number of sweeps)
    or a positive literal; (2) every `break` of the loop sits under `if`s one of whose tests compares a quantity with a bare float parameter p
    by an inequality; (3) nothing the loop reads depends on p except those tests (so the sequence of compared quantities is the same for
    every p: a p beyond all of them makes every such test fail in every sweep); (4) no parameter is needed small by one test and large by
    another; (5) the loop has no else clause that leaves the function or binds the counter."""
    it = lp.iter
    if not (isinstance(it, ast.Call) and src(it.func) == "range" and not it.keywords and 1 <= len(it.args) <= 2):
        return None, "the loop is not over range(stop) / range(start, stop)"
    stop = it.args[-1]
    free_int = _free_scalar_params(fn, "int")
    if isinstance(stop, ast.Name) and stop.id in free_int:
        if len(it.args) == 2 and any(isinstance(n, ast.Name) and n.id == stop.id for n in ast.walk(it.args[0])):
            return None, "start and stop of the range both depend on the same parameter"
        sweeps = f"the number of sweeps `{stop.id}` is an argument of the kernel"
    elif len(it.args) == 1 and isinstance(stop, ast.Constant) and isinstance(stop.value, int) and not isinstance(stop.value, bool) and stop.value >= 1:
        sweeps = f"the loop makes {stop.value} sweep(s)"
    else:
        return None, f"whether `{src(it)[:40]}` makes at least one sweep is not decided (stop is neither an argument of the kernel nor a positive literal)"
    for s_ in lp.orelse:
        for n in ast.walk(s_):
            if isinstance(n, (ast.Return, ast.Raise)) or (isinstance(n, ast.Name) and n.id == counter and isinstance(n.ctx, ast.Store)):
                return None, "the else clause of the loop leaves the function or binds the counter"
    brk = _own_breaks(lp)
    if brk is None:
        return None, "a `break` is reached through something other than `if` statements"
    if not brk:
        return None, "no `break` of this loop found"
    free = _free_scalar_params(fn, "float")
    chosen = {}
    test_nodes = []
    for b_, guards in brk:
        cands = [t for g_, pol in guards for t in _threshold_tests(g_, pol, free)]
        if not cands:
            return None, (f"the `break` of line {b_.lineno} is not guarded by a comparison of a computed quantity with a float argument "
                          "of the kernel: whether it can fail in every sweep is not decided")
        p, node, sense = cands[0]
        if chosen.setdefault(p, sense) != sense:
            return None, f"`{p}` would have to be small for one `break` and large for another"
        test_nodes.append(node)
    # names killed at the entry of every sweep: `X = E` (E without X) at the top level of the body before any read of X
    killed = set()
    seen_reads = set()
    for st in lp.body:
        if isinstance(st, ast.Assign) and len(st.targets) == 1 and isinstance(st.targets[0], ast.Name) \
                and st.targets[0].id not in seen_reads and not any(isinstance(n, ast.Name) and n.id == st.targets[0].id for n in ast.walk(st.value)):
            seen_reads |= {n.id for n in ast.walk(st.value) if isinstance(n, ast.Name)}
            killed.add(st.targets[0].id)
            continue
        seen_reads |= {n.id for n in ast.walk(st) if isinstance(n, ast.Name) and isinstance(n.ctx, ast.Load)}
        seen_reads |= {n.target.id for n in ast.walk(st) if isinstance(n, ast.AugAssign) and isinstance(n.target, ast.Name)}
    # a binding of a killed name in front of the loop (same block: the function body) that nothing reads before the loop does not reach it
    skip = []
    if lp in fn.body:
        k = fn.body.index(lp)
        for j, st in enumerate(fn.body[:k]):
            if isinstance(st, ast.Assign) and len(st.targets) == 1 and isinstance(st.targets[0], ast.Name) and st.targets[0].id in killed:
                x = st.targets[0].id
                between = fn.body[j + 1:k] + [lp.iter]
                if not any(isinstance(n, ast.Name) and n.id == x and isinstance(n.ctx, ast.Load) for s2 in between for n in ast.walk(s2)):
                    skip.append(st)
    inside_reads = {}
    for n in ast.walk(lp):
        if isinstance(n, ast.Name):
            inside_reads.setdefault(n.id, []).append(n)
    in_tests = {id(n) for t in test_nodes for n in ast.walk(t)}
    for p in chosen:
        dep = _dependants(fn, p, skip=skip)
        for nm in dep:
            for n in inside_reads.get(nm, []):
                if nm == p and id(n) in in_tests:
                    continue
                if nm != p and isinstance(n.ctx, ast.Store) and nm in killed:
                    continue
                return None, (f"`{nm}` (line {n.lineno}) is used inside the loop and can depend on `{p}`: the quantities compared with `{p}` "
                              "are not the same for every value of it")
    ps = ", ".join(f"`{p}` {'large' if s == 'small' else 'small'} enough" for p, s in sorted(chosen.items()))
    return True, (f"{sweeps} and every `break` waits for a comparison with {', '.join('`' + p + '`' for p in sorted(chosen))}, on which nothing "
                  f"else in the loop depends: with {ps} (and the compared quantities being numbers) no `break` is taken and the loop runs to its end")


def index_wrap(chk):
    """K1: compiled code does not wrap negative indices; K2: loop counters after their loop"""
    files = list(U.KERNELS) + [v for vs in U.VARIANTS.values() for v in vs]
    n = 0
    n2 = [0]
    reference = {}
    for k in U.KERNELS:
        for q, f in chk.mod(k).functions().items():
            reference.setdefault(q, f)
    for rel in files:
        mod = chk.mod(rel)
        for q, fn in mod.functions().items():
            try:
                n += periodic_indices(chk, rel, q, fn, reference.get(q))
            except Exception as e:          # a defect of the index analysis decides nothing about the kernel
                chk.ob("K1-no-negative-index-wrap", fn, f"{rel}:{q}", None, f"index analysis failed ({type(e).__name__}: {e})", file=rel, func=q)
            # K2: value of a loop variable after its loop: Python keeps the last value taken, Fortran/C the first value not taken
            for lp in ast.walk(fn):
                if not isinstance(lp, ast.For):
                    continue
                has_break = any(isinstance(b_, ast.Break) for b_ in ast.walk(lp))
                tnames = {t.id for t in ast.walk(lp.target) if isinstance(t, ast.Name)}
                if isinstance(lp.iter, ast.Call) and src(lp.iter.func) == "enumerate" and isinstance(lp.target, ast.Tuple) \
                        and isinstance(lp.target.elts[0], ast.Name):
                    counters = {lp.target.elts[0].id}
                elif isinstance(lp.iter, ast.Call) and src(lp.iter.func) == "range":
                    counters = tnames
                else:
                    counters = set()
                inside = {id(x_) for x_ in ast.walk(lp)}
                for nm in counters:
                    later = [x_ for x_ in ast.walk(fn) if isinstance(x_, ast.Name) and x_.id == nm and id(x_) not in inside
                             and (x_.lineno, x_.col_offset) > (lp.end_lineno, 0)]
                    stores = [x_ for x_ in later if isinstance(x_.ctx, ast.Store)]
                    first_store = min(((x_.lineno, x_.col_offset) for x_ in stores), default=(10 ** 9, 0))
                    for x_ in later:
                        if isinstance(x_.ctx, ast.Load) and (x_.lineno < first_store[0] or
                                                             (x_.lineno == first_store[0] and isinstance(parent(x_), ast.AugAssign) is False and
                                                              x_.col_offset > first_store[1])):
                            st_ = x_
                            while not isinstance(st_, ast.stmt):
                                st_ = parent(st_)
                            if has_break:
                                # left through `break` the counter has the same value in both; run to its end it has not
                                try:
                                    reach, how = _exhaustion_reachable(fn, lp, nm)
                                except Exception as e:
                                    reach, how = None, f"analysis of the breaks failed ({type(e).__name__}: {e})"
                                if reach is True and rel in U.KERNELS:
                                    # AUDIT (K2, loop with break): true when the loop can run to its end after at least one sweep
                                    # (ASSUMPTION checked by `_exhaustion_reachable`: stop chosen by the caller or a positive literal; every
                                    # break waits for an inequality against a float argument on which nothing else in the loop depends) and
                                    # the name is not bound again before this read; pyccel's do-loop then leaves the first value not taken.
                                    # Only for the pyccel sources: numba / pythran compile Python's own loop semantics (copies: undecided below)
                                    n2[0] += 1
                                    chk.ob("K2-loop-variable-after-loop", st_,
                                           f"`{nm}` read in `{src(st_)[:60]}` after `for {src(lp.target)} in {src(lp.iter)[:40]}` (loop with break)", False,
                                           f"the loop can run to its end without `break`: {how}.  Python then leaves `{nm}` at the last value it "
                                           f"took (stop - 1), the do-loop generated by pyccel at the first value it did not take (stop): "
                                           f"`{src(st_)[:60]}` gives a result one higher in the compiled kernel than in the interpreted one "
                                           "(when the loop is left through `break` the two agree)", file=rel, func=q)
                                    break
                                extra_ = ("" if reach is not True else "; this file is a numba / pythran copy, whose compilers are not known here to "
                                          "change the final value of a counter (the pyccel source is judged on its own)")
                                if reach is None:
                                    extra_ = f" ({how})"
                                chk.ob("K2-loop-variable-after-loop", st_,
                                       f"`{nm}` read in `{src(st_)[:60]}` after `for {src(lp.target)} in {src(lp.iter)[:40]}` (loop with break)", None,
                                       f"the loop can be left through `break` (then `{nm}` has the same value in interpreted and compiled code) "
                                       f"or run to its end (then Python leaves `{nm}` at the last value it took, the compiled Fortran/C loop at "
                                       "the first value it did not take): whether the loop always ends through `break` is not decided" + extra_,
                                       file=rel, func=q)
                                break
                            # AUDIT (K2): true when the loop is a range / enumerate loop without `break`, the name is not bound again
                            # between the end of the loop and this read (positions in the text; a read on a path that does not pass
                            # through the loop would be a use before assignment in Python anyway), and the loop runs to its end: Python
                            # keeps the last value taken, the generated do-loop the first value not taken
                            n2[0] += 1
                            chk.ob("K2-loop-variable-after-loop", st_, f"`{nm}` read in `{src(st_)[:60]}` after `for {src(lp.target)} in {src(lp.iter)[:40]}`", False,
                                   f"after the loop Python leaves `{nm}` at the last value it took, the compiled Fortran/C loop at the first "
                                   f"value it did not take: `{src(st_)[:60]}` addresses a different element in the compiled kernel (one past the "
                                   "intended one)", file=rel, func=q)
                            break
    # K3: an array argument re-bound as a whole.  Interpreted Python binds the local name to a NEW array and leaves the caller's array as it
    # was; the compiled kernel has no new array to bind - the assignment to the dummy argument is an array assignment in place, the
    # caller's data are overwritten.  (`X += E` / `X[:] = E` are in place in both; scalars are passed by value in both.)
    n3 = 0
    for rel in U.KERNELS:
        for q, fn in chk.mod(rel).functions().items():
            if "." in q:
                continue
            ranks = _array_ranks(fn)
            arrays = {a for a, r_ in ranks.items() if r_ > 0}
            for st in ast.walk(fn):
                tgs = st.targets if isinstance(st, ast.Assign) else [st.target] if isinstance(st, ast.AnnAssign) and st.value is not None else []
                for t in tgs:
                    for nm in ([t] if isinstance(t, ast.Name) else [e for e in t.elts if isinstance(e, ast.Name)] if isinstance(t, (ast.Tuple, ast.List)) else []):
                        if nm.id in arrays:
                            # AUDIT (K3): true when the name is a parameter annotated as an array of rank > 0 in readable form and the
                            # statement binds the bare name (not X[:] = ..., not X += ...): a rule about pyccel's code generation
                            # (assignment to a dummy array argument is in place), stated in `trusted`
                            n3 += 1
                            final = any(a.arg == nm.id and a.annotation is not None and "Final" in src(a.annotation) for a in fn.args.args)
                            chk.ob("K3-array-argument-rebound", st, f"{rel}:{q}: `{src(st)[:70]}`", False,
                                   f"`{nm.id}` is an array argument of the kernel (declared `{src(next(a.annotation for a in fn.args.args if a.arg == nm.id))}`) "
                                   f"and `{src(st)[:70]}` assigns to the bare name: interpreted Python binds the LOCAL name to a new array and "
                                   "leaves the caller's array untouched, the compiled (pyccel) kernel has only the caller's array behind that "
                                   "name and performs the assignment in place - the in-place effects of compiled and interpreted kernel "
                                   "differ (the caller's data are overwritten, every later use of that array sees other values)"
                                   + (" - and the argument is declared Final" if final else ""), file=rel, func=q)
    chk.ob("K3-array-argument-rebound", None, "reference kernels", n3 == 0, f"{len(U.KERNELS)} pyccel kernel files scanned: no array argument is "
           "re-bound as a whole" if n3 == 0 else f"{n3} array argument(s) re-bound as a whole", file="pygyro", func="<kernels>", nontrivial=False)
    chk.ob("K2-loop-variable-after-loop", None, "kernels and variants", n2[0] == 0, f"{len(files)} kernel files scanned: no counter of a "
           "for loop is read after its loop" if n2[0] == 0 else f"{n2[0]} reads of a loop counter after its loop", file="pygyro",
           func="<kernels>", nontrivial=False)
    chk.ob("K1-no-negative-index-wrap", None, "kernels and variants", n == 0, f"{len(files)} kernel files scanned: no index of the form "
           "X - (Y % n), no one-sided or single-step wrap of a subtracted index, no unreduced index built from array data" if n == 0 else f"{n} indices rely on negative wrap-around", file="pygyro", func="<kernels>", nontrivial=False)


def build_witness_start(chk):
    """the translations of B1 run as child processes next to the static analysis (they share nothing with it): started here,
    collected by build_witness -> handle"""
    pyccel = "/venv/bin/pyccel"
    if not os.path.exists(pyccel):
        raise AnalysisError("pyccel not found in /venv")
    tmp = tempfile.mkdtemp(prefix="pgverif_c19_")
    shutil.copytree(chk.repo.root / "pygyro", os.path.join(tmp, "pygyro"),
                    ignore=shutil.ignore_patterns("__pycache__", "__pyccel__", "*.so", "*.o", "*.mod", "tests"))
    for f in ("Makefile",):
        shutil.copy(chk.repo.root / f, os.path.join(tmp, f))

    def one(rel):
        d, f = os.path.split(rel)
        try:
            p = subprocess.run([pyccel, "-t", f], cwd=os.path.join(tmp, d), capture_output=True, text=True, timeout=600,
                               env={**os.environ, "PYTHONWARNINGS": "ignore"})
            return rel, p.returncode, (p.stdout + p.stderr)[-1500:]
        except Exception as e:          # the tool could not be run: decides nothing about the kernel
            return rel, -1, f"{type(e).__name__}: {e}"

    def all_of_them():
        # the advection kernel imports the three others: translate it after them (as the Makefile does)
        first = [r for r in BUILD_ORDER if r != U.ADVK]
        with ThreadPoolExecutor(max_workers=4) as ex:
            results = list(ex.map(one, first))
        results.append(one(U.ADVK))
        return results
    pool = ThreadPoolExecutor(max_workers=1)
    return tmp, pool, pool.submit(all_of_them)


def build_witness(chk, tier, handle=None):
    """B1: the documented compiler front end accepts the kernels of the working tree"""
    tmp, pool, fut = handle if handle is not None else build_witness_start(chk)
    try:
        results = fut.result()
        pool.shutdown(wait=False)
        for rel, rc, out in results:
            errs = [l for l in out.splitlines() if "error" in l.lower() or "ERROR" in l]
            # a diagnosis of the compiler about the source (|error [stage]: file [line,col]| ...) is a verdict; anything else that
            # makes the process fail (crash of the tool, environment) decides nothing about the kernel
            diagnosed = any(re.search(r"\|\s*(error|fatal)\b|ERROR at .* stage", l) for l in out.splitlines())
            # AUDIT (B1, the one dynamic witness of this check): the compiler's own diagnosis of the source; a failure without such
            # a diagnosis (tool crash, environment) is undecided
            okb = True if rc == 0 else (False if diagnosed else None)
            chk.ob("B1-build-front-end", None, f"pyccel -t {rel}", okb, "translated (syntax, semantic/type analysis and code generation) "
                   "without error" if rc == 0 else ("pyccel rejects the kernel: " if diagnosed else "pyccel failed without a diagnosis of "
                                                    "the source (tool or environment problem?): ") + " | ".join(errs[-3:] or out.splitlines()[-3:]),
                   file=rel, func="<module>")
        if tier == "thorough":
            for lang in ("fortran", "c"):
                p = subprocess.run(["make", "ACC=pycc", f"LANGUAGE={lang}", "PYTHON=/venv/bin/python"], cwd=tmp, capture_output=True, text=True,
                                   timeout=1800, env={**os.environ, "PATH": "/venv/bin:" + os.environ.get("PATH", ""), "PYTHONWARNINGS": "ignore"})
                tail = (p.stdout + p.stderr).splitlines()[-4:]
                chk.ob("B1-documented-make", None, f"make ACC=pycc LANGUAGE={lang}", p.returncode == 0,
                       "the documented build completes" if p.returncode == 0 else "build fails: " + " | ".join(tail), file="Makefile",
                       func="<build>")
                subprocess.run(["make", "clean"], cwd=tmp, capture_output=True, text=True, timeout=600,
                               env={**os.environ, "PATH": "/venv/bin:" + os.environ.get("PATH", "")})
    finally:
        shutil.rmtree(tmp, ignore_errors=True)


def _make_words(txt, text, depth=0):
    """words of a make expression with the plain variables of the file (NAME = / := / ?= words) and $(addsuffix ..) / $(addprefix ..)
    written out; $(SO_EXT), $(NAME_PREFIX), $(ACC) ... (set elsewhere) are kept as they are"""
    var = {}
    for m in re.finditer(r"^([A-Za-z_][A-Za-z0-9_]*)\s*[:?]?=[ \t]*(.*)$", txt, re.M):
        var.setdefault(m.group(1), m.group(2).strip())
    if depth > 4:
        return text.split()

    def fn(m):
        name, a, b = m.group(1), m.group(2).strip(), m.group(3)
        items = _make_words(txt, b, depth + 1)
        return " ".join((x + a) if name == "addsuffix" else (a + x) for x in items)
    for _ in range(4):
        new = re.sub(r"\$\((addsuffix|addprefix)\s+((?:[^,()]|\([^()]*\))*),((?:[^()]|\([^()]*\))*)\)", fn, text)
        new = re.sub(r"\$\(([A-Za-z_][A-Za-z0-9_]*)\)", lambda m: var[m.group(1)] if m.group(1) in var and m.group(1) not in
                     ("SO_EXT", "NAME_PREFIX", "ACC", "TOOL", "TOOL_FLAGS", "PYTHON") else m.group(0), new)
        if new == text:
            break
        text = new
    return text.split()


def _pattern_rule_builds(txt, nm):
    """the kernel is built from $(NAME_PREFIX)<kernel>.py by a static pattern rule `<targets>: %$(SO_EXT): $(NAME_PREFIX)%.py` whose target
    list contains it, or by the pattern rule `%$(SO_EXT): $(NAME_PREFIX)%.py` with <kernel>$(SO_EXT) among the prerequisites of `all`"""
    want = nm + "$(SO_EXT)"
    src_pat = r"(?:pythran_deps/)?\$\(NAME_PREFIX\)%\.py"
    for m in re.finditer(r"^([^#\n:=]+):\s*%\$\(SO_EXT\)\s*:\s*" + src_pat, txt, re.M):
        if want in _make_words(txt, m.group(1)):
            return True
    if re.search(r"^%\$\(SO_EXT\)\s*:\s*" + src_pat, txt, re.M):
        for m in re.finditer(r"^all\s*:(?!=)(.*)$", txt, re.M):
            if want in _make_words(txt, m.group(1)):
                return True
    return False


def _make_for_pycc(txt):
    """the lines of a Makefile that are active in the documented build `make ACC=pycc`: branches of `ifeq ($(ACC), x)` / `ifneq
    ($(ACC), x)` (nested, with `else` / `else ifeq ...`) that are not taken for ACC = pycc are left out; a conditional on anything
    else keeps all its branches"""
    out, stack = [], []          # stack of (decided?, active now?, some branch already taken?)

    def truth(line):
        m = re.match(r"\s*(ifeq|ifneq)\s*\(\s*\$\(ACC\)\s*,\s*([A-Za-z0-9_]*)\s*\)\s*$", line) or \
            re.match(r"\s*(ifeq|ifneq)\s*\(\s*([A-Za-z0-9_]*)\s*,\s*\$\(ACC\)\s*\)\s*$", line)
        if not m:
            return None
        return (m.group(2) == "pycc") == (m.group(1) == "ifeq")
    for line in txt.splitlines():
        st = line.strip()
        if re.match(r"(ifeq|ifneq|ifdef|ifndef)\b", st) and not line.startswith("\t"):
            t = truth(line)
            stack.append([t is not None, t is not False, t is True])
            continue
        if re.match(r"else\b", st) and not line.startswith("\t") and stack:
            rest = st[4:].strip()
            top = stack[-1]
            if not top[0]:
                continue          # undecided conditional: every branch is kept
            if rest:
                t = truth(rest)
                if t is None:
                    top[0] = False
                    top[1] = True
                else:
                    top[1] = (not top[2]) and t
                    top[2] = top[2] or top[1]
            else:
                top[1] = not top[2]
                top[2] = True
            continue
        if re.match(r"endif\b", st) and not line.startswith("\t") and stack:
            stack.pop()
            continue
        if all(a for _, a, _ in stack):
            out.append(line)
    return "\n".join(out) + "\n"


def makefile_targets(chk):
    """the documented build compiles exactly the five kernel modules"""
    found = set()
    all_targets = []
    for d, names in (("pygyro/splines", ("spline_eval_funcs", "cubic_uniform_spline_eval_funcs")),
                     ("pygyro/initialisation", ("initialiser_funcs",)), ("pygyro/advection", ("accelerated_advection_steps",)),
                     ("pygyro/poisson", ("poisson_tools",))):
        txt = _make_for_pycc(chk.repo.text(d + "/Makefile"))
        for nm in names:
            all_targets.append((d, nm))
            if re.search(r"^" + nm + r"\$\(SO_EXT\):\s*(?:pythran_deps/)?\$\(NAME_PREFIX\)" + nm + r"\.py", txt, re.M) \
                    or _pattern_rule_builds(txt, nm):
                found.add(nm)
    ok = len(found) == 5
    if ok:
        chk.ob("B1-makefile-targets", None, "kernel targets of pygyro/*/Makefile", True, "the five kernels are the build targets, each built "
               "from $(NAME_PREFIX)<kernel>.py", file="pygyro/Makefile", func="<build>", nontrivial=False)
        return
    # a kernel whose rule is written differently: wrong only when a rule for it exists and names another source
    wrong = []
    for d, nm in all_targets:
        if nm in found:
            continue
        txt = _make_for_pycc(chk.repo.text(d + "/Makefile"))
        for m in re.finditer(r"^" + nm + r"\$\(SO_EXT\)\s*:\s*(\S+).*\n((?:\t.*\n?)*)", txt, re.M):
            first, recipe = m.group(1), m.group(2)
            # AUDIT: the first prerequisite is the compiled source only when the recipe compiles `$<`; a recipe that names its source
            # (or uses another automatic variable) is not read here
            if first.endswith(".py") and not first.endswith(nm + ".py") and "$<" in recipe and (nm + ".py") not in recipe:
                wrong.append(f"{d}/Makefile builds {nm}$(SO_EXT) from `{first}` (the recipe compiles `$<`)")
    chk.ob("B1-makefile-targets", None, "kernel targets of pygyro/*/Makefile", False if wrong else None,
           ("the documented build compiles another source than the kernel the library imports: " + "; ".join(wrong)) if wrong else
           f"the rules of {sorted(nm for _, nm in all_targets if nm not in found)} are not written in the recognised form "
           "`<kernel>$(SO_EXT): $(NAME_PREFIX)<kernel>.py` (the build witness B1 still translates the kernels themselves)",
           file="pygyro/Makefile", func="<build>", nontrivial=False)


def run(chk):
    chk.explanation = (
        "Compile-fail witness: pyccel (the repository's own compiler) translates each of the five kernels of the working tree on a "
        "scratch copy (thorough: the documented make for Fortran and C); every library call site of a kernel fits its signature; "
        "numba/pythran copies define the consumer-imported names, bind the reference's calls the same way, and export signatures of "
        "matching arity and argument types; duplicated pythran copies agree; each variant body is AST-identical to the reference, "
        "identical in canonical form (temporaries and hoisted invariants written back, early returns, merged arms, enumerate/range, "
        "operand order), proved against the same specification formula as the reference (engine F, helper functions inlined), or "
        "statement-for-statement equal with algebraically equal expressions; loop-free functions are compared as tables of guarded "
        "values (path conditions decided by Fourier-Motzkin elimination); consistent changes of convention (shifted counter, permuted "
        "axes of a scratch array, loop order of independent nests, scalarised elementwise temporaries, view aliases, iteration headers, "
        "element programs with the index loops removed, case analysis on mode parameters) are followed on both sides; a single "
        "conditional shift of a period against a modulo on input data is a different function - "
        "a recognisably different expression is a violation, "
        "anything else undecided; no kernel index relies on negative wrap-around (modulo lost, one-sided or single-step range "
        "correction, unreduced array data) and no loop counter is read after its loop. Equality of compiled and interpreted "
        "numerical results is inherently dynamic and is not decided.")
    chk.trusted.append("pyccel 2.0.1 front end (type/semantic analysis) from /venv")
    chk.in_file("pygyro")
    handle = build_witness_start(chk)
    try:
        makefile_targets(chk)
        reference_inputs(chk)
        variant_agreement(chk)
        call_sites(chk)
        index_wrap(chk)
    except BaseException:
        try:
            handle[2].result()
        except Exception:
            pass
        shutil.rmtree(handle[0], ignore_errors=True)
        raise
    build_witness(chk, chk.tier, handle)
    chk.floor("B1-build-front-end", 5)
    chk.floor("V4-body-equivalence", 55)
    chk.floor("V1-", 60)
