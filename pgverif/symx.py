"""Engine F: algebraic normal forms by symbolic forward substitution (DESIGN 4.5).

A symbolic interpreter for the kernel-style Python of this repository: scalars and
array cells addressed by loop indices are sympy expressions; `x op= e` updates the
cell; if/else becomes ITE(guard, a, b); an accumulation loop becomes Sum; calls to
spline evaluators / f_eq / sqrt ... are uninterpreted functions; `% (2 pi)` is an
idempotent wrap operator.  Nothing is executed: loops are not iterated, the loop
variable is a symbol.  Equality of two extracted expressions is polynomial identity
after cross-multiplication (sympy expand), conditionals are compared by a truth table
over their (canonicalised) atomic comparisons.
"""
from __future__ import annotations

import ast
import itertools

import sympy as sp
from sympy import Function, Symbol, Integer, Rational

from .core import src, AnalysisError


class Undecided(Exception):
    pass


class Wrap(Function):
    """x mod 2*pi; idempotent"""
    nargs = 1

    @classmethod
    def eval(cls, x):
        if isinstance(x, Wrap):
            return x

    def _eval_is_extended_real(self):
        return True


class ITE(Function):
    """if-then-else kept as an uninterpreted ternary; simplifies when both arms agree"""
    nargs = 3

    @classmethod
    def eval(cls, c, a, b):
        if c is sp.true or c == True:  # noqa: E712
            return a
        if c is sp.false or c == False:  # noqa: E712
            return b
        if a == b:
            return a

    def _eval_is_extended_real(self):
        return True

    def _eval_is_real(self):
        return True

    def _eval_is_commutative(self):
        return True


class WhileShift(Function):
    """WhileShift(v, cond_kind, bound, step): result of `while v <cond> bound: v += step`"""
    nargs = 4

    def _eval_is_extended_real(self):
        return True


PI = Symbol("pi", positive=True)

PURE_FUNCS = {"sqrt": sp.sqrt, "exp": sp.exp, "tanh": sp.tanh, "cos": sp.cos, "sin": sp.sin, "floor": sp.floor,
              "real": lambda x: x, "float": lambda x: x, "int": lambda x: Function("toint")(x)}


def num(c):
    if isinstance(c, bool):
        return sp.true if c else sp.false
    if isinstance(c, int):
        return Integer(c)
    if isinstance(c, float):
        return Rational(repr(c)) if c == c else sp.nan
    raise Undecided(f"constant {c!r}")


class Arr:
    """symbolic array: written cells keyed by index tuple; reads of unwritten cells are
    an uninterpreted function of the indices (or `generic(idx)` when defined)."""

    def __init__(self, name, generic=None):
        self.name = name
        self.cells: dict[tuple, sp.Expr] = {}
        self.generic = generic
        self.fn = Function(name)

    def read(self, idx):
        idx = tuple(idx)
        if idx in self.cells:
            return self.cells[idx]
        # a written cell with a different symbolic key might alias: require syntactic disjointness knowledge
        for k in self.cells:
            if len(k) == len(idx) and not _provably_distinct(k, idx):
                raise Undecided(f"read of {self.name}{list(idx)} may alias written cell {list(k)}")
        if self.generic is not None:
            return self.generic(idx)
        return self.fn(*idx)

    def write(self, idx, val):
        idx = tuple(idx)
        for k in list(self.cells):
            if k != idx and len(k) == len(idx) and not _provably_distinct(k, idx):
                raise Undecided(f"write of {self.name}{list(idx)} may alias written cell {list(k)}")
        self.cells[idx] = val

    def copy(self):
        a = Arr(self.name, self.generic)
        a.cells = dict(self.cells)
        a.fn = self.fn
        return a


LOOP_BOUNDS: list = []      # [(symbol, lower bound)] of the loops being executed (set by SymExec)


def _provably_distinct(k1, k2):
    for a, b in zip(k1, k2):
        d = sp.simplify(a - b)
        if d.is_number and d != 0:
            return True
        if LOOP_BOUNDS and not d.is_number:
            sub = {}
            for v, lo in LOOP_BOUNDS:
                if v in d.free_symbols:
                    sub[v] = lo + Symbol("_t_" + str(v), nonnegative=True, integer=True)
            if sub:
                dd = sp.simplify(d.subs(sub))
                if dd.is_positive or dd.is_negative:
                    return True
    return False


class Vec:
    """element-wise lifted whole-array expression: f(index tuple) -> element"""

    def __init__(self, f):
        self.f = f


def _elem(v, ix):
    if isinstance(v, Arr):
        return v.read(list(ix))
    if isinstance(v, Vec):
        return v.f(ix)
    return v


class ShapeOf:
    def __init__(self, arrname):
        self.name = arrname

    def dim(self, k):
        return Symbol(f"n{k}_{self.name}", integer=True, positive=True)


class SymExec:
    """symbolic execution of one function body under the pointwise discipline"""

    def __init__(self, fn: ast.FunctionDef, args: dict, calls: dict | None = None, consts: dict | None = None):
        self.fn = fn
        self.env: dict[str, object] = dict(args)
        self.calls = calls or {}           # name -> handler(self, call_node, argvals) -> value
        self.consts = consts or {}
        self.ret = None
        self.path = sp.true
        self.loop_vars: list[tuple] = []   # (symbol, lo, hi)
        self.module_funcs: dict = {}       # name -> FunctionDef of functions that may be inlined
        self.depth = 0

    # ------------------------------------------------------------ expressions
    def ev(self, e):
        if isinstance(e, ast.Constant):
            return num(e.value)
        if isinstance(e, ast.Name):
            if e.id in self.env:
                return self.env[e.id]
            if e.id == "pi":
                return PI
            if e.id in self.consts:
                return self.consts[e.id]
            raise Undecided(f"unknown name `{e.id}`")
        if isinstance(e, ast.BinOp):
            a, b = self.ev(e.left), self.ev(e.right)
            if isinstance(a, (Arr, Vec)) or isinstance(b, (Arr, Vec)):
                node = e

                def f(ix, a=a, b=b, node=node):
                    return self.binop(node.op, _elem(a, ix), _elem(b, ix), node)
                return Vec(f)
            return self.binop(e.op, a, b, e)
        if False:
            op = e.op
            if isinstance(op, ast.Add):
                return a + b
            if isinstance(op, ast.Sub):
                return a - b
            if isinstance(op, ast.Mult):
                return a * b
            if isinstance(op, ast.Div):
                return a / b
            if isinstance(op, ast.Pow):
                return a ** b
            if isinstance(op, ast.Mod):
                if sp.simplify(b - 2 * PI) == 0:
                    return Wrap(a)
                return Function("mod")(a, b)
            if isinstance(op, ast.FloorDiv):
                return sp.floor(a / b)
            raise Undecided(f"operator in `{src(e)[:50]}`")
        if isinstance(e, ast.UnaryOp):
            v = self.ev(e.operand)
            if isinstance(e.op, ast.USub):
                return -v
            if isinstance(e.op, ast.UAdd):
                return v
            if isinstance(e.op, ast.Not):
                return sp.Not(v)
        if isinstance(e, ast.Compare):
            parts = []
            left = self.ev(e.left)
            for op, c in zip(e.ops, e.comparators):
                right = self.ev(c)
                parts.append(self.rel(op, left, right))
                left = right
            return sp.And(*parts) if len(parts) > 1 else parts[0]
        if isinstance(e, ast.BoolOp):
            vals = [self.ev(v) for v in e.values]
            return sp.And(*vals) if isinstance(e.op, ast.And) else sp.Or(*vals)
        if isinstance(e, ast.Subscript):
            base = self.ev(e.value)
            if isinstance(base, Arr):
                items = e.slice.elts if isinstance(e.slice, ast.Tuple) else [e.slice]
                if any(isinstance(x, ast.Slice) for x in items):
                    lows = []
                    for x in items:
                        if isinstance(x, ast.Slice):
                            if x.step is not None:
                                raise Undecided("strided slice")
                            lows.append(("s", self.ev(x.lower) if x.lower is not None else Integer(0)))
                        else:
                            lows.append(("i", self.ev(x)))

                    def f(ix, base=base, lows=lows):
                        out, k = [], 0
                        for kind, lo in lows:
                            if kind == "s":
                                out.append(lo + ix[k])
                                k += 1
                            else:
                                out.append(lo)
                        return base.read(out)
                    return Vec(f)
                idx = self.index(e.slice)
                return base.read(idx)
            if isinstance(base, (tuple, list)):
                i = self.ev(e.slice)
                if i.is_Integer:
                    return base[int(i)]
            if isinstance(base, ShapeOf):
                i = self.ev(e.slice)
                if i.is_Integer:
                    return base.dim(int(i))
            if isinstance(base, Vec):
                return base.f(tuple(self.index(e.slice)))
            raise Undecided(f"subscript `{src(e)[:50]}`")
        if isinstance(e, ast.Attribute):
            base = e.value
            if isinstance(base, ast.Name) and base.id in self.env and isinstance(self.env[base.id], Arr) and e.attr == "shape":
                a = self.env[base.id]
                return ShapeOf(a.name)
            if isinstance(base, ast.Name) and base.id in ("np", "numpy", "math") and e.attr == "pi":
                return PI
            raise Undecided(f"attribute `{src(e)[:50]}`")
        if isinstance(e, ast.Call):
            return self.call(e)
        if isinstance(e, ast.Tuple):
            return tuple(self.ev(x) for x in e.elts)
        if isinstance(e, ast.IfExp):
            return ITE(self.ev(e.test), self.ev(e.body), self.ev(e.orelse))
        raise Undecided(f"expression kind `{src(e)[:50]}`")

    def binop(self, op, a, b, e):
        if isinstance(op, ast.Add):
            return a + b
        if isinstance(op, ast.Sub):
            return a - b
        if isinstance(op, ast.Mult):
            return a * b
        if isinstance(op, ast.Div):
            return a / b
        if isinstance(op, ast.Pow):
            return a ** b
        if isinstance(op, ast.Mod):
            if sp.simplify(b - 2 * PI) == 0:
                return Wrap(a)
            return Function("mod")(a, b)
        if isinstance(op, ast.FloorDiv):
            return sp.floor(a / b)
        raise Undecided(f"operator in `{src(e)[:50]}`")

    def rel(self, op, a, b):
        if isinstance(op, ast.Lt):
            return sp.Lt(a, b)
        if isinstance(op, ast.LtE):
            return sp.Le(a, b)
        if isinstance(op, ast.Gt):
            return sp.Gt(a, b)
        if isinstance(op, ast.GtE):
            return sp.Ge(a, b)
        if isinstance(op, ast.Eq):
            return sp.Eq(a, b)
        if isinstance(op, ast.NotEq):
            return sp.Ne(a, b)
        raise Undecided("comparison operator")

    def index(self, s):
        if isinstance(s, ast.Tuple):
            return [self.ev(x) for x in s.elts]
        return [self.ev(s)]

    def call(self, e: ast.Call):
        f = e.func
        name = f.id if isinstance(f, ast.Name) else f.attr if isinstance(f, ast.Attribute) else None
        if name in self.calls:
            return self.calls[name](self, e)
        # function-valued parameter bound in env
        if isinstance(f, ast.Name) and f.id in self.env and callable(self.env[f.id]):
            return self.env[f.id](self, e)
        if isinstance(f, ast.Name) and f.id in self.module_funcs and self.depth < 4:
            callee = self.module_funcs[f.id]
            params = [a.arg for a in callee.args.args]
            bound = {}
            for p_, a_ in zip(params, e.args):
                bound[p_] = self.ev(a_)
            for k_ in e.keywords:
                bound[k_.arg] = self.ev(k_.value)
            nd = len(callee.args.defaults)
            for p_, d_ in zip(params[len(params) - nd:], callee.args.defaults):
                if p_ not in bound:
                    bound[p_] = self.ev(d_)
            sub = SymExec(callee, bound, self.calls, self.consts)
            sub.module_funcs = self.module_funcs
            sub.depth = self.depth + 1
            sub.run()
            return sub.ret if sub.ret is not None else sp.S.NaN
        if name in PURE_FUNCS:
            args = [self.ev(a) for a in e.args]
            return PURE_FUNCS[name](*args)
        if name in ("abs", "np_abs", "fabs"):
            return sp.Abs(self.ev(e.args[0]))
        if name == "len":
            a = self.ev(e.args[0])
            if isinstance(a, Arr):
                return getattr(a, "length", None) or Symbol(f"n0_{a.name}", integer=True, positive=True)
            if isinstance(a, (tuple, list)):
                return Integer(len(a))
        if name in ("empty", "zeros", "empty_like", "ones"):
            a_ = Arr(f"tmp{e.lineno}")
            # a one-dimensional scratch array of known length: enumerate()/len() use that length
            if name != "empty_like" and e.args:
                try:
                    n_ = self.ev(e.args[0])
                    if isinstance(n_, sp.Expr):
                        a_.length = n_
                except Undecided:
                    pass
            return a_
        raise Undecided(f"call `{src(e)[:60]}`")

    # ------------------------------------------------------------ statements
    def run(self):
        self.block(self.fn.body)
        return self

    def block(self, stmts):
        for st in stmts:
            if self.ret is not None:
                break
            self.stmt(st)

    def stmt(self, st):
        if isinstance(st, ast.Expr):
            if isinstance(st.value, ast.Constant):
                return
            if isinstance(st.value, ast.Call):
                self.call(st.value)
                return
            return
        if isinstance(st, (ast.Import, ast.ImportFrom, ast.Pass)):
            if isinstance(st, ast.ImportFrom):
                for a in st.names:
                    if a.name == "pi":
                        self.env[a.asname or a.name] = PI
            return
        if isinstance(st, ast.Assign):
            val = self.ev(st.value)
            for t in st.targets:
                self.assign(t, val)
            return
        if isinstance(st, ast.AugAssign):
            cur = self.ev(st.target)
            v = self.ev(st.value)
            op = st.op
            if isinstance(op, ast.Add):
                new = cur + v
            elif isinstance(op, ast.Sub):
                new = cur - v
            elif isinstance(op, ast.Mult):
                new = cur * v
            elif isinstance(op, ast.Div):
                new = cur / v
            else:
                raise Undecided(f"augmented operator in `{src(st)[:50]}`")
            self.assign(st.target, new)
            return
        if isinstance(st, ast.If):
            c = self.ev(st.test)
            if c is sp.true or c == True:  # noqa: E712
                self.block(st.body)
                return
            if c is sp.false or c == False:  # noqa: E712
                self.block(st.orelse)
                return
            snap = self.snapshot()
            self.block(st.body)
            a = self.snapshot()
            ra = self.ret
            self.restore(snap)
            self.ret = None
            self.block(st.orelse)
            b = self.snapshot()
            rb = self.ret
            self.merge(c, a, b)
            if ra is not None or rb is not None:
                if ra is None or rb is None:
                    raise Undecided("return on one arm of a conditional only")
                self.ret = ITE(c, ra, rb)
            return
        if isinstance(st, ast.For):
            self.loop(st)
            self.generalise()
            return
        if isinstance(st, ast.While):
            self.while_(st)
            return
        if isinstance(st, ast.Return):
            self.ret = self.ev(st.value) if st.value is not None else sp.S.NaN
            return
        if isinstance(st, ast.Assert):
            return
        raise Undecided(f"statement kind `{src(st)[:50]}`")

    def assign(self, t, val):
        if isinstance(t, ast.Name):
            self.env[t.id] = val
        elif isinstance(t, ast.Subscript):
            base = self.ev(t.value)
            if not isinstance(base, Arr):
                raise Undecided(f"store into `{src(t)[:40]}`")
            if isinstance(t.slice, ast.Slice) and t.slice.lower is None and t.slice.upper is None and isinstance(val, (Vec, Arr)):
                v = val
                base.cells = {}
                base.generic = (lambda ix, v=v: _elem(v, ix))
                return
            if isinstance(t.slice, ast.Tuple) and all(isinstance(x, ast.Slice) and x.lower is None and x.upper is None
                                                       for x in t.slice.elts) and isinstance(val, (Vec, Arr)):
                v = val
                base.cells = {}
                base.generic = (lambda ix, v=v: _elem(v, ix))
                return
            if isinstance(t.slice, ast.Slice) or (isinstance(t.slice, ast.Tuple) and any(isinstance(x, ast.Slice) for x in t.slice.elts)):
                raise Undecided(f"slice store `{src(t)[:40]}`")
            base.write(self.index(t.slice), val)
        elif isinstance(t, ast.Tuple):
            if isinstance(val, ShapeOf):
                val = tuple(val.dim(k) for k in range(len(t.elts)))
            if not isinstance(val, (tuple, list)) or len(val) != len(t.elts):
                raise Undecided("tuple assignment")
            for e, v in zip(t.elts, val):
                self.assign(e, v)
        else:
            raise Undecided(f"assignment target `{src(t)[:40]}`")

    def snapshot(self):
        env = {}
        for k, v in self.env.items():
            env[k] = v.copy() if isinstance(v, Arr) else v
        return env

    def restore(self, snap):
        self.env = {}
        for k, v in snap.items():
            self.env[k] = v.copy() if isinstance(v, Arr) else v

    def merge(self, c, a, b):
        out = {}
        for k in set(a) | set(b):
            va, vb = a.get(k), b.get(k)
            if isinstance(va, Arr) or isinstance(vb, Arr):
                if not (isinstance(va, Arr) and isinstance(vb, Arr)):
                    out[k] = va if isinstance(va, Arr) else vb
                    continue
                m = va.copy()
                if va.generic is not vb.generic:
                    ga = va.generic or (lambda ix, f=va.fn: f(*ix))
                    gb = vb.generic or (lambda ix, f=vb.fn: f(*ix))

                    def gen(ix, ga=ga, gb=gb, c=c):
                        return ITE(c, ga(ix), gb(ix))
                    m.generic = gen
                for idx in set(va.cells) | set(vb.cells):
                    xa = va.cells[idx] if idx in va.cells else (va.generic(idx) if va.generic else va.fn(*idx))
                    xb = vb.cells[idx] if idx in vb.cells else (vb.generic(idx) if vb.generic else vb.fn(*idx))
                    m.cells[idx] = ITE(c, xa, xb)
                out[k] = m
            elif va is None or vb is None:
                out[k] = va if vb is None else vb        # defined on one arm only
            elif callable(va) or isinstance(va, (tuple, list)):
                out[k] = va
            else:
                out[k] = ITE(c, va, vb) if va != vb else va
        self.env = out

    def loop(self, st: ast.For):
        it = st.iter
        # range(n) / range(a, b) / enumerate(arr)
        if isinstance(it, ast.Call) and isinstance(it.func, ast.Name) and it.func.id == "range":
            args = [self.ev(a) for a in it.args]
            lo, hi = (Integer(0), args[0]) if len(args) == 1 else (args[0], args[1])
            if not isinstance(st.target, ast.Name):
                raise Undecided("loop target")
            v = Symbol(st.target.id, integer=True)
            self.env[st.target.id] = v
            self.body_once(st, v, lo, hi, {st.target.id})
            return
        if isinstance(it, ast.Call) and isinstance(it.func, ast.Name) and it.func.id == "enumerate":
            arr = self.ev(it.args[0])
            if not isinstance(arr, Arr) or not isinstance(st.target, ast.Tuple):
                raise Undecided("enumerate over non-array")
            iv, xv = st.target.elts
            v = Symbol(iv.id, integer=True)
            self.env[iv.id] = v
            self.env[xv.id] = arr.read([v])
            self.body_once(st, v, Integer(0), getattr(arr, "length", None) or Symbol(f"n0_{arr.name}", integer=True, positive=True),
                           {iv.id, xv.id})
            return
        raise Undecided(f"loop over `{src(it)[:40]}`")

    def body_once(self, st, v, lo, hi, bound_names=frozenset()):
        """execute the body once with the loop variable symbolic; cells whose key does not
        involve v and that are updated additively become sums"""
        before = self.snapshot()
        self.loop_vars.append((v, lo, hi))
        LOOP_BOUNDS.append((v, lo))
        self.all_loop_syms = getattr(self, "all_loop_syms", set()) | {v}
        try:
            self.block(st.body)
        finally:
            self.loop_vars.pop()
            LOOP_BOUNDS.pop()
        after = self.env
        for k, val in list(after.items()):
            if isinstance(val, Arr):
                b = before.get(k)
                if isinstance(b, Arr) and val.generic is not b.generic and val.generic is not None:
                    # fully re-initialised inside the body: a per-iteration scratch array
                    stale = [idx for idx, expr in val.cells.items()
                             if not any(v in i.free_symbols for i in idx) and v in expr.free_symbols]
                    if stale:
                        fresh = Function(f"scratch_{val.name}_{st.lineno}")
                        val.cells = {}
                        val.generic = (lambda ix, fresh=fresh: fresh(*ix))
                        continue
                for idx, expr in list(val.cells.items()):
                    if any(v in i.free_symbols for i in idx):
                        continue       # pointwise cell
                    old = b.cells.get(idx) if isinstance(b, Arr) and idx in b.cells else None
                    if old is not None and old == expr:
                        continue
                    if old is None:
                        if v in expr.free_symbols:
                            # accumulation onto the cell's initial content (never initialised in this function)
                            if isinstance(b, Arr):
                                old = b.generic(idx) if b.generic is not None else b.fn(*idx)
                            else:
                                raise Undecided(f"cell {k}{list(idx)} written in a loop over {v} without being indexed by it")
                        else:
                            continue
                    d = sp.expand(expr - old)
                    if old.free_symbols & d.free_symbols and _depends_on_expr(d, old):
                        raise Undecided(f"non-additive accumulation into {k}{list(idx)}")
                    val.cells[idx] = old + sp.Sum(d, (v, lo, hi - 1))
            elif isinstance(val, sp.Basic) and k in before and isinstance(before[k], sp.Basic):
                old = before[k]
                if old != val and k != str(v) and k not in bound_names:
                    d = sp.expand(val - old)
                    if v in d.free_symbols or True:
                        if _depends_on_expr(d, old) and old != 0:
                            raise Undecided(f"non-additive loop-carried scalar `{k}`")
                        after[k] = old + sp.Sum(d, (v, lo, hi - 1))

    def generalise(self):
        """after an outermost loop: an array whose only written cell is keyed by distinct loop
        symbols is written point-wise over its whole extent -> make that cell the generic one"""
        if self.loop_vars:
            return
        syms = getattr(self, "all_loop_syms", set())
        for k, val in self.env.items():
            if isinstance(val, Arr) and len(val.cells) == 1:
                (idx, expr), = val.cells.items()
                if all(isinstance(i, Symbol) and i in syms for i in idx) and len(set(idx)) == len(idx):
                    keys = tuple(idx)

                    def gen(ix, expr=expr, keys=keys):
                        return expr.subs(dict(zip(keys, ix)), simultaneous=True)
                    val.generic = gen
                    val.cells = {}

    def while_(self, st: ast.While):
        # idiom: while v < bound: v += step   /   while v > bound: v -= step
        if len(st.body) == 1 and isinstance(st.body[0], ast.AugAssign) and isinstance(st.body[0].target, ast.Name) \
                and isinstance(st.test, ast.Compare) and len(st.test.ops) == 1 and isinstance(st.test.left, ast.Name) \
                and st.test.left.id == st.body[0].target.id:
            name = st.test.left.id
            v = self.ev(st.test.left)
            bound = self.ev(st.test.comparators[0])
            step = self.ev(st.body[0].value)
            if isinstance(st.body[0].op, ast.Sub):
                step = -step
            kind = {ast.Lt: 1, ast.LtE: 2, ast.Gt: 3, ast.GtE: 4}.get(type(st.test.ops[0]))
            if kind is None:
                raise Undecided("while condition")
            self.env[name] = WhileShift(v, Integer(kind), bound, step)
            return
        raise Undecided(f"while loop `{src(st.test)[:40]}` is not a recognised idiom")


def _depends_on_expr(d, old):
    """does d still contain `old` as a subexpression (non-additive update)?"""
    if old.is_Number:
        return False
    return d.has(old) if not old.is_Add else False


# --------------------------------------------------------------------------
# comparison
# --------------------------------------------------------------------------

def canon_rel(r):
    """canonicalise a relational to ('lt'|'le'|'eq', canonical expr, negated?)"""
    if isinstance(r, sp.Not):
        k, c, n = canon_rel(r.args[0])
        return k, c, not n
    if isinstance(r, (sp.Lt, sp.StrictLessThan)):
        a, b, kind = r.lhs, r.rhs, "lt"
    elif isinstance(r, (sp.Le, sp.LessThan)):
        a, b, kind = r.lhs, r.rhs, "le"
    elif isinstance(r, (sp.Gt, sp.StrictGreaterThan)):
        a, b, kind = r.rhs, r.lhs, "lt"
    elif isinstance(r, (sp.Ge, sp.GreaterThan)):
        a, b, kind = r.rhs, r.lhs, "le"
    elif isinstance(r, sp.Eq):
        d = sp.expand(r.lhs - r.rhs)
        if str(-d) < str(d):
            d = -d
        return "eq", d, False
    elif isinstance(r, sp.Ne):
        d = sp.expand(r.lhs - r.rhs)
        if str(-d) < str(d):
            d = -d
        return "eq", d, True
    else:
        return "atom", r, False
    d = sp.expand(a - b)      # a < b  <=>  d < 0
    nd = sp.expand(-d)
    if str(nd) < str(d):
        # d < 0 <=> nd > 0 <=> not (nd <= 0) ; d <= 0 <=> nd >= 0 <=> not (nd < 0)
        return ("le" if kind == "lt" else "lt"), nd, True
    return kind, d, False


def bool_atoms(c, acc):
    if isinstance(c, (sp.And, sp.Or)):
        for a in c.args:
            bool_atoms(a, acc)
    elif isinstance(c, sp.Not) and isinstance(c.args[0], (sp.And, sp.Or)):
        bool_atoms(c.args[0], acc)
    elif c in (sp.true, sp.false):
        pass
    else:
        k, e, n = canon_rel(c)
        acc.add((k, e))


def bool_eval(c, val):
    if c is sp.true:
        return True
    if c is sp.false:
        return False
    if isinstance(c, sp.And):
        return all(bool_eval(a, val) for a in c.args)
    if isinstance(c, sp.Or):
        return any(bool_eval(a, val) for a in c.args)
    if isinstance(c, sp.Not) and isinstance(c.args[0], (sp.And, sp.Or)):
        return not bool_eval(c.args[0], val)
    k, e, n = canon_rel(c)
    v = val[(k, e)]
    return (not v) if n else v


def _ws_bounds(W):
    """(lower bounds, upper bounds) guaranteed by the exit condition of the shift loops that produced W"""
    v, kind, bound, step = W.args
    lo, hi = [], []
    if int(kind) in (1, 2):        # while v < B: v += s   ->  v >= B
        lo.append(bound)
    if int(kind) in (3, 4):        # while v > B: v -= s   ->  v <= B
        hi.append(bound)
    if isinstance(v, WhileShift):
        v0, k0, b0, s0 = v.args
        # first `while v < b0: v += w`, then `while v > B: v -= w` with w = B - b0 > 0: the result stays >= b0
        if int(kind) in (3, 4) and int(k0) in (1, 2) and sp.expand(step + (bound - b0)) == 0 and sp.expand(s0 - (bound - b0)) == 0:
            lo.append(b0)
        if int(kind) in (1, 2) and int(k0) in (3, 4) and sp.expand(step - (b0 - bound)) == 0 and sp.expand(s0 + (b0 - bound)) == 0:
            hi.append(b0)
    return lo, hi


def _forced(k, e):
    """truth value of the atom `e <k> 0` forced by the exit conditions of shift loops, or None"""
    if k not in ("lt", "le"):
        return None
    for W in e.atoms(WhileShift):
        lo, hi = _ws_bounds(W)
        X = sp.expand(W - e)           # e = W - X
        if not X.has(W):
            if k == "lt" and any(sp.expand(X - b) == 0 for b in lo):
                return False           # W < lower bound
            if k == "le" and any(sp.expand(X - b) == 0 for b in hi):
                return True            # W <= upper bound
        Y = sp.expand(e + W)           # e = Y - W
        if not Y.has(W):
            if k == "lt" and any(sp.expand(Y - b) == 0 for b in hi):
                return False           # upper bound < W
            if k == "le" and any(sp.expand(Y - b) == 0 for b in lo):
                return True            # lower bound <= W
    return None


def consistent(val):
    """(e<0) implies (e<=0); (e==0) implies (e<=0) and not (e<0); exit conditions of shift loops"""
    for (k, e), v in val.items():
        f = _forced(k, e)
        if f is not None and f != v:
            return False
    by = {}
    for (k, e), v in val.items():
        by.setdefault(e, {})[k] = v
    for e, d in by.items():
        if d.get("lt") and d.get("le") is False:
            return False
        if d.get("eq") and (d.get("lt") or d.get("le") is False):
            return False
    return True


def collect_ites(e, acc):
    if isinstance(e, ITE):
        acc.append(e)
    for a in getattr(e, "args", ()):
        collect_ites(a, acc)


def resolve_ite(e, val):
    if isinstance(e, ITE):
        c = bool_eval(e.args[0], val)
        return resolve_ite(e.args[1] if c else e.args[2], val)
    if not getattr(e, "args", None):
        return e
    if not e.has(ITE):
        return e
    return e.func(*[resolve_ite(a, val) for a in e.args])


def _split_sums(e):
    """e = rest + sum_k Sum(term_k, limits_k)  ->  (rest, {limits: term})"""
    e = sp.expand(e)
    rest = 0
    sums = {}
    for t in sp.Add.make_args(e):
        c, s_ = t.as_coeff_Mul()
        if isinstance(s_, sp.Sum):
            sums[s_.limits] = sums.get(s_.limits, 0) + c * s_.function
        elif isinstance(t, sp.Sum):
            sums[t.limits] = sums.get(t.limits, 0) + t.function
        else:
            rest += t
    return rest, sums


def alg_equal(a, b):
    """polynomial identity after cross-multiplication (atoms: symbols and function applications);
    sums over the same range are compared summand-wise"""
    if a == b:
        return True
    if (getattr(a, "has", None) and a.has(sp.Sum)) or (getattr(b, "has", None) and b.has(sp.Sum)):
        ra, sa = _split_sums(a)
        rb, sb = _split_sums(b)
        if sa or sb:
            if set(sa) != set(sb):
                return False
            return alg_equal(ra, rb) and all(alg_equal(sa[k], sb[k]) for k in sa)
        # sums only occur inside products/functions: treat them as atoms below
    d = sp.together(a - b)
    n, _ = sp.fraction(d)
    n = sp.expand(n)
    if n == 0:
        return True
    try:
        return sp.simplify(n) == 0
    except Exception:
        return False


def sym_equal(a, b, max_atoms=10):
    """equality of two extracted expressions, conditionals by truth table -> (bool, witness)"""
    atoms = set()
    ites = []
    collect_ites(a, ites)
    collect_ites(b, ites)
    for i in ites:
        bool_atoms(i.args[0], atoms)
    atoms = sorted(atoms, key=str)
    if len(atoms) > max_atoms:
        raise Undecided(f"{len(atoms)} atomic conditions")
    if not atoms:
        return alg_equal(a, b), None
    for bits in itertools.product([False, True], repeat=len(atoms)):
        val = dict(zip(atoms, bits))
        if not consistent(val):
            continue
        ra, rb = resolve_ite(a, val), resolve_ite(b, val)
        if not alg_equal(ra, rb):
            w = {f"{k}:{e}": v for (k, e), v in val.items()}
            return False, {"case": w, "code": str(ra)[:300], "spec": str(rb)[:300]}
    return True, None


ANNOTATION_SOURCE: dict = {}     # function name -> reference FunctionDef whose annotations type un-annotated copies


def make_args(fn: ast.FunctionDef, arrays=(), funcs=None, scalars_real=True, overrides=None):
    """default symbolic bindings for the parameters of a kernel function"""
    args = {}
    funcs = funcs or {}
    overrides = overrides or {}
    ref = ANNOTATION_SOURCE.get(fn.name)
    refann = {a.arg: a.annotation for a in ref.args.args} if ref is not None else {}
    for a in fn.args.args:
        n = a.arg
        if n in overrides:
            args[n] = overrides[n]
            continue
        an = a.annotation if a.annotation is not None else refann.get(n)
        ann = src(an) if an is not None else ""
        if n in funcs:
            args[n] = funcs[n]
        elif n in arrays or "[" in ann:
            args[n] = Arr(n)
        elif "int" in ann or "bool" in ann:
            args[n] = Symbol(n, integer=True)
        else:
            args[n] = Symbol(n, real=True)
    return args
