"""C16 - density is the velocity integral of the interpolated distribution."""
from __future__ import annotations

import ast

import sympy as sp
from sympy import Symbol, Integer

from ..core import src, AnalysisError
from .. import units as U
from ..symx import SymExec, make_args, Undecided, alg_equal, sym_equal, Arr
from ..kernels import SPLINE_HANDLERS, FEQ
from .. import agree, lints
from .C05 import density as density_index_spaces, orders
from .. import ispace as I


def merge_partial_views(fn0):
    """copy of the kernel in which a hoisted view `v = A[i, j]` of an array parameter (v assigned once, used only as `v[...]`
    inside the block that defines it) is written back at its uses as `A[i, j, ...]`: basic indexing of an ndarray with fewer
    indices than dimensions yields a view, and indexing the view completes the index tuple"""
    import copy
    fn = copy.deepcopy(fn0)
    params = {a.arg for a in fn.args.args}
    par = {}
    for n in ast.walk(fn):
        for c in ast.iter_child_nodes(n):
            par[c] = n
    stores = {}
    for n in ast.walk(fn):
        if isinstance(n, ast.Name) and isinstance(n.ctx, (ast.Store, ast.Del)):
            stores[n.id] = stores.get(n.id, 0) + 1
    done = True
    while done:
        done = False
        for blk in [getattr(n, f) for n in ast.walk(fn) for f in ("body", "orelse") if isinstance(getattr(n, f, None), list)]:
            for k, st in enumerate(blk):
                if not (isinstance(st, ast.Assign) and len(st.targets) == 1 and isinstance(st.targets[0], ast.Name)
                        and isinstance(st.value, ast.Subscript) and isinstance(st.value.value, ast.Name)
                        and st.value.value.id in params and stores.get(st.targets[0].id) == 1):
                    continue
                v = st.targets[0].id
                head = st.value.slice.elts if isinstance(st.value.slice, ast.Tuple) else [st.value.slice]
                if any(isinstance(x, (ast.Slice, ast.Starred)) for x in head) or \
                        not all(isinstance(x, (ast.Name, ast.Constant)) for x in head):
                    continue
                uses = [n for n in ast.walk(fn) if isinstance(n, ast.Name) and n.id == v and n is not st.targets[0]]
                later = {id(n) for s2 in blk[k + 1:] for n in ast.walk(s2)}
                # index variables must keep their value between the definition and the uses: not re-bound in the later statements
                rebound = {n.id for s2 in blk[k + 1:] for n in ast.walk(s2) if isinstance(n, ast.Name) and isinstance(n.ctx, ast.Store)}
                if not uses or not all(id(u) in later and isinstance(par.get(u), ast.Subscript) and par[u].value is u for u in uses) or \
                        any(isinstance(x, ast.Name) and x.id in rebound for x in head) or st.value.value.id in rebound:
                    continue
                for u in uses:
                    sub = par[u]
                    tail = sub.slice.elts if isinstance(sub.slice, ast.Tuple) else [sub.slice]
                    sub.value = ast.Name(id=st.value.value.id, ctx=ast.Load())
                    sub.slice = ast.Tuple(elts=[copy.deepcopy(x) for x in head] + list(tail), ctx=ast.Load())
                    par[sub.value] = sub
                    par[sub.slice] = sub
                del blk[k]
                done = True
                break
            if done:
                break
    return ast.fix_missing_locations(fn)


def _resolved(fn, e, depth=4):
    """expression with a plain local name replaced by its single definition in fn (a temporary), repeatedly"""
    while isinstance(e, ast.Name) and depth > 0:
        d_ = [n for n in ast.walk(fn) if isinstance(n, ast.Assign) and len(n.targets) == 1 and isinstance(n.targets[0], ast.Name)
              and n.targets[0].id == e.id]
        if len(d_) != 1:
            break
        e, depth = d_[0].value, depth - 1
    return e


_NP_ALLOC = {"empty", "zeros", "ones", "full", "array", "asarray", "empty_like", "zeros_like", "ones_like", "full_like", "arange",
             "linspace", "copy", "ascontiguousarray"}


def _basis_integrals_are_arrays(chk, method):
    """Is `self._basis.integrals`, read in a method of the interpolator class, a numpy array?  -> (True / None, how)
    Established (never guessed) from: (1) every store to `self._basis` in the class of `method` takes a parameter that the same function
    asserts / annotates to be a `BSplines`, the class imported from the spline module; (2) `BSplines.integrals` is a property without
    setter returning `self.<a>` (or the attribute itself); (3) every store to `self.<a>` in BSplines is None (slicing it raises, so the
    flow does not get to an in-place update) or the result of a numpy allocation; (4) no class of the spline module derives from it."""
    try:
        imod = chk.mod(U.INTERP)
        icls = next((c for c in ast.walk(imod.tree) if isinstance(c, ast.ClassDef) and any(x is method for x in ast.walk(c))), None)
        if icls is None:
            return None, "the class of the method was not found"
        if not any(isinstance(n, ast.ImportFrom) and (n.module or "").split(".")[-1] == "splines" and
                   any(a.name == "BSplines" and a.asname in (None, "BSplines") for a in n.names) for n in imod.tree.body):
            return None, "`BSplines` is not imported from the spline module"
        stores = 0
        for f_ in [n for n in ast.walk(icls) if isinstance(n, ast.FunctionDef)]:
            for st in ast.walk(f_):
                tg = st.targets if isinstance(st, ast.Assign) else [st.target] if isinstance(st, (ast.AnnAssign, ast.AugAssign)) else []
                flat = [y for t in tg for y in (ast.walk(t) if isinstance(t, (ast.Tuple, ast.List)) else [t])]
                if not any(isinstance(t, ast.Attribute) and src(t) == "self._basis" for t in flat):
                    continue
                v = getattr(st, "value", None)
                if not (isinstance(st, ast.Assign) and len(tg) == 1 and isinstance(v, ast.Name) and v.id in {a.arg for a in f_.args.args}):
                    return None, f"`{src(st)[:50]}`: what the basis of the interpolator is was not followed"
                ann = next((a.annotation for a in f_.args.args if a.arg == v.id), None)
                asserted = any(isinstance(s_, ast.Assert) and isinstance(s_.test, ast.Call) and src(s_.test.func) == "isinstance"
                               and len(s_.test.args) == 2 and src(s_.test.args[0]) == v.id and src(s_.test.args[1]) == "BSplines"
                               and s_.lineno < st.lineno for s_ in f_.body)
                if not (asserted or (ann is not None and src(ann) == "BSplines")):
                    return None, f"`{v.id}` is not asserted / annotated to be a BSplines"
                if any(isinstance(n, ast.Name) and n.id == v.id and isinstance(n.ctx, ast.Store) for n in ast.walk(f_)):
                    return None, f"`{v.id}` is rebound in {f_.name}"
                stores += 1
        if not stores:
            return None, "no store to `self._basis` in the interpolator class"
        smod = chk.mod(U.SPLINES)
        scls = smod.cls("BSplines")
        if any(isinstance(c, ast.ClassDef) and c is not scls and any("BSplines" in src(b_) for b_ in c.bases) for c in ast.walk(smod.tree)):
            return None, "a class derives from BSplines: which `integrals` is read was not followed"
        attr = "integrals"
        props = [n for n in scls.body if isinstance(n, ast.FunctionDef) and n.name == "integrals"]
        if props:
            body = [s_ for s_ in props[0].body if not (isinstance(s_, ast.Expr) and isinstance(s_.value, ast.Constant))]
            if len(props) != 1 or [src(d) for d in props[0].decorator_list] != ["property"] or len(body) != 1 or \
                    not (isinstance(body[0], ast.Return) and isinstance(body[0].value, ast.Attribute) and src(body[0].value.value) == "self"):
                return None, "`BSplines.integrals` is not a plain read-only property returning a stored attribute"
            attr = body[0].value.attr
        kinds = []
        for st in ast.walk(scls):
            tg = st.targets if isinstance(st, ast.Assign) else [st.target] if isinstance(st, (ast.AnnAssign, ast.AugAssign)) else []
            flat = [y for t in tg for y in (ast.walk(t) if isinstance(t, (ast.Tuple, ast.List)) else [t])]
            if not any(isinstance(t, ast.Attribute) and src(t) == f"self.{attr}" for t in flat):
                continue
            v = getattr(st, "value", None)
            if isinstance(st, ast.Assign) and all(isinstance(t, ast.Attribute) for t in tg) and isinstance(v, ast.Constant) and v.value is None:
                continue
            if isinstance(st, ast.Assign) and all(isinstance(t, ast.Attribute) for t in tg) and isinstance(v, ast.Call) and \
                    isinstance(v.func, ast.Attribute) and src(v.func.value) in ("np", "numpy") and v.func.attr in _NP_ALLOC:
                kinds.append(f"np.{v.func.attr}")
                continue
            return None, f"`{src(st)[:50]}` in BSplines: what is stored was not followed"
        if not kinds:
            return None, f"no allocation of `self.{attr}` found in BSplines"
        return True, (f"the basis of the interpolator is a BSplines and BSplines.integrals is `self.{attr}`, "
                      f"a numpy array ({', '.join(sorted(set(kinds)))})")
    except (AnalysisError, KeyError, StopIteration) as e:
        return None, f"not followed ({e})"


# ------------------------------------------------------------------ whole-array (vectorised) kernels
class Nd:
    """whole-array value seen through its generic element: f(index tuple) -> element; ext[k] = extent of axis k (1 for an axis
    made by np.newaxis, which broadcasts)"""

    def __init__(self, f, ext, acc=None):
        self.f, self.ext = f, list(ext)
        self.acc = acc          # (root Nd, delta Nd): this value is root + delta, obtained by `+=` / `-=` statements only

    @property
    def rank(self):
        return len(self.ext)


class PartialOut(Exception):
    pass


def _array_ranks(mod_tree, fn):
    """rank and 'may be complex' of each array parameter from the annotations ('float[:,:]', a TypeVar of such strings)"""
    tv = {}
    for st in mod_tree.body:
        if isinstance(st, ast.Assign) and isinstance(st.value, ast.Call) and src(st.value.func).endswith("TypeVar"):
            cons = [a.value for a in st.value.args[1:] if isinstance(a, ast.Constant) and isinstance(a.value, str)]
            for t in st.targets:
                if isinstance(t, ast.Name):
                    tv[t.id] = cons
    out = {}
    for a in fn.args.args:
        an = a.annotation
        texts = []
        if isinstance(an, ast.Constant) and isinstance(an.value, str):
            texts = [an.value]
        elif isinstance(an, ast.Name) and an.id in tv:
            texts = tv[an.id]
        ranks = {t.count(":") for t in texts if "[" in t}
        if len(ranks) == 1:
            out[a.arg] = (ranks.pop(), any("complex" in t for t in texts))
    return out


class VecKernel:
    """element-wise reading of a loop-free kernel written with whole-array numpy operations (broadcasting, einsum, dot/matmul/
    tensordot with the last axis, sum over an axis, out=).  Nothing is executed: every array is its generic element, a
    contraction is a symbolic Sum.  What is outside this fragment raises Undecided."""

    def __init__(self, fn, ranks):
        self.fn = fn
        self.env = {}
        self.ranks = ranks
        for n_, (r, cplx) in ranks.items():
            fnc = sp.Function(n_)
            self.env[n_] = Nd((lambda ix, fnc=fnc: fnc(*ix)), [Symbol(f"n{k}_{n_}", integer=True, positive=True) for k in range(r)])
        for a in fn.args.args:
            if a.arg not in self.env:
                self.env[a.arg] = Symbol(a.arg, real=True)
        self.written = {}       # array parameter -> (Nd, part) ; part None = the whole array, 'real' / 'imag' = that part only
        self.nsum = 0
        self.loops = []         # (symbol, extent) of the enclosing `for x in range(extent)` loops
        self.rows = {}          # array parameter -> {key: Nd}: views written point-wise in loops; key[k] = loop symbol | None (whole axis)

    # -- helpers
    def dummy(self):
        self.nsum += 1
        return Symbol("l" if self.nsum == 1 else f"l{self.nsum}", integer=True)

    def bcast(self, vals):
        nds = [v for v in vals if isinstance(v, Nd)]
        R = max(v.rank for v in nds)
        ext = []
        for k in range(R):
            e_k = Integer1
            for v in nds:
                kk = k - (R - v.rank)
                if kk >= 0 and v.ext[kk] != 1:
                    e_k = v.ext[kk]
                    break
            ext.append(e_k)
        return R, ext

    def elem(self, v, ix, R):
        if not isinstance(v, Nd):
            return v
        sub = ix[R - v.rank:]
        return v.f(tuple(sp.Integer(0) if v.ext[k] == 1 else sub[k] for k in range(v.rank)))

    def lift(self, vals, op):
        if not any(isinstance(v, Nd) for v in vals):
            return op(*vals)
        R, ext = self.bcast(vals)
        return Nd((lambda ix, vals=vals, R=R: op(*[self.elem(v, ix, R) for v in vals])), ext)

    def contract(self, a, ax_a, b, ax_b):
        """sum over axis ax_a of a and ax_b of b; result axes: the other axes of a, then the other axes of b"""
        l = self.dummy()
        n = a.ext[ax_a] if a.ext[ax_a] != 1 else b.ext[ax_b]
        ra, rb = a.rank - 1, b.rank - 1

        def f(ix, a=a, b=b, l=l, n=n):
            ia = list(ix[:ra])
            ia.insert(ax_a, l)
            ib = list(ix[ra:ra + rb])
            ib.insert(ax_b, l)
            return sp.Sum(a.f(tuple(ia)) * b.f(tuple(ib)), (l, 0, n - 1))
        return Nd(f, [e for k, e in enumerate(a.ext) if k != ax_a] + [e for k, e in enumerate(b.ext) if k != ax_b])

    def axis_of(self, node, rank):
        if isinstance(node, ast.UnaryOp) and isinstance(node.op, ast.USub) and isinstance(node.operand, ast.Constant):
            return rank - node.operand.value
        if isinstance(node, ast.Constant) and isinstance(node.value, int):
            return node.value if node.value >= 0 else rank + node.value
        raise Undecided(f"axis `{src(node)}`")

    # -- expressions
    def ev(self, e):
        if isinstance(e, ast.Constant):
            if e.value is None:
                return None
            if isinstance(e.value, (int, float)) and not isinstance(e.value, bool):
                return sp.Integer(e.value) if isinstance(e.value, int) else sp.Rational(repr(e.value))
            raise Undecided(f"constant {e.value!r}")
        if isinstance(e, ast.Name):
            if e.id in self.env:
                return self.env[e.id]
            raise Undecided(f"unknown name `{e.id}`")
        if isinstance(e, ast.Attribute):
            if src(e) in ("np.newaxis", "numpy.newaxis"):
                return None
            if e.attr in ("real", "imag") and isinstance(e.value, ast.Name) and e.value.id in self.ranks:
                if self.ranks[e.value.id][1]:
                    raise Undecided(f"`{src(e)}` of a possibly complex array")
                if e.attr == "real":
                    return self.env[e.value.id]
            if e.attr == "T":
                v = self.ev(e.value)
                if isinstance(v, Nd):
                    return Nd((lambda ix, v=v: v.f(tuple(reversed(ix)))), list(reversed(v.ext)))
            if e.attr == "shape":
                v = self.ev(e.value)
                if isinstance(v, Nd):
                    return tuple(v.ext)
            raise Undecided(f"attribute `{src(e)[:40]}`")
        if isinstance(e, ast.Tuple):
            return tuple(self.ev(x) for x in e.elts)
        if isinstance(e, ast.UnaryOp) and isinstance(e.op, (ast.USub, ast.UAdd)):
            v = self.ev(e.operand)
            return self.lift([v], (lambda x: -x)) if isinstance(e.op, ast.USub) else v
        if isinstance(e, ast.BinOp):
            a, b = self.ev(e.left), self.ev(e.right)
            if isinstance(e.op, ast.MatMult):
                return self.matmul(a, b)
            ops = {ast.Add: lambda x, y: x + y, ast.Sub: lambda x, y: x - y, ast.Mult: lambda x, y: x * y, ast.Div: lambda x, y: x / y}
            if type(e.op) not in ops or a is None or b is None or isinstance(a, tuple) or isinstance(b, tuple):
                raise Undecided(f"operator in `{src(e)[:40]}`")
            return self.lift([a, b], ops[type(e.op)])
        if isinstance(e, ast.Subscript):
            if isinstance(e.value, ast.Name) and self.rows.get(e.value.id):
                key = self.key_of(e, e.value.id)
                if key in self.rows[e.value.id]:
                    return self.rows[e.value.id][key]
                raise Undecided(f"`{src(e)[:40]}` read while other parts of `{e.value.id}` are being written in a loop")
            base = self.ev(e.value)
            if isinstance(base, tuple):
                i = self.ev(e.slice)
                if getattr(i, "is_Integer", False):
                    return base[int(i)]
            if not isinstance(base, Nd):
                raise Undecided(f"subscript `{src(e)[:40]}`")
            items = list(e.slice.elts) if isinstance(e.slice, ast.Tuple) else [e.slice]
            n_real = sum(1 for x in items if not (isinstance(x, ast.Constant) and x.value in (None, Ellipsis)) and src(x) not in ("np.newaxis", "numpy.newaxis"))
            exp = []
            for x in items:
                if isinstance(x, ast.Constant) and x.value is Ellipsis:
                    exp.extend(["full"] * (base.rank - n_real))
                elif (isinstance(x, ast.Constant) and x.value is None) or src(x) in ("np.newaxis", "numpy.newaxis"):
                    exp.append("new")
                elif isinstance(x, ast.Slice):
                    if x.lower is not None or x.upper is not None or x.step is not None:
                        raise Undecided(f"partial slice in `{src(e)[:40]}`")
                    exp.append("full")
                else:
                    v = self.ev(x)
                    if isinstance(v, Nd) or v is None or isinstance(v, tuple):
                        raise Undecided(f"index `{src(x)[:30]}`")
                    exp.append(("at", v))
            exp.extend(["full"] * (base.rank - sum(1 for x in exp if x != "new")))
            if sum(1 for x in exp if x != "new") != base.rank:
                raise Undecided(f"too many indices in `{src(e)[:40]}`")
            ext, k = [], 0
            for x in exp:
                if x == "new":
                    ext.append(1)
                elif x == "full":
                    ext.append(base.ext[k])
                    k += 1
                else:
                    k += 1

            def f(ix, base=base, exp=exp):
                out, j = [], 0
                for x in exp:
                    if x == "new":
                        j += 1
                    elif x == "full":
                        out.append(ix[j])
                        j += 1
                    else:
                        out.append(x[1])
                return base.f(tuple(out))
            if not ext:
                return f(())
            return Nd(f, ext)
        if isinstance(e, ast.Call):
            return self.call(e)
        raise Undecided(f"expression `{src(e)[:40]}`")

    def matmul(self, a, b):
        if not (isinstance(a, Nd) and isinstance(b, Nd)):
            raise Undecided("matrix product of non-arrays")
        if b.rank == 1:
            return self.contract(a, a.rank - 1, b, 0)
        if b.rank == 2 and a.rank <= 2:
            return self.contract(a, a.rank - 1, b, 0)
        raise Undecided("matrix product of stacked matrices")

    def call(self, e):
        f = src(e.func)
        name = f.split(".")[-1]
        kws = {k.arg: k.value for k in e.keywords}
        out = kws.pop("out", None)
        is_np = f.startswith(("np.", "numpy."))
        res = None
        if is_np and name == "einsum" and e.args and isinstance(e.args[0], ast.Constant) and isinstance(e.args[0].value, str):
            spec = e.args[0].value.replace(" ", "")
            if "->" not in spec or "." in spec:
                raise Undecided(f"einsum subscripts `{spec}`")
            ins, outl = spec.split("->")
            ins = ins.split(",")
            ops = [self.ev(a) for a in e.args[1:]]
            if len(ins) != len(ops) or not all(isinstance(o, Nd) and o.rank == len(t) for o, t in zip(ops, ins)) or \
                    any(len(set(t)) != len(t) for t in ins + [outl]):
                raise Undecided(f"einsum operands do not fit `{spec}`")
            summed = [c for c in dict.fromkeys("".join(ins)) if c not in outl]
            extent = {}
            for o, t in zip(ops, ins):
                for k, c in enumerate(t):
                    if o.ext[k] != 1 and c not in extent:
                        extent[c] = o.ext[k]
            dums = {c: self.dummy() for c in summed}

            def g(ix, ops=ops, ins=ins, outl=outl, dums=dums, extent=extent):
                val = dict(zip(outl, ix))
                val.update(dums)
                term = sp.Integer(1)
                for o, t in zip(ops, ins):
                    term = term * o.f(tuple(sp.Integer(0) if o.ext[k] == 1 else val[c] for k, c in enumerate(t)))
                for c, d in dums.items():
                    term = sp.Sum(term, (d, 0, extent[c] - 1))
                return term
            res = Nd(g, [extent.get(c, 1) for c in outl])
        elif is_np and name in ("dot", "matmul") and len(e.args) == 2:
            res = self.matmul(self.ev(e.args[0]), self.ev(e.args[1]))
        elif is_np and name == "tensordot" and len(e.args) >= 2:
            a, b = self.ev(e.args[0]), self.ev(e.args[1])
            ax = kws.get("axes", e.args[2] if len(e.args) > 2 else None)
            if not (isinstance(a, Nd) and isinstance(b, Nd)) or ax is None:
                raise Undecided("tensordot")
            if isinstance(ax, ast.Constant) and ax.value == 1:
                res = self.contract(a, a.rank - 1, b, 0)
            elif isinstance(ax, (ast.Tuple, ast.List)) and len(ax.elts) == 2:
                pa, pb = [x.elts[0] if isinstance(x, (ast.Tuple, ast.List)) and len(x.elts) == 1 else x for x in ax.elts]
                res = self.contract(a, self.axis_of(pa, a.rank), b, self.axis_of(pb, b.rank))
            else:
                raise Undecided("tensordot axes")
        elif name == "sum" and (is_np or isinstance(e.func, ast.Attribute)):
            a = self.ev(e.args[0]) if is_np else self.ev(e.func.value)
            rest = e.args[1:] if is_np else e.args
            axn = kws.get("axis", rest[0] if rest else None)
            if not isinstance(a, Nd) or axn is None:
                raise Undecided("sum without an axis")
            ax = self.axis_of(axn, a.rank)
            l = self.dummy()
            n = a.ext[ax]

            def g(ix, a=a, ax=ax, l=l, n=n):
                ia = list(ix)
                ia.insert(ax, l)
                return sp.Sum(a.f(tuple(ia)), (l, 0, n - 1))
            res = Nd(g, [x for k, x in enumerate(a.ext) if k != ax])
        elif is_np and name in ("multiply", "subtract", "add") and len(e.args) == 2:
            op = {"multiply": lambda x, y: x * y, "subtract": lambda x, y: x - y, "add": lambda x, y: x + y}[name]
            res = self.lift([self.ev(e.args[0]), self.ev(e.args[1])], op)
        elif is_np and name in ("asarray", "ascontiguousarray", "real", "array", "copy") and len(e.args) == 1:
            res = self.ev(e.args[0])
        elif is_np and name in ("zeros_like", "zeros") and e.args:
            shp = self.ev(e.args[0])
            ext = shp.ext if isinstance(shp, Nd) else list(shp) if isinstance(shp, tuple) else None
            if ext is None:
                raise Undecided("zeros shape")
            res = Nd((lambda ix: sp.Integer(0)), ext)
        elif name == "copy" and isinstance(e.func, ast.Attribute) and not e.args:
            res = self.ev(e.func.value)
        else:
            raise Undecided(f"call `{src(e)[:50]}`")
        if out is not None:
            self.store(out, res)
        return res

    # -- stores
    def key_of(self, t, name):
        """per-axis pattern of a subscript of array `name`: a loop symbol (the axis is addressed point-wise by that loop) or None (the
        whole axis); Undecided for anything else"""
        items = list(t.slice.elts) if isinstance(t.slice, ast.Tuple) else [t.slice]
        rank = self.ranks[name][0]
        syms = {s_ for s_, _ in self.loops}
        key = []
        for x in items:
            if isinstance(x, ast.Constant) and x.value is Ellipsis:
                key.extend([None] * (rank - (len(items) - 1)))
            elif isinstance(x, ast.Slice):
                if x.lower is not None or x.upper is not None or x.step is not None:
                    raise Undecided(f"store into part of an array `{src(t)[:40]}`")
                key.append(None)
            else:
                v = self.ev(x)
                if v not in syms:
                    raise Undecided(f"index `{src(x)[:30]}` of `{src(t)[:40]}` is not the variable of an enclosing loop")
                key.append(v)
        key.extend([None] * (rank - len(key)))
        if len(key) != rank or len({k for k in key if k is not None}) != len([k for k in key if k is not None]):
            raise Undecided(f"index pattern of `{src(t)[:40]}`")
        return tuple(key)

    def target_array(self, t):
        """(array parameter, part, key) of a store target: the whole array, one part (real / imag) of a complex one, or the view
        addressed by loop variables"""
        part, key = None, None
        if isinstance(t, ast.Subscript):
            inner = t.value
            if isinstance(inner, ast.Attribute) and inner.attr in ("real", "imag") and isinstance(inner.value, ast.Name):
                part, name_node = inner.attr, inner.value
            else:
                name_node = inner
            if not (isinstance(name_node, ast.Name) and name_node.id in self.ranks):
                raise Undecided(f"store target `{src(t)[:40]}`")
            key = self.key_of(t, name_node.id)
            t = name_node
        elif isinstance(t, ast.Attribute) and t.attr in ("real", "imag") and isinstance(t.value, ast.Name):
            part, t = t.attr, t.value
        if isinstance(t, ast.Name) and t.id in self.ranks:
            if part is not None and not self.ranks[t.id][1]:
                part = None if part == "real" else part
            if key is not None and all(k is None for k in key):
                key = None
            return t.id, part, key
        raise Undecided(f"store target `{src(t)[:40]}`")

    def view(self, name, key):
        """current content of the view `key` of array `name`"""
        if key in self.rows.get(name, {}):
            return self.rows[name][key]
        if self.rows.get(name):
            raise Undecided(f"a view of `{name}` is read while other views of it are being written in a loop")
        whole = self.env[name]
        return Nd((lambda ix, whole=whole, key=key: whole.f(self.full_index(key, ix))), [e for k, e in zip(key, whole.ext) if k is None])

    @staticmethod
    def full_index(key, ix):
        out, j = [], 0
        for k in key:
            if k is None:
                out.append(ix[j])
                j += 1
            else:
                out.append(k)
        return tuple(out)

    def store(self, t, val, acc=None):
        name, part, key = self.target_array(t)
        if not isinstance(val, Nd):
            val = Nd((lambda ix, val=val: val), [])
        if key is not None:
            if part is not None:
                raise Undecided(f"store into one part of a view `{src(t)[:40]}`")
            free = [e for k, e in zip(key, self.env[name].ext) if k is None]
            R = len(free)
            if val.rank > R:
                raise Undecided(f"value of rank {val.rank} stored into `{src(t)[:40]}`")
            self.rows.setdefault(name, {})[key] = Nd((lambda ix, val=val, R=R: self.elem(val, ix, R)), free, acc=acc)
            return
        if self.rows.get(name):
            raise Undecided(f"`{name}` is stored as a whole while views of it are being written in a loop")
        self.written[name] = (val, part)
        if part is None:
            old = self.env[name]
            R = old.rank
            self.env[name] = Nd((lambda ix, val=val, R=R: self.elem(val, ix, R)), old.ext, acc=acc)

    def run(self):
        self.block(self.fn.body)
        for name, views in self.rows.items():
            if views:
                raise Undecided(f"views {list(views)} of `{name}` written in loops do not cover the array")
        return self

    def loop(self, st):
        it = st.iter
        if not (isinstance(st.target, ast.Name) and isinstance(it, ast.Call) and src(it.func) == "range" and len(it.args) == 1
                and not it.keywords and not st.orelse):
            raise Undecided(f"loop `for {src(st.target)} in {src(it)[:40]}`")
        N = self.ev(it.args[0])
        if not isinstance(N, sp.Basic):
            raise Undecided(f"loop bound `{src(it.args[0])}`")
        x = Symbol(st.target.id, integer=True)
        if any(x == s_ for s_, _ in self.loops):
            raise Undecided("nested loops over one name")
        before_env = {n_: self.env[n_] for n_ in self.ranks}
        before_rows = {n_: dict(v) for n_, v in self.rows.items()}
        self.loops.append((x, N))
        saved = self.env.get(st.target.id)
        self.env[st.target.id] = x
        try:
            self.block(st.body)
        finally:
            self.loops.pop()
            if saved is None:
                self.env.pop(st.target.id, None)
            else:
                self.env[st.target.id] = saved

        def close(after, before, what):
            """value after all passes of the loop over x, given the value after one pass (x symbolic) and the value before it"""
            if after is before:
                return after
            if after.acc is not None and after.acc[0] is before:
                delta = after.acc[1]
                R = after.rank

                def f(ix, before=before, delta=delta, R=R):
                    d = sp.expand(self.elem(delta, ix, R))
                    return before.f(ix) + (sp.Sum(d, (x, 0, N - 1)) if x in d.free_symbols else N * d)
                return Nd(f, after.ext, acc=None)
            probe = after.f(tuple(Symbol(f"_p{k}", integer=True) for k in range(after.rank)))
            if x in getattr(probe, "free_symbols", set()):
                raise Undecided(f"{what} is overwritten in every pass of the loop over `{x}` with a value that depends on `{x}`")
            return after
        for n_ in self.ranks:
            if self.env[n_] is not before_env[n_]:
                self.env[n_] = close(self.env[n_], before_env[n_], f"`{n_}`")
                if n_ in self.written:
                    self.written[n_] = (self.env[n_], self.written[n_][1])
        for n_, views in list(self.rows.items()):
            new_views = {}
            for key, v in views.items():
                if x not in key:
                    b_ = before_rows.get(n_, {}).get(key)
                    if b_ is None:
                        if v.acc is not None:
                            raise Undecided(f"a view of `{n_}` is accumulated in the loop over `{x}` without a value before the loop")
                        probe = v.f(tuple(Symbol(f"_p{k}", integer=True) for k in range(v.rank)))
                        if x in getattr(probe, "free_symbols", set()):
                            raise Undecided(f"a view of `{n_}` is overwritten in every pass of the loop over `{x}`")
                        new_views[key] = v
                    else:
                        new_views[key] = close(v, b_, f"a view of `{n_}`")
                    continue
                # written point-wise by this loop: covers the axis when the loop runs over its whole extent
                ax = key.index(x)
                ext = self.env[n_].ext[ax]
                dN = sp.simplify(N - ext)
                if dN.is_number and dN < 0:
                    raise PartialOut(f"the loop over `{x}` that stores into `{n_}` runs over range({N}) but axis {ax} of `{n_}` has {ext} "
                                     f"entries: the last {-dN} of them are never written and keep whatever the array held before the call")
                if dN != 0:
                    raise Undecided(f"the loop over `{x}` runs to {N} but axis {ax} of `{n_}` has {ext} entries")
                nk = tuple(None if k == x else k for k in key)
                pos = sum(1 for k in nk[:ax] if k is None)

                def g(ix, v=v, pos=pos):
                    inner = ix[:pos] + ix[pos + 1:]
                    return v.f(tuple(inner)).subs(x, ix[pos]) if hasattr(v.f(tuple(inner)), "subs") else v.f(tuple(inner))
                nv = Nd(g, [e_ for k, e_ in zip(nk, self.env[n_].ext) if k is None])
                if nk in new_views:
                    raise Undecided(f"two views of `{n_}` coincide after the loop over `{x}`")
                new_views[nk] = nv
            self.rows[n_] = new_views
            whole = tuple([None] * self.ranks[n_][0])
            if whole in new_views and len(new_views) == 1 and not self.loops:
                v = new_views.pop(whole)
                self.env[n_] = v
                self.written[n_] = (v, None)

    def block(self, stmts):
        for st in stmts:
            if isinstance(st, ast.Expr) and isinstance(st.value, ast.Constant):
                continue
            if isinstance(st, (ast.Import, ast.ImportFrom, ast.Pass, ast.Assert)):
                continue
            if isinstance(st, ast.For):
                self.loop(st)
            elif isinstance(st, ast.Expr) and isinstance(st.value, ast.Call):
                self.call(st.value)
            elif isinstance(st, ast.Assign) and len(st.targets) == 1:
                t = st.targets[0]
                v = self.ev(st.value)
                if isinstance(t, ast.Name) and t.id not in self.ranks:
                    if self.loops and isinstance(v, Nd):
                        pass
                    self.env[t.id] = v
                elif isinstance(t, ast.Tuple) and isinstance(v, tuple) and len(v) == len(t.elts) and all(isinstance(x, ast.Name) for x in t.elts):
                    for x, y in zip(t.elts, v):
                        self.env[x.id] = y
                elif isinstance(t, (ast.Subscript, ast.Attribute)):
                    self.store(t, v)
                else:
                    raise Undecided(f"assignment `{src(st)[:50]}`")
            elif isinstance(st, ast.AugAssign) and isinstance(st.op, (ast.Add, ast.Sub, ast.Mult)):
                v = self.ev(st.value)
                tgt = st.target
                scalar = isinstance(tgt, ast.Name) and tgt.id not in self.ranks
                if scalar:
                    if tgt.id not in self.env:
                        raise Undecided(f"`{src(st)[:40]}` updates an unknown name")
                    if self.loops:
                        raise Undecided(f"scalar `{tgt.id}` carried through a loop")
                    cur = self.env[tgt.id]
                else:
                    name, part, key = self.target_array(tgt)
                    if part is not None:
                        raise Undecided(f"update of one part `{src(st)[:40]}`")
                    cur = self.env[name] if key is None else self.view(name, key)
                op = {ast.Add: lambda x, y: x + y, ast.Sub: lambda x, y: x - y, ast.Mult: lambda x, y: x * y}[type(st.op)]
                new = self.lift([cur, v], op)
                if scalar:
                    self.env[tgt.id] = new
                    continue
                acc = None
                if isinstance(st.op, (ast.Add, ast.Sub)) and isinstance(cur, Nd):
                    sign = 1 if isinstance(st.op, ast.Add) else -1
                    dv = v if sign == 1 else self.lift([v], lambda y: -y)
                    if cur.acc is not None:
                        acc = (cur.acc[0], self.lift([cur.acc[1], dv], lambda a_, b_: a_ + b_))
                    else:
                        acc = (cur, dv)
                self.store(tgt, new, acc=acc)
            else:
                raise Undecided(f"statement `{src(st)[:50]}`")


Integer1 = 1


def vectorised_formula(chk, rel, fn0, name, perturbed):
    """second reading of a kernel the loop interpreter cannot follow: the whole-array fragment. -> True when an obligation was made"""
    ranks = _array_ranks(chk.mod(rel).tree, fn0)
    R = kernel_roles(ranks)
    if R["rho"] not in ranks or any(isinstance(n, ast.While) for n in ast.walk(fn0)):
        return False
    vk = VecKernel(fn0, ranks)
    label = "rho[i,j,k] = sum_l w_l (f[i,j,k,l]" + (" - f_eq[i,l])" if perturbed else ")")
    try:
        vk.run()                       # Undecided propagates to the caller
    except PartialOut as e:
        chk.ob("F3-density-sum", fn0, label, False, f"{e}: rho is not the velocity integral there", file=rel, func=name)
        return True
    if R["rho"] not in vk.written:
        raise Undecided("no store into the whole of `rho` found")
    val, part = vk.written[R["rho"]]
    i, j, k, l = (Symbol(n, integer=True) for n in "ijkl")
    # the generic element is taken at index symbols that no loop variable of the kernel can be called
    probes = tuple(Symbol(f"_p{n}", integer=True) for n in range(3))
    got = vk.elem(val, probes, 3) if val.rank <= 3 else None
    if got is None:
        raise Undecided("rank of the stored value")
    got = sp.sympify(got)
    nc = Symbol(f"n0_{R['quad_coeffs']}", integer=True, positive=True)
    # the extents of the contracted axes are equal by the kernels' contract (index-space rules of C05): one name for them
    got = got.subs({Symbol(f"n3_{R['grid']}", integer=True, positive=True): nc, Symbol(f"n1_{R['feq']}", integer=True, positive=True): nc})
    q, g, fe = sp.Function(R["quad_coeffs"]), sp.Function(R["grid"]), sp.Function(R["feq"])
    row, coff = (i, sp.Integer(0))
    spec = None
    # one name for the summation variables of sums over the same range (a difference of two contractions is one contraction)
    sums = list(got.atoms(sp.Sum))
    nested = any(s_.function.has(sp.Sum) for s_ in sums)
    if not nested:
        got = got.xreplace({s_: sp.Sum(s_.function.subs(s_.limits[0][0], l), (l,) + tuple(s_.limits[0][1:])) for s_ in sums
                            if len(s_.limits) == 1})
    stray = got.free_symbols & {s_ for s_ in (i, j, k)}
    if stray:
        raise Undecided(f"variables {sorted(map(str, stray))} of the kernel's loops remain in the stored value")
    got = got.subs(dict(zip(probes, (i, j, k))), simultaneous=True)
    if perturbed:
        row, coff = _row_of_equilibrium(got, fe, i, (j, k, l))
        KERNEL_ROW_OFFSET[name] = coff
    term = q(l) * (g(i, j, k, l) - (fe(row, l) if perturbed else 0))
    spec = sp.Sum(term, (l, 0, nc - 1))
    ok = alg_equal(got, spec)
    if perturbed:
        KERNEL_FEQ_ORIENT[name] = "rv"
    if perturbed and ok and part is None and feq_rv_against_caller(chk, name, rel, fn0, got, spec, "rho[i,j,k] = sum_l w_l (f[i,j,k,l] - f_eq[i,l])"):
        return True
    if perturbed and not ok and part is None and not nested:
        lab_ = "rho[i,j,k] = sum_l w_l (f[i,j,k,l] - f_eq[i,l])"
        if feq_orientation_verdict(chk, name, rel, fn0, got, lambda o: sp.Sum(q(l) * (g(i, j, k, l) - fe(l, i)), (l, 0, nc - 1)), lab_, R):
            return True
    if not ok and (nested or len({s_.limits for s_ in got.atoms(sp.Sum)}) > 1):
        raise Undecided(f"whole-array formula {str(got)[:120]} is not in a comparable form")
    label = "rho[i,j,k] = sum_l w_l (f[i,j,k,l]" + (" - f_eq[i,l])" if perturbed else ")")
    if ok and part is not None and caller_prepares_output(chk, name, R["rho"]):
        pre = caller_prepares_output(chk, name, R["rho"])
        chk.ob("F3-density-sum", fn0, label, None,
               f"the kernel writes the weighted sum into `rho.{part}` only; the caller touches the density storage before the call "
               f"(`{pre[0][:60]}`): whether the other part is reset there is not decided", file=rel, func=name)
        return True
    if ok and part is not None:
        # AUDIT: the other part keeps its previous content = the kernel stores into one part only (every store of the whole-array
        # reading), the annotation admits complex storage, and no statement of any caller touches the output storage before the call
        chk.ob("F3-density-sum", fn0, label, False,
               f"the kernel writes the weighted sum into `rho.{part}` only, and `rho` may be complex (its annotation admits "
               f"complex128[:,:,:], the storage the simulation uses because rho later holds its Fourier modes): the "
               f"{'imaginary' if part == 'real' else 'real'} part is not written and keeps whatever the array held before the call, so "
               "rho is not the velocity integral", file=rel, func=name, facts={"code": str(got)[:300], "spec": str(spec), "part": part})
        return True
    if part is not None:
        raise Undecided(f"store into `rho.{part}` of a formula that is not recognised")
    okv, whyv = (True, "") if ok else formula_verdict(got, spec, q, g, fe if perturbed else None, (i, j, k, l), nc, row if perturbed else None)
    chk.ob("F3-density-sum", fn0, label, okv,
           "density is the weighted sum over v of " + ("f minus the equilibrium of the same radius row" if perturbed else "f") +
           " (whole-array form)" if okv else whyv, file=rel, func=name, facts={"code": str(got)[:300], "spec": str(spec)})
    return True


KERNEL_ROLES = {}               # kernel name -> parameter names by role
KERNEL_ROW_OFFSET = {}          # kernel name -> offset c of the equilibrium row it reads: feq[i + c, l] (0, or a scalar parameter)


def _row_of_equilibrium(got, fe, i, others):
    """the row of the equilibrium table the extracted formula reads at radial index i, when it is i plus something that does not
    vary with the point (a scalar parameter: the table then holds the rows of a larger range, shifted by that parameter) -> (row, c)"""
    rows = {a.args[0] for a in got.atoms(sp.Function) if a.func == fe and len(a.args) == 2}
    if len(rows) != 1:
        return i, sp.Integer(0)
    R = rows.pop()
    c = sp.expand(R - i)
    if c.free_symbols & (set(others) | {i}):
        return i, sp.Integer(0)
    return R, c


def _whole_array_features(fn, ranks):
    """does the kernel use whole-array operations (slices, matrix products, numpy reductions, an array indexed with fewer indices
    than it has axes)?  Such code is read by the rank-aware whole-array model; pure element loops by the loop interpreter."""
    for n in ast.walk(fn):
        if isinstance(n, ast.BinOp) and isinstance(n.op, ast.MatMult):
            return True
        if isinstance(n, ast.Slice) or (isinstance(n, ast.Constant) and n.value is Ellipsis):
            return True
        if isinstance(n, ast.Call) and src(n.func).startswith(("np.", "numpy.")):
            return True
        if isinstance(n, ast.Call) and isinstance(n.func, ast.Attribute) and n.func.attr in ("sum", "dot"):
            return True
        if isinstance(n, ast.Subscript) and isinstance(n.value, ast.Name) and n.value.id in ranks and ranks[n.value.id][0] > 1:
            k = len(n.slice.elts) if isinstance(n.slice, ast.Tuple) else 1
            if k < ranks[n.value.id][0]:
                return True
    return False


def kernel_roles(ranks):
    """parameter names of a density kernel by ROLE, from the ranks of the annotations: the output (rank 3), the distribution (rank 4),
    the equilibrium rows (rank 2), the weights (rank 1); the repository's names where the ranks do not identify them"""
    roles = {"rho": "rho", "grid": "grid", "feq": "feq", "quad_coeffs": "quad_coeffs"}
    by_rank = {}
    for n_, (r, _) in ranks.items():
        by_rank.setdefault(r, []).append(n_)
    for role, r in (("rho", 3), ("grid", 4), ("feq", 2), ("quad_coeffs", 1)):
        if len(by_rank.get(r, [])) == 1:
            roles[role] = by_rank[r][0]
    return roles


def part_views(fn0, ranks, out="rho"):
    """which part of the output array the element stores of a loop kernel go to.  `out.real` / `out.imag` (used directly or through a
    local bound once to it) is a VIEW of one part of the storage: a store through it leaves the other part as it was.
    -> (fn', part): fn' = copy of the kernel with the views of the real part written as the array itself (the reading of the real
    part: every other operand of the kernels is real), part = None when every store goes to whole elements, 'real' when EVERY store
    into `out` goes through the view of its real part and the annotation admits complex storage.  Anything else raises Undecided."""
    import copy
    if out not in ranks:
        return fn0, None
    cplx = ranks[out][1]
    fn = copy.deepcopy(fn0)
    par = {}
    for n in ast.walk(fn):
        for c in ast.iter_child_nodes(n):
            par[c] = n

    def is_part(e):
        return isinstance(e, ast.Attribute) and e.attr in ("real", "imag") and isinstance(e.value, ast.Name) and e.value.id == out
    if not any(is_part(n) for n in ast.walk(fn)):
        return fn0, None
    alias = {}
    for st in ast.walk(fn):
        if isinstance(st, ast.Assign) and len(st.targets) == 1 and isinstance(st.targets[0], ast.Name) and is_part(st.value):
            v = st.targets[0].id
            nst = sum(1 for n in ast.walk(fn) if isinstance(n, ast.Name) and n.id == v and isinstance(n.ctx, (ast.Store, ast.Del)))
            if nst != 1 or v in {a.arg for a in fn.args.args}:
                raise Undecided(f"`{v}` is bound to `{src(st.value)}` and to something else")
            alias[v] = (st.value.attr, st)
    kinds = set()

    def base_kind(e):
        """'whole' / 'real' / 'imag' when e denotes the output storage or one of its part views"""
        if isinstance(e, ast.Name) and e.id == out:
            return "whole"
        if isinstance(e, ast.Name) and e.id in alias:
            return alias[e.id][0]
        if is_part(e):
            return e.attr
        return None
    defs = {id(a[1]) for a in alias.values()}
    for n in ast.walk(fn):
        k = base_kind(n)
        if k is None or (isinstance(n, ast.Name) and isinstance(par.get(n), ast.Attribute) and is_part(par[n])):
            continue
        p = par.get(n)
        if isinstance(n, ast.Name) and isinstance(n.ctx, ast.Store):
            continue                                    # the binding of the alias itself
        if is_part(n) and id(p) in defs:
            continue
        if not (isinstance(p, ast.Subscript) and p.value is n):
            if k == "whole" and isinstance(p, ast.Attribute) and p.attr == "shape":
                continue
            raise Undecided(f"`{src(n)}` (the {k} storage of `{out}`) is used other than element by element: `{src(p)[:50]}`")
        if isinstance(p.ctx, ast.Store):
            kinds.add(k)
        elif k == "imag":
            raise Undecided(f"the imaginary part `{src(p)[:40]}` is read")
    if "imag" in kinds or ("real" in kinds and "whole" in kinds):
        raise Undecided(f"stores into {sorted(kinds)} parts of `{out}` are mixed")
    # the reading of the real part
    class Re(ast.NodeTransformer):
        def visit_Attribute(self, n):
            if is_part(n) and n.attr == "real":
                return ast.copy_location(ast.Name(id=out, ctx=ast.Load()), n)
            return self.generic_visit(n)

        def visit_Name(self, n):
            if n.id in alias and alias[n.id][0] == "real" and isinstance(n.ctx, ast.Load):
                return ast.copy_location(ast.Name(id=out, ctx=ast.Load()), n)
            return n
    for blk in [getattr(n, f) for n in ast.walk(fn) for f in ("body", "orelse") if isinstance(getattr(n, f, None), list)]:
        blk[:] = [st for st in blk if id(st) not in defs]
    fn = ast.fix_missing_locations(Re().visit(fn))
    return fn, ("real" if kinds == {"real"} and cplx else None)


def prior_content_flow(fn, out="rho"):
    """a load `out[...]` whose value reaches (through local names) a value stored into `out` -> source of the statement that
    reads it, or None.  (Which loads see an element not yet written is decided by the symbolic reading, not here.)"""
    def loads(e):
        return [n for n in ast.walk(e) if isinstance(n, ast.Subscript) and isinstance(n.ctx, ast.Load) and
                isinstance(n.value, ast.Name) and n.value.id == out]
    tainted, first = {}, None
    sts = [st for st in ast.walk(fn) if isinstance(st, (ast.Assign, ast.AugAssign))]
    changed = True
    while changed:
        changed = False
        for st in sts:
            tg = st.targets if isinstance(st, ast.Assign) else [st.target]
            names = [t.id for t in tg if isinstance(t, ast.Name)]
            if not names:
                continue
            origin = None
            if loads(st.value):
                origin = src(st)
            else:
                for n in ast.walk(st.value):
                    if isinstance(n, ast.Name) and n.id in tainted:
                        origin = tainted[n.id]
                        break
            if origin is not None:
                for v in names:
                    if v not in tainted:
                        tainted[v] = origin
                        changed = True
    for st in sts:
        tg = st.targets if isinstance(st, ast.Assign) else [st.target]
        if any(isinstance(t, ast.Subscript) and isinstance(t.value, ast.Name) and t.value.id == out for t in tg):
            if loads(st.value):
                return src(st)
            for n in ast.walk(st.value):
                if isinstance(n, ast.Name) and n.id in tainted:
                    return tainted[n.id]
    return None


def caller_prepares_output(chk, kname, out="rho"):
    """statements of the callers of the kernel (caller + callee are one unit) that come before the call and write through / call on
    the object handed over as the output array: the caller may reset there what the kernel leaves untouched"""
    found = []
    try:
        formals = [a.arg for a in chk.func(U.PTOOLS, kname).args.args]
        funcs = chk.mod(U.POISSON).functions()
    except AnalysisError:
        return found
    for q, f_ in funcs.items():
        for c in ast.walk(f_):
            if not (isinstance(c, ast.Call) and isinstance(c.func, ast.Name) and c.func.id == kname):
                continue
            b = agree.bind_call(c, formals) or {}
            act = b.get(out)
            if act is None:
                found.append(f"{q}: output argument of `{src(c)[:40]}` not identified")
                continue
            roots = {n.id for n in ast.walk(_resolved(f_, act)) if isinstance(n, ast.Name)} | {n.id for n in ast.walk(act) if isinstance(n, ast.Name)}
            roots -= {"self", "np", "numpy"}
            for st in ast.walk(f_):
                if not isinstance(st, (ast.Assign, ast.AugAssign, ast.Expr)) or st.lineno >= c.lineno or \
                        any(x is c for x in ast.walk(st)):
                    continue
                if isinstance(st, ast.Expr):
                    if not isinstance(st.value, ast.Call):
                        continue
                    touched = [n for n in ast.walk(st.value) if isinstance(n, ast.Name) and n.id in roots]
                else:
                    tg = st.targets if isinstance(st, ast.Assign) else [st.target]
                    touched = [n for t in tg if isinstance(t, (ast.Subscript, ast.Attribute)) for n in ast.walk(t)
                               if isinstance(n, ast.Name) and n.id in roots]
                if touched:
                    found.append(src(st))
    return found


PART_DIAGNOSIS = ("the kernel writes the weighted sum into `rho.{part}` only, and `rho` may be complex (its annotation admits "
                  "complex128[:,:,:], the storage the simulation uses because rho later holds its Fourier modes): the {other} part is "
                  "not written and keeps whatever the array held before the call, so rho is not the velocity integral")


KERNEL_FEQ_ORIENT = {}          # kernel name -> 'rv' (reads feq[i, l]) | 'vr' (reads feq[l, i])


def caller_feq_orientation(chk, kname):
    """which way round the equilibrium rows handed to the kernel are, as far as the constructor and the call site say:
    'rv' = [local radius, velocity], 'vr' = [velocity, local radius], None = not established; second value: text of what is passed"""
    try:
        fn = chk.func(U.POISSON, "DensityFinder.getPerturbedRho")
        init = chk.func(U.POISSON, "DensityFinder.__init__")
        formals = [a.arg for a in chk.func(U.PTOOLS, kname).args.args]
    except AnalysisError:
        return None, "?"
    cs = [x for x in ast.walk(fn) if isinstance(x, ast.Call) and isinstance(x.func, ast.Name) and x.func.id == kname]
    if len(cs) != 1:
        return None, "?"
    b = agree.bind_call(cs[0], formals) or {}
    fe = b.get(KERNEL_ROLES.get(kname, {}).get("feq", "feq"))
    if fe is None:
        return None, "?"

    def unwrap(e, ctx):
        for _ in range(6):
            e = _resolved(ctx, e)
            if isinstance(e, ast.Call) and src(e.func) in ("np.ascontiguousarray", "np.asarray", "np.array", "np.copy") and e.args:
                e = e.args[0]
            elif isinstance(e, ast.Call) and isinstance(e.func, ast.Attribute) and e.func.attr == "copy" and not e.args:
                e = e.func.value
            else:
                break
        return e

    def is_full(x):
        return isinstance(x, ast.Slice) and x.lower is None and x.upper is None and x.step is None
    e = unwrap(fe, fn)
    text = src(e)
    if not (isinstance(e, ast.Subscript) and src(e.value) == "self._fEq"):
        return None, text
    sl = e.slice
    if isinstance(sl, ast.Tuple) and len(sl.elts) == 2 and is_full(sl.elts[0]) and not is_full(sl.elts[1]):
        sel = "cols"
    elif isinstance(sl, ast.Tuple) and len(sl.elts) == 2 and is_full(sl.elts[1]) and not is_full(sl.elts[0]):
        sel = "rows"
    elif not isinstance(sl, ast.Tuple):
        sel = "rows"
    else:
        return None, text
    # orientation of the table itself
    defs = [n for n in ast.walk(init) if isinstance(n, ast.Assign) and any(src(t) == "self._fEq" for t in n.targets)]
    if len(defs) != 1:
        return None, text

    def filled_rv(name_src):
        """is the array filled by feq_vector(<it>, r points, v points, ...) in the constructor?"""
        for c in ast.walk(init):
            if isinstance(c, ast.Call) and src(c.func).split(".")[-1] == "feq_vector" and c.args and src(c.args[0]) == name_src and len(c.args) >= 3:
                return "[0]" in src(_resolved(init, c.args[1])) and "[3]" in src(_resolved(init, c.args[2]))
        return False
    v = unwrap(defs[0].value, init)
    table = None
    if isinstance(v, ast.Call) and src(v.func) in ("np.empty", "np.zeros", "np.ndarray") and filled_rv("self._fEq"):
        table = "rv"
    else:
        inner = None
        if isinstance(v, ast.Attribute) and v.attr == "T":
            inner = v.value
        elif isinstance(v, ast.Call) and src(v.func) in ("np.transpose",) and len(v.args) == 1:
            inner = v.args[0]
        elif isinstance(v, ast.Call) and isinstance(v.func, ast.Attribute) and v.func.attr == "transpose" and not v.args:
            inner = v.func.value
        if isinstance(inner, ast.Name) and filled_rv(inner.id):
            table = "vr"
    if table is None:
        return None, text
    if (table, sel) == ("rv", "rows"):
        return "rv", text
    if (table, sel) == ("vr", "cols"):
        return "vr", text
    return "mixed", text + f" of a table kept [{'radius, velocity' if table == 'rv' else 'velocity, radius'}]"


def feq_orientation_verdict(chk, name, rel, fn0, got, spec_of, label, R):
    """the kernel formula did not match with the equilibrium read as feq[i, l]: is it the same formula with the table read the
    other way round (feq[l, i])?  Then kernel and caller must agree on how the rows they exchange are laid out: compared with each
    other -> True when an obligation was made"""
    alt = spec_of("vr")
    if not alg_equal(got, alt):
        return False
    KERNEL_FEQ_ORIENT[name] = "vr"
    c, text = caller_feq_orientation(chk, name)
    if c == "vr":
        chk.ob("F3-density-sum", fn0, label, True, "the kernel reads the equilibrium as feq[l, i] (velocity-major) and the caller hands it "
               f"`{text[:60]}`, the columns of the local radii of a table kept [velocity, radius]: the same convention on both sides",
               file=rel, func=name, facts={"code": str(got)[:300], "spec": str(alt)})
    elif c in ("rv", "mixed"):
        chk.ob("F3-density-sum", fn0, label, False, f"the kernel reads the equilibrium as feq[l, i] (first index = velocity) but the caller hands it "
               f"`{text[:80]}`, whose first index is the " + ("local radius" if c == "rv" else "velocity only if rows and columns are taken "
               "consistently, which they are not") + ": writer and reader of the table disagree, so values of other (r, v) points are "
               "subtracted (or the index runs past the table)", file=rel, func=name, facts={"code": str(got)[:300], "spec": str(alt)})
    else:
        chk.ob("F3-density-sum", fn0, label, None, "the kernel reads the equilibrium as feq[l, i] (velocity-major); that the caller hands it a "
               f"table laid out that way (`{text[:60]}`) was not established", file=rel, func=name)
    return True


def feq_rv_against_caller(chk, name, rel, fn0, got, spec, label):
    """the kernel reads feq[i, l]; the caller provably hands it a table laid out the other way -> True when reported"""
    c, text = caller_feq_orientation(chk, name)
    if c not in ("vr", "mixed"):
        return False
    chk.ob("F3-density-sum", fn0, label, False, "the kernel reads the equilibrium as feq[i, l] (first index = local radius) but the caller hands it "
           f"`{text[:80]}`, " + ("whose first index is the velocity" if c == "vr" else "a selection that does not pick the local radii along "
                                  "the first index") + ": writer and reader of the table disagree, so values of other (r, v) points are "
           "subtracted (or the index runs past the table)", file=rel, func=name, facts={"code": str(got)[:300], "spec": str(spec)})
    return True


def formula_verdict(got, spec, q, g, fe, idx, nc, row=None):
    """three-valued comparison of the extracted element formula with the specification sum_l q(l) (g(i,j,k,l) - fe(row,l)):
    -> (True, '') equal ; (False, diagnosis) provably different ; (None, why) not decided.
    AUDIT - the diagnosis "differs from the specification" is made only on one of these grounds:
      * a product of the formula pairs the weight of one velocity point with the value at ANOTHER one (q(A) * g(.., B) with A - B not
        identically zero), takes f at another (r, theta, z) point or the equilibrium of another radius, contains a value without a weight
        or a weight twice: arrays are arbitrary (independent atoms), so such a product cannot be part of sum_l q_l (f_l - feq_l);
      * the formula is made of plain sums over the whole range 0 .. nc-1 and polynomial terms (no conditional, floor, modulo), where
        the polynomial identity test (summand-wise) is decisive.
    A formula with conditionals / partial ranges / floors that passes the pairing test but is not proved equal is UNDECIDED."""
    from ..symx import ITE
    i, j, k, l = idx
    got = sp.sympify(got)
    if alg_equal(got, spec):
        return True, ""

    def terms(e):
        e = sp.expand(e)
        if isinstance(e, sp.Add):
            for a in e.args:
                yield from terms(a)
        elif isinstance(e, sp.Sum):
            yield from terms(e.function)
        elif isinstance(e, ITE):
            for a in e.args[1:]:
                yield from terms(a)
        elif isinstance(e, sp.Piecewise):
            for a, _ in e.args:
                yield from terms(a)
        elif isinstance(e, sp.Mul) and any(isinstance(a, (sp.Sum, ITE, sp.Piecewise)) for a in e.args):
            rest = sp.Mul(*[a for a in e.args if not isinstance(a, (sp.Sum, ITE, sp.Piecewise))])
            for a in e.args:
                if isinstance(a, (sp.Sum, ITE, sp.Piecewise)):
                    for t in terms(a):
                        yield rest * t
        else:
            yield e
    try:
        for t in terms(got):
            facs = []
            for f_ in sp.Mul.make_args(t):
                b_, e_ = f_.as_base_exp()
                facs.append((b_, e_))
            qs = [(b_, e_) for b_, e_ in facs if getattr(b_, "func", None) == q]
            gs = [b_ for b_, _ in facs if getattr(b_, "func", None) == g]
            fs = [b_ for b_, _ in facs if fe is not None and getattr(b_, "func", None) == fe]
            if not (qs or gs or fs):
                continue
            if (gs or fs) and not qs:
                return False, f"the term `{t}` enters the density without a quadrature weight"
            if len(qs) > 1 or any(e_ != 1 for _, e_ in qs) or len(gs) + len(fs) > 1:
                return False, f"the term `{t}` is not a weight times one value (a weight applied twice, or a product of values)"
            A = qs[0][0].args[0]
            for v in gs + fs:
                B = v.args[-1]
                if sp.simplify(A - B) != 0:
                    return False, (f"the term `{t}` multiplies the value at velocity index `{B}` by the weight of velocity index `{A}`: the "
                                   "quadrature weights are not symmetric for a general v grid, so this is not the velocity integral")
            for v in gs:
                if any(sp.simplify(a_ - b_) != 0 for a_, b_ in zip(v.args[:3], (i, j, k))):
                    return False, f"the term `{t}` takes the distribution at the point {v.args[:3]} for rho[i, j, k]"
            for v in fs:
                d_ = sp.simplify(v.args[0] - (row if row is not None else i))
                if d_ != 0:
                    return False, (f"the term `{t}` subtracts the equilibrium of row `{v.args[0]}` for the radius of index "
                                   f"`{row if row is not None else i}`: the equilibrium of another radius")
    except Exception as ex:
        return None, f"the products of the extracted formula were not enumerated ({type(ex).__name__})"
    plain = not got.has(ITE) and not got.has(sp.Piecewise) and not got.has(sp.floor) and not got.has(sp.ceiling) and \
        not any(str(f_.func) == "mod" for f_ in got.atoms(sp.Function)) and \
        all(len(s_.limits) == 1 and s_.limits[0][1] == 0 and sp.simplify(s_.limits[0][2] - (nc - 1)) == 0 for s_ in got.atoms(sp.Sum)) and \
        not any(s_.function.has(sp.Sum) for s_ in got.atoms(sp.Sum))
    if plain:
        return False, f"extracted formula {str(got)[:200]} differs from the specification {spec}"
    # the specification with some velocity points left out: every sum runs over a sub-range lo .. hi of 0 .. nc-1 (by constants), and
    # with the full range put back the formula IS the specification: the terms of the points left out are missing
    try:
        sums = list(got.atoms(sp.Sum))
        if sums and not got.has(ITE) and not got.has(sp.Piecewise) and all(len(s_.limits) == 1 for s_ in sums):
            cut = []
            for s_ in sums:
                lo_, hi_ = s_.limits[0][1], s_.limits[0][2]
                a_, b_ = sp.simplify(lo_), sp.simplify((nc - 1) - hi_)
                if not (a_.is_Integer and b_.is_Integer and a_ >= 0 and b_ >= 0):
                    cut = None
                    break
                cut.append((s_, a_, b_))
            if cut and any(a_ > 0 or b_ > 0 for _, a_, b_ in cut):
                full = got.xreplace({s_: sp.Sum(s_.function, (s_.limits[0][0], 0, nc - 1)) for s_, _, _ in cut})
                if alg_equal(full, spec):
                    s_, a_, b_ = next(x for x in cut if x[1] > 0 or x[2] > 0)
                    return False, (f"the sum over the velocity points runs over {s_.limits[0][1]} .. {s_.limits[0][2]} only: the first {a_} / last "
                                   f"{b_} point(s) of the v grid never enter the density (with the full range 0 .. nc-1 the formula is the "
                                   "specification)")
    except Exception:
        pass
    return None, (f"extracted formula {str(got)[:160]} pairs every weight with the value at its own velocity point but is written with "
                  "conditionals / partial ranges: its equality with the specification was not proved")


def loop_kernel_in_fragment(fn):
    """the element-loop reading (engine SymExec) is asked only about code made of the constructs it is known to model faithfully:
    `for x in range(n)` / `range(a, b)` (no step, no keywords, plain name as target, no else), assignments and `+=` / `-=` / `*=` to
    names and to elements addressed by plain index expressions, arithmetic, `.shape` unpacking, docstrings, asserts.  Anything else
    (a stepped or reversed range, enumerate / zip / ndindex, while, if, comprehensions, calls, walrus, star expressions, nested
    functions) raises Undecided at the point where it is met - the engine reads some of them by a default that guesses (a
    three-argument range as its first two arguments)."""
    def expr(e):
        if isinstance(e, (ast.Name, ast.Slice)) or e is None:
            return
        if isinstance(e, ast.Constant):
            if isinstance(e.value, (int, float)) and not isinstance(e.value, bool):
                return
            raise Undecided(f"constant `{e.value!r}`")
        if isinstance(e, ast.BinOp) and isinstance(e.op, (ast.Add, ast.Sub, ast.Mult, ast.Div, ast.FloorDiv, ast.Mod)):
            expr(e.left)
            expr(e.right)
            return
        if isinstance(e, ast.UnaryOp) and isinstance(e.op, (ast.USub, ast.UAdd)):
            expr(e.operand)
            return
        if isinstance(e, ast.Compare) and len(e.ops) == 1 and isinstance(e.ops[0], (ast.Eq, ast.NotEq, ast.Lt, ast.LtE, ast.Gt, ast.GtE)):
            expr(e.left)
            expr(e.comparators[0])
            return
        if isinstance(e, ast.Subscript):
            expr(e.value)
            for x in (e.slice.elts if isinstance(e.slice, ast.Tuple) else [e.slice]):
                if isinstance(x, ast.Slice):
                    raise Undecided(f"slice in `{src(e)[:40]}`")
                expr(x)
            return
        if isinstance(e, ast.Attribute) and e.attr in ("shape", "real", "size") and isinstance(e.value, ast.Name):
            return
        if isinstance(e, ast.Tuple):
            for x in e.elts:
                expr(x)
            return
        if isinstance(e, ast.Call) and isinstance(e.func, ast.Name) and e.func.id in ("float", "int") and len(e.args) == 1 and not e.keywords:
            expr(e.args[0])
            return
        if isinstance(e, ast.Call) and isinstance(e.func, ast.Name) and e.func.id == "len" and len(e.args) == 1 and isinstance(e.args[0], ast.Name):
            return
        raise Undecided(f"expression `{src(e)[:50]}` is outside the fragment the loop reading models")

    def block(stmts):
        for st in stmts:
            if isinstance(st, ast.Expr) and isinstance(st.value, ast.Constant):
                continue
            if isinstance(st, (ast.Pass, ast.Assert, ast.Import, ast.ImportFrom)):
                continue
            if isinstance(st, ast.For):
                it = st.iter
                if not (isinstance(st.target, ast.Name) and not st.orelse and isinstance(it, ast.Call) and isinstance(it.func, ast.Name)
                        and it.func.id == "range" and 1 <= len(it.args) <= 2 and not it.keywords
                        and not any(isinstance(a, ast.Starred) for a in it.args)):
                    raise Undecided(f"loop `for {src(st.target)} in {src(it)[:40]}` (only range(n) / range(a, b) over a plain name are modelled)")
                for a in it.args:
                    expr(a)
                block(st.body)
                continue
            if isinstance(st, ast.Assign) and len(st.targets) == 1:
                t = st.targets[0]
                if isinstance(t, ast.Tuple) and all(isinstance(x, ast.Name) for x in t.elts):
                    expr(st.value)
                    continue
                if isinstance(t, (ast.Name, ast.Subscript)):
                    expr(t)
                    expr(st.value)
                    continue
            if isinstance(st, ast.AugAssign) and isinstance(st.op, (ast.Add, ast.Sub, ast.Mult)) and isinstance(st.target, (ast.Name, ast.Subscript)):
                expr(st.target)
                expr(st.value)
                continue
            if isinstance(st, ast.If) and isinstance(st.test, ast.Compare):
                expr(st.test)
                block(st.body)
                block(st.orelse)
                continue
            raise Undecided(f"statement `{src(st)[:50]}` is outside the fragment the loop reading models")
    block(fn.body)


def kernel_formula(chk, rel, name, perturbed):
    fn = chk.func(rel, name)
    fn0 = fn
    ranks = _array_ranks(chk.mod(rel).tree, fn0)
    part = None
    R = kernel_roles(ranks)
    KERNEL_ROLES[name] = R
    args = make_args(fn, arrays=(R["rho"],))
    prior = []                                  # elements of rho read before anything was stored into them (symbolic reading)
    if isinstance(args.get(R["rho"]), Arr):
        rho_fn = args[R["rho"]].fn
        args[R["rho"]] = Arr(R["rho"], generic=(lambda idx: (prior.append(tuple(idx)), rho_fn(*idx))[1]))
        args[R["rho"]].fn = rho_fn
    loop_free = not any(isinstance(n, (ast.For, ast.While)) for n in ast.walk(fn0))
    whole = loop_free or _whole_array_features(merge_partial_views(fn), ranks)
    if not whole:
        # element loops: stores through a view of one part of rho (whole-array code has its own treatment of part views)
        try:
            fn, part = part_views(fn, ranks, R["rho"])
        except Undecided as e:
            chk.ob("F3-density-sum", fn0, name, None, f"kernel outside the extractable fragment: {e}", file=rel, func=name)
            return
    fn = merge_partial_views(fn)
    errs = []
    if whole:
        # whole-array code (possibly inside loops over some axes): the rank-aware model; the loop interpreter lifts operators
        # element-wise without ranks and is not asked
        try:
            if vectorised_formula(chk, rel, fn0, name, perturbed):
                return
            errs.append("as whole-array code: not applicable")
        except Undecided as e2:
            errs.append(f"as whole-array code: {e2}")
        chk.ob("F3-density-sum", fn, name, None, f"kernel outside the extractable fragment: {'; '.join(errs)}", file=rel, func=name)
        return
    ex = SymExec(fn, args, calls=dict(SPLINE_HANDLERS))
    i, j, k, l = (Symbol(n, integer=True) for n in "ijkl")
    # the generic element is read at index symbols that no loop variable of the kernel can be called (a kernel whose loop over v is
    # called `j` would otherwise capture the index the element is read at)
    probes = tuple(Symbol(f"_p{n}", integer=True) for n in range(3))
    try:
        try:
            loop_kernel_in_fragment(fn)
            ex.run()
            n_prior = len(prior)
            got = sp.sympify(ex.env[R["rho"]].read(list(probes)))
            loopvars = {Symbol(n.target.id, integer=True) for n in ast.walk(fn) if isinstance(n, ast.For) and isinstance(n.target, ast.Name)}
            sums = list(got.atoms(sp.Sum))
            if any(len(s_.limits) != 1 for s_ in sums):
                raise Undecided("a sum over several variables")
            if any(s_.function.has(sp.Sum) for s_ in sums):
                raise Undecided("nested sums in the extracted formula")
            # one name for the summation variables (sums over one range are compared summand-wise)
            got = got.xreplace({s_: sp.Sum(s_.function.subs(s_.limits[0][0], l), (l,) + tuple(s_.limits[0][1:])) for s_ in sums})
            stray = got.free_symbols & (loopvars | {i, j, k})
            if stray:
                raise Undecided(f"variables {sorted(map(str, stray))} of the kernel's loops remain in the stored value")
            got = got.subs(dict(zip(probes, (i, j, k))), simultaneous=True)
        except Undecided:
            raise
        except Exception as ie:              # the loop interpreter met a construct it does not model
            raise Undecided(f"loop interpreter: {type(ie).__name__}: {ie}")
    except Undecided as e:
        errs.append(str(e))
        try:
            if vectorised_formula(chk, rel, fn0, name, perturbed):
                return
        except Undecided as e2:
            errs.append(f"as whole-array code: {e2}")
        chk.ob("F3-density-sum", fn, name, None, f"kernel outside the extractable fragment: {'; '.join(errs)}", file=rel, func=name)
        return
    if any(not isinstance(args.get(R[r_]), Arr) for r_ in (("quad_coeffs", "grid", "feq") if perturbed else ("quad_coeffs", "grid"))):
        chk.ob("F3-density-sum", fn, name, None, f"the parameters of the kernel were not identified by rank: {ranks}", file=rel, func=name)
        return
    q, g = args[R["quad_coeffs"]].fn, args[R["grid"]].fn
    nc = Symbol(f"n0_{R['quad_coeffs']}", integer=True, positive=True)
    row = i
    if perturbed:
        row, coff = _row_of_equilibrium(sp.sympify(got), args[R["feq"]].fn, i, (j, k, l))
        KERNEL_ROW_OFFSET[name] = coff
    term = q(l) * (g(i, j, k, l) - (args[R["feq"]].fn(row, l) if perturbed else 0))
    spec = sp.Sum(term, (l, 0, nc - 1))
    ok = alg_equal(got, spec)
    if perturbed:
        KERNEL_FEQ_ORIENT[name] = "rv"
    if perturbed and ok and part is None and feq_rv_against_caller(chk, name, rel, fn0, got, spec, "rho[i,j,k] = sum_l w_l (f[i,j,k,l] - f_eq[i,l])"):
        return
    if perturbed and not ok and part is None:
        lab_ = "rho[i,j,k] = sum_l w_l (f[i,j,k,l] - f_eq[i,l])"
        if feq_orientation_verdict(chk, name, rel, fn0, got, lambda o: sp.Sum(q(l) * (g(i, j, k, l) - args[R["feq"]].fn(l, i)), (l, 0, nc - 1)),
                                   lab_, R):
            return
    flows = prior_content_flow(fn, R["rho"]) if ok and n_prior else None
    if ok and flows and not sp.sympify(got).has(args[R["rho"]].fn) and caller_prepares_output(chk, name, R["rho"]):
        pre = caller_prepares_output(chk, name, R["rho"])
        chk.ob("F3-density-sum", fn0, "rho[i,j,k] = sum_l w_l (f[i,j,k,l]" + (" - f_eq[i,l])" if perturbed else ")"), None,
               f"`{flows[:70]}` reads an element of rho that the kernel has not stored yet; the caller touches the density storage before "
               f"the call (`{pre[0][:60]}`): whether it holds finite values then is not decided", file=rel, func=name)
        return
    if ok and flows and not sp.sympify(got).has(args[R["rho"]].fn):
        # AUDIT: a value read from rho before the kernel stored it reaches what is stored (def-use through locals), it cancels only
        # algebraically, and no caller writes the output storage before the call (so it may hold anything, nan included)
        chk.ob("F3-density-sum", fn0, "rho[i,j,k] = sum_l w_l (f[i,j,k,l]" + (" - f_eq[i,l])" if perturbed else ")"), False,
               f"`{flows[:70]}` reads an element of rho that the kernel has not stored yet, and the value read goes into what is stored: "
               "it drops out of the formula only algebraically (x * 0.0, x - x), which floating-point arithmetic does not honour for "
               "non-finite values (0.0 * nan = nan, 0.0 * inf = nan, inf - inf = nan): a nan / inf left in the density grid (storage "
               "from np.empty, a diverged step, the Fourier modes of the previous step) survives, so the density depends on the previous "
               "content of the output array instead of being the velocity integral", file=rel, func=name,
               facts={"code": str(got)[:300], "spec": str(spec), "prior_reads": [str(x) for x in prior[:3]]})
        return
    if ok and part is not None:
        pre = caller_prepares_output(chk, name, R["rho"])
        if pre:
            chk.ob("F3-density-sum", fn0, "rho[i,j,k] = sum_l w_l (f[i,j,k,l]" + (" - f_eq[i,l])" if perturbed else ")"), None,
                   f"the kernel writes the weighted sum into `rho.{part}` only; the caller touches the density storage before the call "
                   f"(`{pre[0][:60]}`): whether the other part is reset there is not decided", file=rel, func=name)
            return
        chk.ob("F3-density-sum", fn0, "rho[i,j,k] = sum_l w_l (f[i,j,k,l]" + (" - f_eq[i,l])" if perturbed else ")"), False,
               PART_DIAGNOSIS.format(part=part, other="imaginary" if part == "real" else "real") +
               " (no statement of the kernel stores into whole elements of rho or into the other part)", file=rel, func=name,
               facts={"code": str(got)[:300], "spec": str(spec), "part": part})
        return
    okv, whyv = (True, "") if ok else formula_verdict(got, spec, q, g, args[R["feq"]].fn if perturbed else None, (i, j, k, l), nc, row if perturbed else None)
    chk.ob("F3-density-sum", fn, "rho[i,j,k] = sum_l w_l (f[i,j,k,l]" + (" - f_eq[i,l])" if perturbed else ")"), okv,
           "density is the weighted sum over v of " + ("f minus the equilibrium of the same radius row" if perturbed else "f") if okv else
           whyv, file=rel, func=name, facts={"code": str(got)[:300], "spec": str(spec)})


def enclosing_def(n):
    p_ = parent_of(n)
    while p_ is not None and not isinstance(p_, ast.FunctionDef):
        p_ = parent_of(p_)
    return p_


def _weight_free(value, fn, cls_node, methods, depth=0, seen=None):
    """can the value NOT depend on the quadrature weights of the v spline?  True when nothing it is computed from - followed through
    the locals of the method and the attributes of the class - is the weights, the spline basis handed to the constructor (from
    which they can be computed), a method of the class (which can read them) or a function / attribute whose name speaks of
    quadrature, integrals, weights or the interpolator.  Module-level functions are pure functions of their arguments here."""
    seen = seen if seen is not None else set()
    if depth > 6 or fn is None:
        return False
    words = ("quad", "interpolator", "integral", "weight", "spline")
    init = next((st for st in cls_node.body if isinstance(st, ast.FunctionDef) and st.name == "__init__"), None) \
        if isinstance(cls_node, ast.ClassDef) else None
    ip = [a.arg for a in init.args.args] if init is not None else []
    spline_param = ip[2] if len(ip) > 2 else "bspline"
    params = {a.arg for a in fn.args.args}
    bound_here = {n.id for n in ast.walk(value) if isinstance(n, ast.Name) and isinstance(n.ctx, ast.Store)}      # comprehension targets
    for n in ast.walk(value):
        if isinstance(n, ast.Call):
            f = src(n.func)
            if any(w_ in f.lower() for w_ in words):
                return False
            if isinstance(n.func, ast.Attribute) and src(n.func.value) == "self" and n.func.attr in methods:
                return False
        if isinstance(n, ast.Attribute) and isinstance(n.value, ast.Name) and n.value.id == "self":
            key = ("attr", n.attr)
            if any(w_ in n.attr.lower() for w_ in words):
                return False
            if key in seen:
                continue
            seen.add(key)
            for d in ast.walk(cls_node):
                tg = d.targets if isinstance(d, ast.Assign) else [d.target] if isinstance(d, (ast.AugAssign, ast.AnnAssign)) else []
                if any(isinstance(x, ast.Attribute) and src(x) == src(n) and isinstance(x.ctx, ast.Store) for t in tg for x in ast.walk(t)):
                    if getattr(d, "value", None) is None or not _weight_free(d.value, enclosing_def(d), cls_node, methods, depth + 1, seen):
                        return False
        if isinstance(n, ast.Name) and isinstance(n.ctx, ast.Load) and n.id not in bound_here and n.id != "self":
            if n.id == spline_param and fn is init:
                # two numbers of the spline (its domain, its degree, a count) do not determine the weights; its knots / break points /
                # integrals do
                par_ = getattr(n, "_parent", None)
                if isinstance(par_, ast.Attribute) and par_.attr in ("domain", "degree", "nbasis", "ncells", "periodic"):
                    continue
                return False
            if any(w_ in n.id.lower() for w_ in words):
                return False
            key = ("name", fn.name, n.id)
            if key in seen or n.id in params:
                continue
            seen.add(key)
            for d in ast.walk(fn):
                tg = d.targets if isinstance(d, ast.Assign) else [d.target] if isinstance(d, (ast.AugAssign, ast.AnnAssign, ast.For, ast.comprehension)) else []
                if any(isinstance(x, ast.Name) and x.id == n.id and isinstance(x.ctx, ast.Store) for t in tg for x in ast.walk(t)):
                    v_ = getattr(d, "value", None) if not isinstance(d, (ast.For, ast.comprehension)) else d.iter
                    if v_ is None or not _weight_free(v_, fn, cls_node, methods, depth + 1, seen):
                        return False
    return True


def equilibrium_same_quadrature(chk):
    """the perturbed density is sum_l w_l (f - f_eq): the equilibrium goes through the same weights as f, so that the perturbed
    density of the equilibrium itself is exactly zero and the map stays the integral of one interpolant"""
    fn = chk.func(U.POISSON, "DensityFinder.getPerturbedRho")
    init = chk.func(U.POISSON, "DensityFinder.__init__")
    k = [c for c in ast.walk(fn) if isinstance(c, ast.Call) and isinstance(c.func, ast.Name) and c.func.id == "get_perturbed_rho"]
    ok, bad = None, None
    if len(k) == 1:
        texts = [src(_resolved(fn, a)) for a in k[0].args] + [src(_resolved(fn, kw.value)) for kw in k[0].keywords]
        ok = any("self._quad_coeffs" in t for t in texts) and any("self._fEq" in t for t in texts)
    else:
        # the equilibrium is subtracted some other way: whatever is subtracted must have been produced with the quadrature weights
        subs = [n for n in ast.walk(fn) if (isinstance(n, ast.AugAssign) and isinstance(n.op, ast.Sub)) or
                (isinstance(n, ast.BinOp) and isinstance(n.op, ast.Sub))]
        for sb in subs:
            rhs = sb.value if isinstance(sb, ast.AugAssign) else sb.right
            attrs = [a for a in ast.walk(rhs) if isinstance(a, ast.Attribute) and isinstance(a.value, ast.Name) and a.value.id == "self"]
            cls_ = parent_of(init)
            meths_ = {st.name for st in cls_.body if isinstance(st, ast.FunctionDef)} if isinstance(cls_, ast.ClassDef) else set()
            for a in attrs:
                # AUDIT: "computed without the quadrature weights" = EVERY binding of the attribute in the class (a `None` that only
                # marks "not computed yet" aside) is an expression of numpy operations on parameters / attributes that mentions the
                # weights nowhere, calls no method of the class and no function of the repository (either could apply the weights), and
                # the attribute is bound by plain assignments only; anything else is not decided
                scope = cls_ if isinstance(cls_, ast.ClassDef) else init
                defs = [n for n in ast.walk(scope) if isinstance(n, ast.Assign) and any(src(t) == src(a) for t in n.targets)]
                other = [n for n in ast.walk(scope) if isinstance(n, (ast.AugAssign, ast.AnnAssign, ast.For, ast.withitem)) and
                         any(isinstance(x, ast.Attribute) and src(x) == src(a) and isinstance(x.ctx, ast.Store) for x in ast.walk(n))] + \
                    [n for n in ast.walk(scope) if isinstance(n, ast.Assign) and
                     any(isinstance(t, (ast.Tuple, ast.List, ast.Subscript)) and src(a) in src(t) for t in n.targets)]
                defs = [d for d in defs if not (isinstance(d.value, ast.Constant) and d.value.value is None)]
                opaque = any(not _weight_free(d.value, enclosing_def(d), scope, meths_) for d in defs)
                if defs and not other and not opaque:
                    bad = (f"`{src(sb)[:70]}` subtracts `{src(a)}`, which the constructor computes as `{src(defs[0].value)[:80]}` without the "
                           "quadrature weights: the velocity integral of the equilibrium taken another way (closed form, other rule) is "
                           "not the integral of the interpolated equilibrium, so the perturbed density of the equilibrium is not zero "
                           "and perturbations in the spline space are not integrated exactly")
    chk.pat("E3-equilibrium-same-quadrature", k[0] if k else fn, "get_perturbed_rho(rho, f_eq rows, f, weights)", bool(ok),
            "f and the tabulated equilibrium are combined with the same quadrature weights", bad, file=U.POISSON,
            func="DensityFinder.getPerturbedRho")


def inline_sibling_delegations(mod, cls_name):
    """a method whose whole body is `return self.other(<its own parameters / constants>)` (one method delegating to its sibling with
    an argument bound) is given the sibling's body with the parameters bound and tests on the bound constants folded: the merged code
    path is read as the two methods it stands for.  Done on the in-memory tree of this run only."""
    import copy
    from ..core import clone
    try:
        cls_ = mod.cls(cls_name)
    except AnalysisError:
        return []
    methods = {st.name: st for st in cls_.body if isinstance(st, ast.FunctionDef)}
    done = []
    for name, m in methods.items():
        body = [st for st in m.body if not (isinstance(st, ast.Expr) and isinstance(st.value, ast.Constant))]
        if len(body) != 1 or not isinstance(body[0], (ast.Expr, ast.Return)) or not isinstance(body[0].value, ast.Call):
            continue
        c = body[0].value
        if not (isinstance(c.func, ast.Attribute) and src(c.func.value) == "self" and c.func.attr in methods and c.func.attr != name):
            continue
        callee = methods[c.func.attr]
        own = {a.arg for a in m.args.args}
        actuals = list(c.args) + [k.value for k in c.keywords]
        if any(isinstance(a, ast.Starred) for a in c.args) or any(k.arg is None for k in c.keywords) or \
                not all(isinstance(a, ast.Constant) or (isinstance(a, ast.Name) and a.id in own) for a in actuals):
            continue
        formals = [a.arg for a in callee.args.args][1:]
        if len(c.args) > len(formals) or any(k.arg not in formals for k in c.keywords):
            continue
        bind = dict(zip(formals, c.args))
        bind.update({k.arg: k.value for k in c.keywords})
        for f_, d_ in zip(formals[len(formals) - len(callee.args.defaults):], callee.args.defaults):
            bind.setdefault(f_, d_)
        assigned = {n.id for n in ast.walk(callee) if isinstance(n, ast.Name) and isinstance(n.ctx, ast.Store)}
        if any(f_ not in bind for f_ in formals) or (assigned & set(formals)):
            continue
        new_body = clone([st for st in callee.body if not (isinstance(st, ast.Expr) and isinstance(st.value, ast.Constant))])

        class Bind(ast.NodeTransformer):
            def visit_Name(self, n):
                if isinstance(n.ctx, ast.Load) and n.id in bind:
                    return copy.deepcopy(bind[n.id]) if not hasattr(bind[n.id], "_parent") else clone(bind[n.id])
                return n

        def fold(stmts):
            out = []
            for st in stmts:
                st = Bind().visit(st)
                if isinstance(st, ast.If):
                    t = st.test
                    val = None
                    if isinstance(t, ast.Constant):
                        val = bool(t.value)
                    elif isinstance(t, ast.UnaryOp) and isinstance(t.op, ast.Not) and isinstance(t.operand, ast.Constant):
                        val = not bool(t.operand.value)
                    if val is not None:
                        out.extend(fold_inner(st.body if val else st.orelse))
                        continue
                out.append(st)
            return out

        def fold_inner(stmts):
            res = []
            for st in stmts:
                if isinstance(st, ast.If) and isinstance(st.test, ast.Constant):
                    res.extend(fold_inner(st.body if st.test.value else st.orelse))
                else:
                    res.append(st)
            return res
        doc = [st for st in m.body if isinstance(st, ast.Expr) and isinstance(st.value, ast.Constant)]
        m.body = doc + (fold(new_body) or [ast.Pass()])
        ast.fix_missing_locations(m)
        done.append(f"{cls_name}.{name} <- {cls_name}.{callee.name}({', '.join(f'{k}={src(v)}' for k, v in bind.items())})")
    if done:
        mod._link()
    return done


def write_out_star_args(mod, cls_name):
    """`f(a, *xs)` with xs a list written out in the source - a display, or a comprehension over a table of literals (local or class
    attribute assigned once), `getattr(obj, 'name')` of a literal name being `obj.name` - is read as the call with the elements
    written out.  Def-use resolution on the in-memory tree of this run only -> list of descriptions"""
    import copy
    try:
        cls_ = mod.cls(cls_name)
    except AnalysisError:
        return []
    done = []

    def class_table(attr):
        defs = [st.value for st in cls_.body if isinstance(st, ast.Assign) and any(isinstance(t, ast.Name) and t.id == attr for t in st.targets)]
        defs += [n.value for n in ast.walk(cls_) if isinstance(n, ast.Assign) and
                 any(isinstance(t, ast.Attribute) and t.attr == attr and src(t.value) in ("self", "cls") for t in n.targets)]
        return defs[0] if len(defs) == 1 else None

    def literal_seq(fn, e, depth=0):
        if depth > 3:
            return None
        if isinstance(e, (ast.Tuple, ast.List)) and not any(isinstance(x, ast.Starred) for x in e.elts):
            return list(e.elts)
        if isinstance(e, ast.Name):
            v = _single_value(fn, e.id)
            return literal_seq(fn, v, depth + 1) if v is not None else None
        if isinstance(e, ast.Attribute) and src(e.value) in ("self", "cls", cls_name, "type(self)", "self.__class__"):
            v = class_table(e.attr)
            return literal_seq(fn, v, depth + 1) if v is not None else None
        if isinstance(e, ast.Call) and isinstance(e.func, ast.Name) and e.func.id in ("list", "tuple") and len(e.args) == 1:
            return literal_seq(fn, e.args[0], depth + 1)
        if isinstance(e, (ast.ListComp, ast.GeneratorExp)) and len(e.generators) == 1 and not e.generators[0].ifs and \
                isinstance(e.generators[0].target, ast.Name):
            rows = literal_seq(fn, e.generators[0].iter, depth + 1)
            if rows is None or not all(isinstance(r, ast.Constant) for r in rows):
                return None
            var = e.generators[0].target.id
            out = []
            for r in rows:
                class B(ast.NodeTransformer):
                    def visit_Name(self, n):
                        return ast.Constant(value=r.value) if n.id == var and isinstance(n.ctx, ast.Load) else n
                x = B().visit(copy.deepcopy(e.elt))

                class G(ast.NodeTransformer):
                    def visit_Call(self, n):
                        n = self.generic_visit(n)
                        if isinstance(n.func, ast.Name) and n.func.id == "getattr" and len(n.args) == 2 and isinstance(n.args[1], ast.Constant) \
                                and isinstance(n.args[1].value, str) and n.args[1].value.isidentifier():
                            return ast.Attribute(value=n.args[0], attr=n.args[1].value, ctx=ast.Load())
                        return n
                out.append(G().visit(x))
            return out
        return None
    for m in [st for st in cls_.body if isinstance(st, ast.FunctionDef)]:
        for c in ast.walk(m):
            if not (isinstance(c, ast.Call) and any(isinstance(a, ast.Starred) for a in c.args)):
                continue
            new_args, ok = [], True
            for a in c.args:
                if not isinstance(a, ast.Starred):
                    new_args.append(a)
                    continue
                seq = literal_seq(m, a.value)
                if seq is None:
                    ok = False
                    break
                new_args.extend(ast.copy_location(x, a) for x in seq)
            if ok:
                done.append(f"{cls_name}.{m.name}: `{src(c)[:50]}` with the {len(new_args) - len(c.args) + 1} unpacked arguments written out")
                c.args = new_args
                ast.fix_missing_locations(c)
    if done:
        mod._link()
    return done


def _single_value(fn, name):
    d_ = [n for n in ast.walk(fn) if isinstance(n, ast.Assign) and len(n.targets) == 1 and isinstance(n.targets[0], ast.Name)
          and n.targets[0].id == name]
    stores = sum(1 for n in ast.walk(fn) if isinstance(n, ast.Name) and n.id == name and isinstance(n.ctx, ast.Store))
    return d_[0].value if len(d_) == 1 and stores == 1 else None


def kernel_reached(chk, fn, c, kname, m):
    """the density is what the kernel computes on EVERY path of the method: an early return before the kernel call, or a branch
    around it, hands back whatever the grid held (or what that path stored instead)"""
    from ..core import guards_of, enclosing_stmt
    cst = enclosing_stmt(c)
    skips = []
    for r in ast.walk(fn):
        if isinstance(r, ast.Return) and r.lineno < c.lineno and not any(r in set(ast.walk(x)) for x in [cst]):
            gs = [(t, pol) for t, pol, k in guards_of(r) if k in ("if", "while")]
            if gs:
                skips.append((r, gs))
    for t, pol, k in guards_of(c):
        if k != "if":
            continue
        # the other arm of the test: does it call a kernel too?
        node = cst
        while node is not None and not (isinstance(parent_of(node), ast.If) and parent_of(node).test is t):
            node = parent_of(node)
        if node is None:
            continue
        iff = parent_of(node)
        other = iff.orelse if node in iff.body else iff.body
        if not any(isinstance(x, ast.Call) and isinstance(x.func, ast.Name) and x.func.id in ("get_rho", "get_perturbed_rho")
                   for st in other for x in ast.walk(st)) and not any(isinstance(x, ast.Raise) for st in other for x in ast.walk(st)):
            skips.append((iff, [(t, not pol)]))
    if not skips:
        chk.ob("E2-kernel-reached", c, f"DensityFinder.{m}: {kname} on every path", True,
               "no early return and no branch around the kernel call: the density grid is always what the kernel computes",
               file=U.POISSON, func=f"DensityFinder.{m}")
        return
    for node, gs in skips:
        cond = " and ".join(("" if pol else "not ") + f"({src(t)[:70]})" for t, pol in gs)
        blk_stmts = []
        par = parent_of(node)
        for f_ in ("body", "orelse"):
            b_ = getattr(par, f_, None)
            if isinstance(b_, list) and node in b_:
                blk_stmts = b_[:b_.index(node)]
        if isinstance(node, ast.If):
            blk_stmts = node.orelse if gs[0][1] is False and node.test is gs[0][0] else node.body
        stores = [st for st in blk_stmts if isinstance(st, (ast.Assign, ast.AugAssign)) and
                  any("rho" in src(t_) for t_ in (st.targets if isinstance(st, ast.Assign) else [st.target]))]
        approx = any(isinstance(x, ast.Call) and src(x.func).split(".")[-1] in ("allclose", "isclose", "norm", "array_equal", "array_equiv")
                     for t, _ in gs for x in ast.walk(t)) or \
            any(isinstance(x, ast.Compare) and any(isinstance(o, (ast.Lt, ast.LtE, ast.Gt, ast.GtE)) for o in x.ops) and
                any(isinstance(y, ast.Constant) and isinstance(y.value, float) for y in ast.walk(x)) for t, _ in gs for x in ast.walk(t))
        empty_only = any(isinstance(x, ast.Attribute) and x.attr in ("size", "shape") for t, _ in gs for x in ast.walk(t)) or \
            any(isinstance(x, ast.Call) and src(x.func) in ("len", "np.size", "np.prod") for t, _ in gs for x in ast.walk(t))
        if (stores or approx) and empty_only and not approx:
            # a test on the extent of the block (a process that owns no point): the kernel would store nothing there either
            chk.ob("E2-kernel-reached", node, f"DensityFinder.{m}: {kname} on every path", None,
                   f"when `{cond}` the method does not call {kname}; the test looks at the extent of the local block: whether the path is "
                   "taken for an empty block only is not decided", file=U.POISSON, func=f"DensityFinder.{m}")
        elif stores or approx:
            # AUDIT: the path that skips the kernel stores something else into the density (a store whose target names rho) or is taken
            # on a comparison up to a tolerance; the condition is not a test on the extent of the block
            chk.ob("E2-kernel-reached", node, f"DensityFinder.{m}: {kname} on every path", False,
                   f"when `{cond}` the method returns without calling {kname}" +
                   (f" after `{src(stores[0])[:50]}`" if stores else "") + ": on that path the density grid is not the velocity integral of "
                   "the distribution but " + ("the value stored there" if stores else "whatever it held before") +
                   (" (the test is a comparison up to a tolerance: a small perturbation is treated as none, so the map is neither exact "
                    "nor linear)" if approx else ""), file=U.POISSON, func=f"DensityFinder.{m}")
        else:
            chk.ob("E2-kernel-reached", node, f"DensityFinder.{m}: {kname} on every path", None,
                   f"when `{cond}` the method does not call {kname}: whether the density grid is still the velocity integral on that path "
                   "is not decided", file=U.POISSON, func=f"DensityFinder.{m}")


def quadrature_system(chk):
    """the weights solve the TRANSPOSED interpolation system with the integrals of the basis functions on the right-hand side
    (sum_i q_i B_j(x_i) = int B_j): on every solve reached from get_quadrature_coefficients (helper methods of the class followed)
    the right-hand side is computed from the stored integrals of the basis - data flow through locals, in-place updates, helper
    parameters and helper results - and the system is the transposed one"""
    rel, q = U.INTERP, "SplineInterpolator1D.get_quadrature_coefficients"
    fn = chk.func(rel, q)
    methods = chk.mod(rel).methods("SplineInterpolator1D")
    group, todo = [fn], [fn]
    while todo:
        f_ = todo.pop()
        for c in ast.walk(f_):
            if isinstance(c, ast.Call) and isinstance(c.func, ast.Attribute) and src(c.func.value) == "self" and c.func.attr in methods \
                    and methods[c.func.attr] not in group:
                group.append(methods[c.func.attr])
                todo.append(methods[c.func.attr])

    def is_solve(c):
        return isinstance(c, ast.Call) and ((isinstance(c.func, ast.Attribute) and c.func.attr in ("solve", "_solveFunc", "gbtrs", "solve_banded"))
                                            and not (src(c.func.value) == "self" and c.func.attr in methods))
    solves = [(g, c) for g in group for c in ast.walk(g) if is_solve(c)]
    if not solves:
        chk.ob("E3-quadrature-system", fn, "M^T q = integrals of the basis", None, "no solve call found in the method", file=rel, func=q)
        return

    def flows(e, ctx, seen=()):
        """does the expression (in method ctx) read the stored integrals, through locals, in-place updates, parameters, helpers?"""
        for n in ast.walk(e):
            if isinstance(n, ast.Attribute) and "integral" in n.attr.lower():
                return True
            if isinstance(n, ast.Call) and isinstance(n.func, ast.Attribute) and src(n.func.value) == "self" and n.func.attr in methods and \
                    ("ret", n.func.attr) not in seen:
                h = methods[n.func.attr]
                if any(isinstance(r, ast.Return) and r.value is not None and flows(r.value, h, seen + (("ret", n.func.attr),)) for r in ast.walk(h)):
                    return True
            if isinstance(n, ast.Name) and isinstance(n.ctx, ast.Load) and (ctx.name, n.id) not in seen and n.id not in ("self", "np", "numpy"):
                sn = seen + ((ctx.name, n.id),)
                for d in ast.walk(ctx):
                    # names bound by a loop / comprehension / with: what they run over
                    if isinstance(d, (ast.For, ast.comprehension)) and any(isinstance(x, ast.Name) and x.id == n.id for x in ast.walk(d.target)) \
                            and flows(d.iter, ctx, sn):
                        return True
                    tg = d.targets if isinstance(d, ast.Assign) else [d.target] if isinstance(d, (ast.AugAssign, ast.AnnAssign)) else []
                    tg = [y for t in tg for y in (t.elts if isinstance(t, (ast.Tuple, ast.List)) else [t])]
                    for t in tg:
                        base = t
                        while isinstance(base, (ast.Subscript, ast.Attribute)):
                            base = base.value
                        if isinstance(base, ast.Name) and base.id == n.id and getattr(d, "value", None) is not None and flows(d.value, ctx, sn):
                            return True
                    # written through a call: np.add.at(x, idx, values), np.copyto(x, values), x.fill(...), np.add(a, b, out=x)
                    if isinstance(d, ast.Expr) and isinstance(d.value, ast.Call):
                        cargs = list(d.value.args) + [k.value for k in d.value.keywords]
                        recv = d.value.func.value if isinstance(d.value.func, ast.Attribute) else None
                        if any(isinstance(a, ast.Name) and a.id == n.id for a in cargs + ([recv] if recv is not None else [])) and \
                                any(flows(a, ctx, sn) for a in cargs if not (isinstance(a, ast.Name) and a.id == n.id)):
                            return True
                params = [a.arg for a in ctx.args.args]
                if n.id in params and ctx is not fn:
                    k = params.index(n.id) - 1
                    for g in group:
                        for c in ast.walk(g):
                            if isinstance(c, ast.Call) and isinstance(c.func, ast.Attribute) and src(c.func.value) == "self" and \
                                    c.func.attr == ctx.name:
                                act = c.args[k] if 0 <= k < len(c.args) else next((kw.value for kw in c.keywords if kw.arg == n.id), None)
                                if act is not None and flows(act, g, sn):
                                    return True
        return False
    def unresolved(e, ctx, seen=()):
        """calls in the data flow of e that are neither numpy / builtin operations nor methods of the class that are followed"""
        import builtins
        out = []
        plain = {"breaks", "knots", "greville", "nbasis", "degree", "ncells", "periodic", "cubic_uniform", "dtype", "size", "shape"}
        for n in ast.walk(e):
            if isinstance(n, ast.Attribute) and "basis" in src(n.value).lower() and n.attr not in plain and "integral" not in n.attr.lower():
                out.append(src(n))              # an attribute of the basis this rule does not know: it may hold the integrals
            if isinstance(n, ast.Call):
                f = src(n.func)
                known = f.startswith(("np.", "numpy.")) or (isinstance(n.func, ast.Name) and hasattr(builtins, n.func.id)) or \
                    (isinstance(n.func, ast.Attribute) and n.func.attr in ("copy", "astype", "reshape", "ravel", "flatten", "sum")) or \
                    (isinstance(n.func, ast.Attribute) and src(n.func.value) == "self" and n.func.attr in methods)
                if not known:
                    out.append(src(n))
            if isinstance(n, ast.Name) and isinstance(n.ctx, ast.Load) and (ctx.name, n.id) not in seen:
                plain_defs = 0
                for d in ast.walk(ctx):
                    if isinstance(d, ast.Assign) and any(isinstance(t, ast.Name) and t.id == n.id for t in d.targets):
                        plain_defs += 1
                        out += unresolved(d.value, ctx, seen + ((ctx.name, n.id),))
                # bound in another way (unpacking, a with statement, a walrus, an import): not followed
                other_bind = any(isinstance(x, ast.Name) and x.id == n.id and isinstance(x.ctx, ast.Store) for x in ast.walk(ctx))
                if not plain_defs and other_bind and n.id not in [a.arg for a in ctx.args.args] and \
                        not any(isinstance(d, (ast.For, ast.comprehension, ast.AugAssign)) and
                                any(isinstance(x, ast.Name) and x.id == n.id for x in ast.walk(d.target)) for d in ast.walk(ctx)):
                    out.append(f"`{n.id}` (bound by unpacking / with / import)")
        return out
    cls_node = chk.mod(rel).cls("SplineInterpolator1D")

    def siblings(c):
        """solves of the interpolation methods (outside the quadrature computation) made on the same factorisation object in the same
        call form (same receiver and method, same number of positional arguments, no `trans`)"""
        if not (isinstance(c.func, ast.Attribute) and isinstance(c.func.value, ast.Attribute) and src(c.func.value.value) == "self"):
            return []
        recv = src(c.func.value)
        ndef = sum(1 for n in ast.walk(cls_node) if isinstance(n, ast.Assign) and any(src(t) == recv for t in n.targets))
        if ndef != 1:
            return []
        out = []
        for mname, m_ in methods.items():
            if m_ in group:
                continue
            for x in ast.walk(m_):
                if is_solve(x) and src(x.func) == src(c.func) and len(x.args) == len(c.args) and \
                        not any(k.arg in ("trans", None) for k in x.keywords):
                    out.append((x, m_))
        return out
    def through_wrapper(c):
        """'T' / 'N' when the receiver `self.<attr>` is built from classes of the module whose method of that name makes solve calls
        that are all transposed / all plain once this call's arguments are bound; None otherwise"""
        if not (isinstance(c.func, ast.Attribute) and isinstance(c.func.value, ast.Attribute) and src(c.func.value.value) == "self"):
            return None
        attr = c.func.value.attr
        mod_classes = {st.name: st for st in chk.mod(rel).tree.body if isinstance(st, ast.ClassDef)}
        ctors = [n.value for n in ast.walk(cls_node) if isinstance(n, ast.Assign) and any(src(t) == f"self.{attr}" for t in n.targets)]
        if not ctors or not all(isinstance(v, ast.Call) and isinstance(v.func, ast.Name) and v.func.id in mod_classes for v in ctors):
            return None
        verdicts = set()
        for v in ctors:
            meth = next((st for st in mod_classes[v.func.id].body if isinstance(st, ast.FunctionDef) and st.name == c.func.attr), None)
            if meth is None:
                return None
            formals = [a.arg for a in meth.args.args][1:]
            if len(c.args) > len(formals) or any(k.arg not in formals for k in c.keywords):
                return None
            bind = dict(zip(formals, c.args))
            bind.update({k.arg: k.value for k in c.keywords})
            for f_, d_ in zip(formals[len(formals) - len(meth.args.defaults):], meth.args.defaults):
                bind.setdefault(f_, d_)
            if {n.id for n in ast.walk(meth) if isinstance(n, ast.Name) and isinstance(n.ctx, ast.Store)} & set(formals):
                return None
            inner = [x for x in ast.walk(meth) if is_solve(x)]
            if not inner:
                return None
            for x in inner:
                tk = [k.value for k in x.keywords if k.arg == "trans"]
                val = tk[0] if tk else None

                def fold(e):
                    if isinstance(e, ast.Name) and e.id in bind:
                        return fold(bind[e.id])
                    if isinstance(e, ast.IfExp):
                        t_ = fold(e.test)
                        if isinstance(t_, ast.Constant):
                            return fold(e.body if t_.value else e.orelse)
                    if isinstance(e, ast.UnaryOp) and isinstance(e.op, ast.Not):
                        t_ = fold(e.operand)
                        if isinstance(t_, ast.Constant):
                            return ast.Constant(value=not t_.value)
                    return e
                val = fold(val) if val is not None else None
                if val is None:
                    verdicts.add("N" if x.func.attr == "solve" else "?")
                elif isinstance(val, ast.Constant) and val.value in ("T", True, 1):
                    verdicts.add("T")
                elif isinstance(val, ast.Constant) and val.value in ("N", False, 0):
                    verdicts.add("N")
                else:
                    verdicts.add("?")
        return verdicts.pop() if len(verdicts) == 1 and "?" not in verdicts else None
    for g, c in solves:
        args = list(c.args) + [k.value for k in c.keywords if k.arg not in ("trans", "overwrite_b", "overwrite_ab")]
        rhs = [a for a in args if not (isinstance(a, ast.Attribute) and isinstance(a.value, ast.Name) and a.value.id == "self" and
                                       a.attr in ("_bmat", "_l", "_u", "_ipiv", "_splu"))]
        tr = [k for k in c.keywords if k.arg == "trans"]
        if not tr and isinstance(c.func, ast.Attribute) and c.func.attr == "solve" and len(c.args) == 2 and \
                isinstance(c.args[1], ast.Constant) and isinstance(c.args[1].value, str):
            tr = [ast.keyword(arg="trans", value=c.args[1])]        # SuperLU.solve(rhs, trans)
            rhs = [a for a in rhs if a is not c.args[1]]
        if not tr:
            # caller + callee: the solve of a small solver object of the module (`self._solver.solve(rhs, transposed=True)`): the
            # transposition its own solve call(s) get with this call's arguments bound
            inner = through_wrapper(c)
            if inner is not None:
                tr = [ast.keyword(arg="trans", value=ast.Constant(value=inner))]
        transposed = bool(tr) and (src(tr[0].value) in ("'T'", '"T"', "True", "1"))
        reads = any(flows(a, g) for a in rhs)
        opaque = [] if reads else [x for a in rhs for x in unresolved(a, g)]
        if not reads and opaque:
            chk.ob("E3-quadrature-system", c, f"{src(c)[:70]}", None,
                   f"the right-hand side `{src(rhs[-1])[:50]}` is computed with `{opaque[0][:50]}`, which is not followed: whether it yields the "
                   "integrals of the basis functions is not decided", file=rel, func=getattr(g, "_qual", q))
            continue
        if reads and transposed:
            ok, why = True, "the right-hand side is computed from the stored integrals of the basis and the transposed system is solved"
        elif not reads and rhs:
            ok, why = False, (f"the right-hand side `{src(rhs[-1])[:60]}` of `{src(c)[:50]}` is not computed from the integrals of the basis "
                              "functions (the stored `integrals` of the spline basis are not read on this path): the weights then integrate "
                              "the spline exactly only where that quantity happens to equal the integrals (uniform knots, say)")
        elif reads and tr and not transposed and src(tr[0].value) in ("'N'", '"N"', "False", "0"):
            ok, why = False, (f"`{src(c)[:60]}` solves the interpolation system itself (trans={src(tr[0].value)}), not its transpose: the "
                              "result is not a set of quadrature weights")
        elif reads and not tr and siblings(c):
            # relational: the same factorisation is used, in the same call form, by the interpolation itself
            sb, sg = siblings(c)[0]
            ok, why = False, (f"`{src(c)[:60]}` passes no `trans` argument, exactly like `{src(sb)[:50]}` in {sg.name}, which solves the "
                              f"interpolation (collocation) system M c = u with the same factorisation `{src(c.func.value)}`: the weights "
                              "must solve the TRANSPOSED system M^T q = integrals of the basis; the collocation matrix is symmetric only "
                              "for uniform knots, so on a non-uniform periodic space the result is not a set of quadrature weights")
        elif reads:
            ok, why = None, f"`{src(c)[:60]}`: whether the transposed system is solved was not recognised"
        else:
            ok, why = None, f"`{src(c)[:60]}` not recognised"
        chk.ob("E3-quadrature-system", c, f"{src(c)[:70]}", ok, why, file=rel, func=getattr(g, "_qual", q))


def parent_of(n):
    return getattr(n, "_parent", None)


class _TableRoles:
    """stands for the Check while the index-space rules shared with C05 run: when engine C cannot type the axes of the equilibrium
    table (built with operations it does not model) but the symbolic reading of the constructor has established that entry [i, j]
    is f_eq(r_i, v_j) over all r and v points, the axes of the table are [global r, global v] by that result"""

    def __init__(self, chk, tab_ok):
        object.__setattr__(self, "_chk", chk)
        object.__setattr__(self, "_tab_ok", tab_ok)

    def __getattr__(self, k):
        return getattr(self._chk, k)

    def __setattr__(self, k, v):
        setattr(self._chk, k, v)

    ELEMENTWISE = {"add", "subtract", "multiply", "divide", "true_divide", "floor_divide", "power", "maximum", "minimum", "fmax", "fmin",
                   "where", "copyto", "hypot", "arctan2", "mod", "fmod", "remainder", "equal", "not_equal", "less", "greater",
                   "less_equal", "greater_equal", "logical_and", "logical_or", "isclose", "allclose", "array_equal"}

    def ob(self, rule, node, construct, ok, msg="", **kw):
        if ok is False and "element-wise combination" in msg:
            # AUDIT: engine C reports `element-wise combination of axes A and B` for the array operands of every operation it does not
            # know, as if it paired them entry by entry.  That is true of the arithmetic operators and the binary ufuncs listed above,
            # between operands that are not placed on different axes first (np.newaxis / None / reshape / expand_dims make the
            # combination a broadcast, i.e. an outer pairing).  For anything else (np.take, np.dot, einsum, ...) the diagnosis is not
            # established: UNDECIDED
            f_ = node.func if isinstance(node, ast.Call) else None
            fname = f_.attr if isinstance(f_, ast.Attribute) else f_.id if isinstance(f_, ast.Name) else None
            placed = any((isinstance(x, ast.Constant) and x.value is None and isinstance(getattr(x, "_parent", None), (ast.Tuple, ast.Subscript))) or
                         (isinstance(x, ast.Attribute) and src(x) in ("np.newaxis", "numpy.newaxis")) or
                         (isinstance(x, ast.Call) and src(x.func).split(".")[-1] in ("expand_dims", "reshape", "atleast_2d", "atleast_3d", "broadcast_to"))
                         for x in (ast.walk(node) if isinstance(node, ast.AST) else []))
            if (isinstance(node, ast.Call) and fname not in self.ELEMENTWISE) or placed:
                ok = None
                msg = ("engine C reads `" + str(construct)[:60] + "` as an entry-by-entry pairing of its array operands (" + msg[:120] +
                       "), which is not established for " + ("operands placed on different axes (broadcast)" if placed else f"`{fname}`") +
                       ": not decided")
        if rule == "C-coindexed-axes" and ok is False:
            # engine C pairs the arrays of a kernel by the NAMES of its loop variables; when the formula extracted from that kernel
            # equals the specification (every array indexed by the right variable: rule F3-density-sum), a mismatch found by names is
            # an artefact of re-ordered / renamed loops and is not reported as a violation
            for kname in ("get_perturbed_rho", "get_rho"):
                if str(construct).startswith(kname + ":") and any(o.rule == "F3-density-sum" and o.func == kname and o.status == "HOLDS"
                                                                  for o in self._chk.obs):
                    ok = None
                    msg = ("pairing of the kernel's arrays by loop-variable names: " + msg[:160] + " - not confirmed by the extracted formula "
                           "of the kernel, which indexes every array as the specification does (F3-density-sum holds); which rows the "
                           "caller passes is decided by E2-row-offset / C-window")
        if rule == "C-table-roles" and ok is None and self._tab_ok is True and "self._fEq" in str(construct):
            ok, msg = True, ("engine C does not type the axes of the table (" + msg[:80] + "); the symbolic reading of the constructor "
                             "established entry [i, j] = f_eq(r_i, v_j) over all r points and all v points: axes [global r, global v]")
        return self._chk.ob(rule, node, construct, ok, msg, **kw)


# ------------------------------------------------------------------ content of the equilibrium table
class _V1:
    """1-D array seen through its element: f(k), n entries"""

    def __init__(self, f, n):
        self.f, self.n = f, n


class _T2:
    """2-D table filled column range by column range: segs = [(lo, hi, f(i, j))] for the columns lo <= j < hi"""

    def __init__(self, nrows, ncols):
        self.nrows, self.ncols, self.segs = nrows, ncols, []

    def elem(self):
        if len(self.segs) == 1 and sp.simplify(self.segs[0][0]) == 0 and sp.simplify(self.segs[0][1] - self.ncols) == 0:
            return self.segs[0][2]
        raise Undecided("a table filled in several pieces is read as a whole")


class _View:
    """columns lo <= j < hi of a table (all rows), possibly in reversed order"""

    def __init__(self, tab, lo, hi, rev=False):
        self.tab, self.lo, self.hi, self.rev = tab, lo, hi, rev

    @property
    def width(self):
        return self.hi - self.lo

    def col(self, j):
        return (self.hi - 1 - j) if self.rev else (self.lo + j)


class _B2:
    """2-D value seen through its element f(i, j) (vectors placed on an axis with [:, None] / [None, :] and what is computed from
    them by element-wise operations)"""

    def __init__(self, f):
        self.f = f


_PURE = {}


def closed_form(chk, fname, argvals):
    """value of a scalar function of initialiser_funcs at symbolic arguments, its helper functions written out (symbolic forward
    substitution of the function body)"""
    mod = chk.mod(U.INITF)
    if not mod.has(fname):
        raise Undecided(f"function `{fname}` of the initialiser module")
    fn = mod.func(fname)
    params = [a.arg for a in fn.args.args]
    if len(params) != len(argvals) or any(not isinstance(a, sp.Basic) for a in argvals):
        raise Undecided(f"arguments of `{fname}`")
    ex = SymExec(fn, dict(zip(params, argvals)), calls={})
    ex.module_funcs = {q: f for q, f in mod.functions().items() if "." not in q}
    ex.run()
    if ex.ret is None or not isinstance(ex.ret, sp.Basic):
        raise Undecided(f"`{fname}` does not return a scalar formula")
    return ex.ret


class TableModel:
    """symbolic reading of DensityFinder.__init__: which value every entry of the equilibrium table gets.  Arrays are element
    functions, a table is a list of column ranges with their element function, `feq_vector(T, R, V, ...)` sets T[i, j] =
    f_eq(R[i], V[j]); both arms of an `if` are read (one pass per combination of decisions).  Nothing is executed."""

    def __init__(self, init, fv_formals, decisions, chk=None):
        self.init, self.formals, self.decisions = init, fv_formals, list(decisions)
        self.chk = chk
        self.taken = 0
        self.env = {}
        params = [a.arg for a in init.args.args]
        self.eta = params[3] if len(params) > 3 else "eta_grid"
        self.const = params[4] if len(params) > 4 else "constants"
        for p_ in params[1:]:
            self.env[p_] = Symbol(p_)
        self.more = False            # an `if` beyond the decisions given: another pass is needed

    def ev(self, e):
        if isinstance(e, ast.Constant) and isinstance(e.value, (int, float)) and not isinstance(e.value, bool):
            return sp.Integer(e.value) if isinstance(e.value, int) else sp.Rational(repr(e.value))
        if isinstance(e, ast.Name):
            if e.id in self.env:
                return self.env[e.id]
            raise Undecided(f"unknown name `{e.id}`")
        if isinstance(e, ast.Attribute):
            if src(e) in self.env:
                return self.env[src(e)]
            if src(e.value) == self.const:
                return Symbol(src(e))
            if src(e) in ("np.pi", "numpy.pi", "math.pi"):
                from ..symx import PI
                return PI
            if e.attr == "size":
                v = self.ev(e.value)
                if isinstance(v, _V1):
                    return v.n
            if e.attr == "shape":
                v = self.ev(e.value)
                if isinstance(v, _T2):
                    return (v.nrows, v.ncols)
                if isinstance(v, _V1):
                    return (v.n,)
            raise Undecided(f"attribute `{src(e)[:40]}`")
        if isinstance(e, (ast.List, ast.Tuple)):
            return tuple(self.ev(x) for x in e.elts)
        if isinstance(e, ast.UnaryOp) and isinstance(e.op, ast.USub):
            v = self.ev(e.operand)
            if isinstance(v, sp.Basic):
                return -v
            if isinstance(v, _B2):
                return _B2(lambda i, j, v=v: -v.f(i, j))
        if isinstance(e, ast.BinOp):
            a, b = self.ev(e.left), self.ev(e.right)
            ops = {ast.Add: lambda x, y: x + y, ast.Sub: lambda x, y: x - y, ast.Mult: lambda x, y: x * y,
                   ast.Div: lambda x, y: x / y, ast.Pow: lambda x, y: x ** y}
            if isinstance(a, sp.Basic) and isinstance(b, sp.Basic):
                if type(e.op) in ops:
                    return ops[type(e.op)](a, b)
                if isinstance(e.op, ast.FloorDiv):
                    return sp.floor(a / b)
            if (isinstance(a, _B2) or isinstance(b, _B2)) and all(isinstance(x, (_B2, sp.Basic)) for x in (a, b)) and type(e.op) in ops:
                op = ops[type(e.op)]
                return _B2(lambda i, j, a=a, b=b, op=op: op(a.f(i, j) if isinstance(a, _B2) else a, b.f(i, j) if isinstance(b, _B2) else b))
            raise Undecided(f"operator in `{src(e)[:40]}`")
        if isinstance(e, ast.Subscript):
            if src(e.value) == self.eta and isinstance(e.slice, ast.Constant) and isinstance(e.slice.value, int):
                d = e.slice.value
                X = sp.Function(f"x{d}")
                return _V1((lambda k, X=X: X(k)), Symbol(f"N{d}", integer=True, positive=True))
            base = self.ev(e.value)
            if isinstance(base, tuple) and isinstance(e.slice, ast.Constant):
                return base[e.slice.value]
            if isinstance(base, _V1):
                return self.slice1(base, e.slice, e)
            if isinstance(base, (_T2, _View)):
                return self.slice2(base, e.slice, e)
            raise Undecided(f"subscript `{src(e)[:40]}`")
        if isinstance(e, ast.Call):
            f = src(e.func)
            if f in ("np.empty", "np.zeros", "np.ndarray") and e.args:
                shp = self.ev(e.args[0])
                if isinstance(shp, tuple) and len(shp) == 2 and all(isinstance(x, sp.Basic) for x in shp):
                    return _T2(shp[0], shp[1])
                raise Undecided(f"`{src(e)[:40]}`")
            if f == "len" and len(e.args) == 1:
                v = self.ev(e.args[0])
                if isinstance(v, _V1):
                    return v.n
            if f in ("np.empty_like", "np.zeros_like") and len(e.args) == 1:
                v = self.ev(e.args[0])
                if isinstance(v, _T2):
                    return _T2(v.nrows, v.ncols)
                if isinstance(v, _View):
                    return _T2(v.tab.nrows, v.width)
            if f == "int" and len(e.args) == 1:
                return self.ev(e.args[0])
            name = f.split(".")[-1]
            args = [self.ev(a) for a in e.args]
            if e.keywords or not all(isinstance(a, (_B2, sp.Basic)) for a in args):
                raise Undecided(f"call `{src(e)[:40]}`")
            fun = None
            if f in ("np.exp", "np.sqrt", "np.tanh", "np.real", "np.cos", "np.sin") and len(args) == 1:
                fun = {"exp": sp.exp, "sqrt": sp.sqrt, "tanh": sp.tanh, "real": (lambda x: x), "cos": sp.cos, "sin": sp.sin}[name]
            elif self.chk is not None and (f == name or f.split(".")[0] in ("init", "initialiser_funcs")) and \
                    self.chk.mod(U.INITF).has(name):
                fun = (lambda *xs, name=name: closed_form(self.chk, name, list(xs)))
            if fun is None:
                raise Undecided(f"call `{src(e)[:40]}`")
            if any(isinstance(a, _B2) for a in args):
                return _B2(lambda i, j, args=args, fun=fun: fun(*[a.f(i, j) if isinstance(a, _B2) else a for a in args]))
            return fun(*args)
        raise Undecided(f"expression `{src(e)[:40]}`")

    def bounds(self, sl, n):
        if sl.step is not None:
            st = self.ev(sl.step)
            if not (st == -1 and sl.lower is None and sl.upper is None):
                raise Undecided("strided slice")
            return sp.Integer(0), n, True
        lo = self.ev(sl.lower) if sl.lower is not None else sp.Integer(0)
        hi = self.ev(sl.upper) if sl.upper is not None else n
        if not (isinstance(lo, sp.Basic) and isinstance(hi, sp.Basic)):
            raise Undecided("slice bounds")
        if lo.is_number and lo < 0:
            lo = n + lo
        if hi.is_number and hi < 0:
            hi = n + hi
        return lo, hi, False

    def slice1(self, v, sl, e):
        if isinstance(sl, ast.Tuple) and len(sl.elts) == 2:
            kinds = ["s" if (isinstance(x, ast.Slice) and x.lower is None and x.upper is None and x.step is None) else
                     "n" if (isinstance(x, ast.Constant) and x.value is None) or src(x) in ("np.newaxis", "numpy.newaxis") else "?" for x in sl.elts]
            if kinds == ["s", "n"]:
                return _B2(lambda i, j, v=v: v.f(i))
            if kinds == ["n", "s"]:
                return _B2(lambda i, j, v=v: v.f(j))
            raise Undecided(f"index `{src(e)[:40]}`")
        if not isinstance(sl, ast.Slice):
            k = self.ev(sl)
            if isinstance(k, sp.Basic):
                return v.f(v.n + k if (k.is_number and k < 0) else k)
            raise Undecided(f"index `{src(e)[:40]}`")
        lo, hi, rev = self.bounds(sl, v.n)
        if rev:
            return _V1((lambda k, v=v: v.f(v.n - 1 - k)), v.n)
        return _V1((lambda k, v=v, lo=lo: v.f(lo + k)), hi - lo)

    def slice2(self, base, sl, e):
        items = sl.elts if isinstance(sl, ast.Tuple) else None
        if not items or len(items) != 2 or not (isinstance(items[0], ast.Slice) and items[0].lower is None and items[0].upper is None
                                                and items[0].step is None) or not isinstance(items[1], ast.Slice):
            raise Undecided(f"`{src(e)[:40]}` is not a range of whole columns")
        view = base if isinstance(base, _View) else _View(base, sp.Integer(0), base.ncols)
        lo, hi, rev = self.bounds(items[1], view.width)
        if rev:
            return _View(view.tab, view.lo, view.hi, not view.rev)
        if view.rev:
            return _View(view.tab, view.hi - hi, view.hi - lo, True)
        return _View(view.tab, view.lo + lo, view.lo + hi, False)

    def read(self, v):
        """element function (i, j) of a table or view used as a value"""
        if isinstance(v, _T2):
            return v.elem(), v.ncols
        if isinstance(v, _View):
            f = None
            for lo, hi, g in v.tab.segs:
                if sp.simplify(lo - v.lo) == 0 and sp.simplify(hi - v.hi) == 0:
                    f = g
            whole = None
            try:
                whole = v.tab.elem()
            except Undecided:
                pass
            f = f or whole
            if f is None:
                raise Undecided("a view that does not coincide with one filled range is read")
            return (lambda i, j, f=f, v=v: f(i, v.col(j))), v.width
        raise Undecided("value is not a table")

    def write(self, target, g, width):
        """columns of the target get element function g(i, j) (j relative to the target)"""
        view = target if isinstance(target, _View) else _View(target, sp.Integer(0), target.ncols)
        if sp.simplify(view.width - width) != 0:
            raise Undecided(f"{width} columns are stored into a range of {view.width}")
        tab = view.tab
        if view.rev:
            h = (lambda i, j, g=g, view=view: g(i, view.hi - 1 - j))
        else:
            h = (lambda i, j, g=g, view=view: g(i, j - view.lo))
        tab.segs = [s_ for s_ in tab.segs if not (sp.simplify(s_[0] - view.lo) == 0 and sp.simplify(s_[1] - view.hi) == 0)]
        for lo, hi, _ in tab.segs:
            if not (sp.simplify(hi - view.lo).is_nonpositive or sp.simplify(view.hi - lo).is_nonpositive or
                    sp.simplify(hi - view.lo) == 0 or sp.simplify(view.hi - lo) == 0):
                raise Undecided("column ranges that may overlap are stored")
        tab.segs.append((view.lo, view.hi, h))

    def stmt(self, st):
        if isinstance(st, ast.Expr) and isinstance(st.value, ast.Constant):
            return
        if isinstance(st, (ast.Pass, ast.Assert, ast.Import, ast.ImportFrom)):
            return
        if isinstance(st, ast.If):
            if self.taken >= len(self.decisions):
                self.more = True
                self.decisions.append(True)
            arm = self.decisions[self.taken]
            self.taken += 1
            self.block(st.body if arm else st.orelse)
            return
        if isinstance(st, ast.Expr) and isinstance(st.value, ast.Call) and src(st.value.func).split(".")[-1] == "feq_vector":
            c = st.value
            b = agree.bind_call(c, self.formals)
            if b is None or any(f_ not in b for f_ in self.formals):
                raise Undecided("arguments of feq_vector")
            T, R, V = self.ev(b[self.formals[0]]), self.ev(b[self.formals[1]]), self.ev(b[self.formals[2]])
            if not (isinstance(T, (_T2, _View)) and isinstance(R, _V1) and isinstance(V, _V1)):
                raise Undecided("feq_vector is not given a table and two point arrays")
            nrows = T.nrows if isinstance(T, _T2) else T.tab.nrows
            width = T.ncols if isinstance(T, _T2) else T.width
            if sp.simplify(nrows - R.n) != 0 or sp.simplify(width - V.n) != 0:
                raise Undecided(f"feq_vector fills a {nrows} x {width} table from {R.n} radii and {V.n} velocities")
            cs = [self.ev(b[f_]) for f_ in self.formals[3:]]
            self.write(T, (lambda i, j, R=R, V=V, cs=cs: FEQ(R.f(i), V.f(j), *cs)), width)
            return
        if isinstance(st, ast.Assign) and len(st.targets) == 1:
            t = st.targets[0]
            if isinstance(t, ast.Subscript):
                tgt = self.ev(t)
                if isinstance(tgt, (_T2, _View)):
                    g, w = self.read(self.ev(st.value))
                    self.write(tgt, g, w)
                    return
                raise Undecided(f"store `{src(st)[:40]}`")
            try:
                v = self.ev(st.value)
            except Undecided:
                v = None                    # something this model does not follow (the weights, say): the name stays unknown
            if isinstance(t, ast.Name):
                if v is None:
                    self.env.pop(t.id, None)
                else:
                    self.env[t.id] = v
            elif isinstance(t, ast.Attribute) and src(t.value) == "self":
                if v is None:
                    self.env.pop(src(t), None)
                else:
                    self.env[src(t)] = v
            elif isinstance(t, ast.Tuple) and isinstance(v, tuple) and len(v) == len(t.elts) and all(isinstance(x, ast.Name) for x in t.elts):
                for x, y in zip(t.elts, v):
                    self.env[x.id] = y
            return
        if isinstance(st, ast.Expr):
            return
        raise Undecided(f"statement `{src(st)[:40]}`")

    def block(self, stmts):
        for st in stmts:
            self.stmt(st)


def equilibrium_table_content(chk, init, fv):
    """every entry [i, j] of the table the kernels read is f_eq(r_i, v_j) with the constants in their roles, on every path of the
    constructor -> True / False / None (decided?)"""
    formals = [a.arg for a in fv.args.args]
    expected = {"CN0": "CN0", "kN0": "kN0", "deltaRN0": "deltaRN0", "rp": "rp", "Cti": "CTi", "kti": "kTi", "deltaRti": "deltaRTi"}
    if len(formals) != 10 or any(f_ not in expected for f_ in formals[3:]):
        return None
    todo, verdicts, seen = [[]], [], 0
    i, j = Symbol("i", integer=True), Symbol("j", integer=True)
    X0, X3 = sp.Function("x0"), sp.Function("x3")
    N0, N3 = Symbol("N0", integer=True, positive=True), Symbol("N3", integer=True, positive=True)
    while todo and seen < 16:
        dec = todo.pop()
        seen += 1
        tm = TableModel(init, formals, dec, chk)
        cname = tm.const
        spec = FEQ(X0(i), X3(j), *[Symbol(f"{cname}.{expected[f_]}") for f_ in formals[3:]])
        try:
            tm.block(init.body)
        except Undecided as e:
            verdicts.append((None, f"the construction of the table is outside the interpreted fragment: {e}", init))
            continue
        if tm.more:
            k = len(dec)
            full = tm.decisions
            # the pass took the true arm of every test beyond `dec`: queue the passes that take the false arm of one of them
            for n_ in range(k, len(full)):
                todo.append(full[:n_] + [False])
        path = "".join("T" if d_ else "F" for d_ in tm.decisions) or "-"
        T = tm.env.get("self._fEq")
        if isinstance(T, _B2):
            # a whole table computed by broadcasting the r points along the rows and the v points along the columns
            t2 = _T2(N0, N3)
            t2.segs = [(sp.Integer(0), N3, T.f)]
            T = t2
        if not isinstance(T, _T2):
            verdicts.append((None, f"self._fEq is not obtained as a table (path {path})", init))
            continue
        if sp.simplify(T.nrows - N0) != 0 or sp.simplify(T.ncols - N3) != 0:
            verdicts.append((None, f"the table has {T.nrows} x {T.ncols} entries, not (number of r points) x (number of v points)", init))
            continue
        segs = sorted(T.segs, key=lambda s_: sp.default_sort_key(s_[0]))
        # cover [0, N3): order the ranges by following the chain of bounds
        chain, at = [], sp.Integer(0)
        rest = list(T.segs)
        while rest:
            nxt = [s_ for s_ in rest if sp.simplify(s_[0] - at) == 0]
            if len(nxt) != 1:
                break
            chain.append(nxt[0])
            rest.remove(nxt[0])
            at = nxt[0][1]
        if rest or sp.simplify(at - N3) != 0:
            verdicts.append((None, f"the column ranges that are filled ({[(str(a), str(b)) for a, b, _ in T.segs]}) were not shown to cover "
                                   f"the table (path {path})", init))
            continue
        bad = None
        unproved = None
        for lo, hi, f in chain:
            got = f(i, j)
            same = sp.simplify(got - spec) == 0
            if not same and not (getattr(got, "func", None) == FEQ and len(got.args) == len(spec.args)) and \
                    (not got.has(FEQ) or got.atoms(sp.Function) - spec.atoms(sp.Function)):
                # written with the profile functions instead of feq_vector: compare the formulas with f_eq written out
                try:
                    ex_g = got.replace(FEQ, lambda *a: closed_form(chk, "f_eq", list(a)))
                    ex_s = spec.replace(FEQ, lambda *a: closed_form(chk, "f_eq", list(a)))
                    same = alg_equal(ex_g, ex_s) or sp.simplify(ex_g / ex_s - 1) == 0
                    if not same:
                        # AUDIT: two closed forms with exp / tanh: "different" only when sympy's zero test refutes the identity;
                        # a difference that was merely not simplified to zero is UNDECIDED
                        try:
                            refuted = (ex_g - ex_s).equals(0) is False
                        except Exception:
                            refuted = False
                        if not refuted:
                            unproved = (f"for the columns {lo} <= j < {hi} the entry [i, j] is {str(ex_g)[:200]}: its equality with "
                                        "f_eq(r_i, v_j) was neither proved nor refuted")
                            continue
                        bad = (f"for the columns {lo} <= j < {hi} the entry [i, j] is {str(ex_g)[:260]}; the equilibrium the kernels "
                               f"subtract is f_eq(r_i, v_j) = {str(ex_s)[:260]} (x0 = r points, x3 = v points)")
                        break
                    continue
                except Undecided:
                    pass
            if not same:
                # AUDIT: both sides are the uninterpreted f_eq applied to arguments; they differ when an argument pair differs as a
                # polynomial in independent atoms (x3(N3 - 1 - j) against x3(j), constants.kTi against constants.deltaRTi); a pair
                # that is only not simplified to equal is UNDECIDED
                proved = None
                if got.func == FEQ and spec.func == FEQ and len(got.args) == len(spec.args):
                    from sympy.core.function import AppliedUndef
                    for x_, y_ in zip(got.args, spec.args):
                        d_ = sp.expand(x_ - y_)
                        if d_ != 0 and sp.simplify(d_) != 0 and all(isinstance(f_, AppliedUndef) for f_ in d_.atoms(sp.Function)) and \
                                d_.is_polynomial(*d_.atoms(sp.Symbol, AppliedUndef)):
                            proved = True
                if not proved:
                    unproved = f"for the columns {lo} <= j < {hi} the entry [i, j] is {str(got)[:200]}, not proved equal to or different from {spec}"
                    continue
                bad = (f"for the columns {lo} <= j < {hi} the entry [i, j] is {got}, the kernels need {spec} (x0 = r points, x3 = v "
                       "points)" + (": the value at another velocity point is stored, which is the same only if the v points are placed "
                                    "symmetrically about 0 point by point" if got.has(X3) and not got.has(X3(j)) else ""))
                break
        verdicts.append((False, bad, init) if bad is not None else (None, unproved, init) if unproved is not None else (True, "", init))
    if seen >= 16 and todo:
        verdicts.append((None, "too many branches in the constructor", init))
    if any(v is False for v, _, _ in verdicts):
        why = "; ".join(m for v, m, _ in verdicts if v is False)
        ok = False
    elif any(v is None for v, _, _ in verdicts):
        why = "; ".join(m for v, m, _ in verdicts if v is None)
        ok = None
    else:
        ok, why = True, f"on each of the {len(verdicts)} path(s) of the constructor every entry [i, j] is f_eq(r_i, v_j) with the constants in their roles"
    chk.ob("E2-table-content", init, "self._fEq[i, j] = f_eq(r_i, v_j)", ok, why, file=U.POISSON, func="DensityFinder.__init__")
    return ok


def run(chk):
    merged = inline_sibling_delegations(chk.mod(U.POISSON), "DensityFinder")
    if merged:
        chk.note("merged code paths read as the methods they stand for: " + "; ".join(merged))
    written = write_out_star_args(chk.mod(U.POISSON), "DensityFinder")
    if written:
        chk.note("unpacked argument lists written out: " + "; ".join(written))
    chk.explanation = (
        "Engine F: the density kernels compute rho[i,j,k] = sum_l w_l (f[i,j,k,l] - f_eq[i,l]) (resp. without f_eq), read either "
        "as element loops or as whole-array numpy code (broadcasting, einsum / dot / matmul / tensordot / sum over an axis, out=: every "
        "array is its generic element, a contraction a symbolic Sum; a store into rho.real / rho.imag of a possibly complex rho is a "
        "partial write; in element loops a store through a view of one part (`rho.real[...]`, or a local bound to it) is followed by "
        "def-use and leaves the other part unwritten; an element of rho read before the kernel stored into it and flowing into the "
        "result makes the density depend on the previous content of the grid - 0.0 * nan is nan - even where it cancels "
        "algebraically; kernel parameters are identified by the rank of their annotation), and "
        "feq_vector fills f_eq(r_i, v_j); the constructor of DensityFinder is read symbolically (tables as column ranges with their "
        "element function, both arms of every test): every entry [i, j] of the equilibrium table is f_eq(r_i, v_j) on every path; the "
        "kernel call is reached on every path of getRho / getPerturbedRho (no early return or branch that stores something else); a "
        "method that only delegates to its sibling with an argument bound is read as the sibling's body with that argument; engine C: the equilibrium table is [global r, global v], looked up with the global "
        "radial indices of the local block, and all kernel arguments indexed by one loop variable cover the same index range; "
        "the weights come from the interpolator of the v-spline, the dimension of the kernel's last axis; the quadrature "
        "computation does not mutate the basis' stored integrals; the quadrature solve is compared with the interpolation solves made on "
        "the same factorisation (the same call form without `trans` solves the collocation system, not its transpose); argument lists "
        "unpacked from tables written out in the source are written out before the roles are compared. Exactness on the spline space is C09's numerical part and "
        "is not decided.")
    chk.assumptions += ["SplineInterpolator1D.get_quadrature_coefficients returns the weights of the spline's quadrature (C09)"]
    chk.in_file(U.PTOOLS)
    kernel_formula(chk, U.PTOOLS, "get_perturbed_rho", True)
    kernel_formula(chk, U.PTOOLS, "get_rho", False)
    # f_eq table contents
    fv = chk.func(U.INITF, "feq_vector")
    args = make_args(fv)
    ex = SymExec(fv, args, calls=dict(SPLINE_HANDLERS))
    try:
        ex.run()
        i, j = Symbol("i", integer=True), Symbol("j", integer=True)
        got = ex.env["surface"].read([i, j])
        spec = FEQ(args["r_vec"].fn(i), args["vPar"].fn(j), *[args[n] for n in ("CN0", "kN0", "deltaRN0", "rp", "Cti", "kti", "deltaRti")])
        ok = alg_equal(got, spec)
        if not ok:
            # AUDIT: "the table entry is another value" = the entry is the uninterpreted f_eq applied to arguments one of which
            # provably differs from the documented one (another point, constants in other roles); anything else is UNDECIDED
            from sympy.core.function import AppliedUndef
            got_ = sp.sympify(got)
            proved = False
            if getattr(got_, "func", None) == FEQ and len(got_.args) == len(spec.args):
                for x_, y_ in zip(got_.args, spec.args):
                    d_ = sp.expand(x_ - y_)
                    if d_ != 0 and sp.simplify(d_) != 0 and all(isinstance(f_, AppliedUndef) for f_ in d_.atoms(sp.Function)) and \
                            d_.is_polynomial(*d_.atoms(sp.Symbol, AppliedUndef)):
                        proved = True
            ok = False if proved else None
        chk.ob("F3-feq-table", fv, "surface[i,j] = f_eq(r_vec[i], vPar[j], ...)", ok,
               "row i of the table is the equilibrium at radius r_i" if ok else f"table entry is {got}" +
               ("" if ok is False else ": not proved equal to or different from f_eq(r_vec[i], vPar[j], ...)"), file=U.INITF, func="feq_vector")
    except Undecided as e:
        chk.ob("F3-feq-table", fv, "feq_vector", None, f"outside the extractable fragment: {e}", file=U.INITF, func="feq_vector")
    init = chk.func(U.POISSON, "DensityFinder.__init__")
    equilibrium_same_quadrature(chk)
    calls = [c for c in ast.walk(init) if isinstance(c, ast.Call) and isinstance(c.func, ast.Attribute) and c.func.attr == "feq_vector"]
    tab_ok = equilibrium_table_content(chk, init, fv)
    if len(calls) != 1:
        if tab_ok is None:
            chk.ob("E2-argument-role", init, "feq_vector(self._fEq, r points, v points, constants)", None,
                   f"{len(calls)} calls of feq_vector in DensityFinder.__init__: how the equilibrium table is filled was not recognised",
                   file=U.POISSON, func="DensityFinder.__init__")
    elif any(isinstance(a, ast.Starred) for a in calls[0].args) or any(k.arg is None for k in calls[0].keywords):
        # arguments handed over by unpacking: the positional role comparison does not apply
        chk.ob("E2-argument-role", calls[0], "feq_vector(self._fEq, r points, v points, constants)", True if tab_ok else None,
               "the arguments are passed by unpacking; the content of the table was established by the symbolic reading of the constructor"
               if tab_ok else "the arguments are passed by unpacking (`*args` / `**kwargs`): their roles were not followed",
               file=U.POISSON, func="DensityFinder.__init__")
    else:
        agree.check_roles(chk, U.POISSON, "DensityFinder.__init__", calls[0], [a.arg for a in fv.args.args],
                          {"self._fEq": "surface", "eta_grid[0]": "r_vec", "eta_grid[3]": "vPar"}, const_recv="constants")
    # index spaces (shared with C05)
    density_index_spaces(_TableRoles(chk, tab_ok))
    # kernel argument roles at the two call sites
    for m, kname, table in (("getPerturbedRho", "get_perturbed_rho",
                             {"rho.getAllData()": "rho", "grid.getAllData()": "grid", "self._quad_coeffs": "quad_coeffs"}),
                            ("getRho", "get_rho", {"rho.getAllData()": "rho", "grid.getAllData()": "grid",
                                                   "self._quad_coeffs": "quad_coeffs"})):
        fn = chk.func(U.POISSON, f"DensityFinder.{m}")
        cs = [x for x in ast.walk(fn) if isinstance(x, ast.Call) and isinstance(x.func, ast.Name) and x.func.id == kname]
        if len(cs) != 1:
            chk.ob("E2-argument-role", fn, f"{kname}(rho storage, ..., f storage, weights)", None,
                   f"{len(cs)} calls of {kname} in DensityFinder.{m}: which kernel integrates f here, and with which arguments, was "
                   "not recognised", file=U.POISSON, func=f"DensityFinder.{m}")
            continue
        c = cs[0]
        if any(isinstance(a, ast.Starred) for a in c.args) or any(k.arg is None for k in c.keywords):
            chk.ob("E2-argument-role", c, f"{kname}(rho storage, ..., f storage, weights)", None,
                   "the arguments are passed by unpacking (`*args` / `**kwargs`): their roles were not followed",
                   file=U.POISSON, func=f"DensityFinder.{m}")
            continue
        KR = KERNEL_ROLES.get(kname, {})
        table = {k_: KR.get(v_, v_) for k_, v_ in table.items()}
        kernel_reached(chk, fn, c, kname, m)
        agree.check_roles(chk, U.POISSON, f"DensityFinder.{m}", c, [a.arg for a in chk.func(U.PTOOLS, kname).args.args], table)
        # the output argument is the whole storage of the density grid
        bb = agree.bind_call(c, [a.arg for a in chk.func(U.PTOOLS, kname).args.args]) or {}
        out = bb.get(KR.get("rho", "rho"))
        so = src(out) if out is not None else "?"
        oko = True if so == "rho.getAllData()" else None
        why = "the kernel writes the storage of the density grid itself"
        if oko is None and out is not None and so.startswith("rho.getAllData()"):
            rest = so[len("rho.getAllData()"):]
            if isinstance(out, ast.Subscript) and src(out.value) == "rho.getAllData()" and \
                    all((isinstance(x, ast.Slice) and x.lower is None and x.upper is None and x.step is None) or
                        (isinstance(x, ast.Constant) and x.value is Ellipsis)
                        for x in (out.slice.elts if isinstance(out.slice, ast.Tuple) else [out.slice])):
                oko, why = True, "the kernel writes a view of the whole storage of the density grid"
            elif (rest in (".real", ".imag") or rest.startswith("[")) and caller_prepares_output(chk, kname, KR.get("rho", "rho")):
                why = f"the kernel writes `{so}`, a partial view of the density storage; the caller touches the storage before the call: not decided"
            elif rest in (".real", ".imag") or rest.startswith("["):
                oko = False
                why = (f"the kernel writes `{so}`, a partial view of the density storage: for a complex density grid the "
                       "other part keeps whatever it held (e.g. the imaginary part left by the previous in-place Fourier transform), "
                       "so the grid no longer holds the velocity integral")
        elif oko is None:
            why = f"output argument `{so}` not recognised"
        chk.ob("E2-output-storage", out or c, f"{kname}: rho <- {so}", oko, why, file=U.POISSON, func=f"DensityFinder.{m}")
        if m == "getPerturbedRho":
            b = agree.bind_call(c, [a.arg for a in chk.func(U.PTOOLS, kname).args.args]) or {}
            fe = b.get(KR.get("feq", "feq"))
            # ---- which rows the kernel reads and which rows it is given: the two sides of one convention
            off = KERNEL_ROW_OFFSET.get(kname, sp.Integer(0))
            fe_r = _resolved(fn, fe) if fe is not None else None
            whole_table = fe_r is not None and isinstance(fe_r, ast.Attribute) and src(fe_r) == "self._fEq"
            rows_sel = fe_r is not None and isinstance(fe_r, ast.Subscript) and src(fe_r.value) == "self._fEq"
            split_conv = fe_r is not None and isinstance(fe_r, ast.Subscript) and isinstance(fe_r.value, ast.Call) and \
                src(fe_r.value.func) in ("np.array_split", "np.split", "numpy.array_split") and fe_r.value.args and \
                src(fe_r.value.args[0]) == "self._fEq" and len(fe_r.value.args) > 1 and not isinstance(fe_r.value.args[1], (ast.List, ast.Tuple))
            layout_rule = None
            if off == 0 and split_conv:
                # AUDIT: numpy's rule (the first n % p blocks are the larger ones) against the rule the layout uses TODAY, read off
                # Layout.__init__: starts = small_size * ranks + nBig * ranks // nRanks (the larger blocks spread over the ranks)
                try:
                    from ..core import contains as _contains
                    layout_rule = _contains(chk.mod(U.LAYOUT).func("Layout.__init__"), "starts = small_size * ranks + nBig * ranks // nRanks",
                                            vars=("starts", "small_size", "ranks", "nBig", "nRanks"))
                except Exception:
                    layout_rule = False
            if off == 0 and split_conv and not layout_rule:
                chk.ob("E2-row-offset", fe, f"{kname}: feq[i, l] with feq <- {src(fe)[:60]}", None,
                       f"the rows of the equilibrium table are chosen with `{src(fe_r)[:70]}` (numpy's block rule); how the layout distributes "
                       "the radial points was not recognised in Layout.__init__: whether the two agree is not decided", file=U.POISSON,
                       func=f"DensityFinder.{m}")
            elif off == 0 and split_conv:
                chk.ob("E2-row-offset", fe, f"{kname}: feq[i, l] with feq <- {src(fe)[:60]}", False,
                       f"the rows of the equilibrium table are chosen with `{src(fe_r)[:70]}`: numpy cuts a table into equal blocks with the "
                       "larger ones first, which is not how the layout distributes the radial points over the processes (starts / ends of the "
                       "layout); unless the number of radii is a multiple of the number of processes, some processes subtract the "
                       "equilibrium of other radii", file=U.POISSON, func=f"DensityFinder.{m}")
            elif off == 0:
                if whole_table and tab_ok is not True:
                    chk.ob("E2-row-offset", fe, f"{kname}: feq[i, l] with feq <- {src(fe)}", None,
                           f"the kernel reads row i of `feq` for the i-th local radius and is given the whole table `{src(fe_r)}`; which radii "
                           "the rows of that table belong to was not established", file=U.POISSON, func=f"DensityFinder.{m}")
                elif whole_table:
                    chk.ob("E2-row-offset", fe, f"{kname}: feq[i, l] with feq <- {src(fe)}", False,
                           f"the kernel reads row i of `feq` for the i-th LOCAL radius, but it is given the whole table `{src(fe_r)}`, whose "
                           "row i belongs to the i-th GLOBAL radius: every process whose block does not start at the first radius subtracts "
                           "the equilibrium of other radii", file=U.POISSON, func=f"DensityFinder.{m}")
                else:
                    chk.ob("E2-row-offset", fe or c, f"{kname}: feq[i, l] with feq <- {src(fe) if fe is not None else '?'}", True if rows_sel else None,
                           "the kernel reads row i and is given the rows selected for the local block (which rows: index-space rules)"
                           if rows_sel else "the kernel reads row i; the rows it is given were not recognised as a selection from self._fEq",
                           file=U.POISSON, func=f"DensityFinder.{m}")
            else:
                ps = [x for x in off.free_symbols]
                act = b.get(str(ps[0])) if len(ps) == 1 and off == ps[0] else None
                act_r = _resolved(fn, act) if act is not None else None
                while isinstance(act_r, ast.Call) and src(act_r.func) == "int" and len(act_r.args) == 1:
                    act_r = _resolved(fn, act_r.args[0])
                first_local = False
                if isinstance(act_r, ast.Subscript) and src(act_r.slice) == "0":
                    base = _resolved(fn, act_r.value)
                    if isinstance(base, ast.Attribute) and base.attr == "starts":
                        lay = _resolved(fn, base.value)
                        first_local = src(lay) in ("grid.getLayout(grid.currentLayout)", "grid._layout")
                    elif src(base) == "grid.getGlobalIdxVals(0)":
                        first_local = True
                elif isinstance(act_r, ast.Attribute) and act_r.attr == "start" and src(_resolved(fn, act_r.value)) == "grid.getGlobalIdxVals(0)":
                    # the first element of the range of global indices: read off Grid.getGlobalIdxVals (returns range(start, end))
                    try:
                        gg = chk.mod(U.GRID).func("Grid.getGlobalIdxVals")
                        rets = [r_ for r_ in ast.walk(gg) if isinstance(r_, ast.Return) and r_.value is not None]
                        first_local = len(rets) == 1 and isinstance(rets[0].value, ast.Call) and src(rets[0].value.func) == "range" and \
                            len(rets[0].value.args) == 2 and "starts" in src(rets[0].value.args[0])
                    except AnalysisError:
                        first_local = False
                if act is None:
                    okr, whyr = None, f"the kernel reads row i + {off}; the actual for that offset was not found at the call"
                elif first_local and whole_table and tab_ok is not True:
                    okr, whyr = None, (f"the kernel reads row i + {off} of `{src(fe_r)}`; that this table holds the rows of ALL radii was not "
                                       "established")
                elif first_local and whole_table:
                    okr, whyr = True, (f"the kernel reads row i + {off} of the whole table and is given `{src(act)}`, the global index of the "
                                       "first local radius: row of the point's own radius")
                elif first_local and rows_sel:
                    okr, whyr = False, (f"the kernel adds `{src(act)}` (the global index of the first local radius) to the row index, but it is "
                                        f"given `{src(fe_r)[:50]}`, the rows already selected for the local block: the offset is applied twice, "
                                        "so the equilibrium of other radii (or rows past the table) is subtracted")
                elif whole_table and isinstance(act_r, ast.Constant):
                    okr, whyr = False, (f"the kernel reads row i + {off} of the whole table but the offset passed is the constant `{src(act)}`: "
                                        "only the process holding the first radii subtracts the equilibrium of its own radii")
                else:
                    okr, whyr = None, f"the kernel reads row i + {off}; offset `{src(act)}` / table `{src(fe) if fe is not None else '?'}` not recognised"
                chk.ob("E2-row-offset", act or c, f"{kname}: feq[i + {off}, l] with feq <- {src(fe) if fe is not None else '?'}", okr, whyr,
                       file=U.POISSON, func=f"DensityFinder.{m}")
            fe_x = _resolved(fn, fe) if fe is not None else None
            tabs = {src(a) for a in ast.walk(fe_x) if isinstance(a, ast.Attribute) and isinstance(a.value, ast.Name)
                    and a.value.id == "self"} if fe_x is not None else set()
            okf = True if "self._fEq" in tabs else None
            whyf = "the equilibrium rows come from the precomputed table"
            if okf is None and tabs:
                # another attribute: follow its definitions in the class (rows of the table kept under another name, or the table
                # itself filled by feq_vector under that name)
                cls_ = chk.mod(U.POISSON).cls("DensityFinder")
                derived, defined = set(), set()
                for t_ in tabs:
                    for n_ in ast.walk(cls_):
                        if isinstance(n_, ast.Assign) and any(src(x) == t_ for x in n_.targets):
                            defined.add(t_)
                            if "self._fEq" in src(n_.value):
                                derived.add(t_)
                        if isinstance(n_, ast.Call) and isinstance(n_.func, ast.Attribute) and n_.func.attr == "feq_vector" and n_.args and \
                                src(n_.args[0]) == t_:
                            derived.add(t_)
                # AUDIT ("not from the table the constructor fills"): every attribute read is bound in the class by expressions that do not
                # mention the table, and is never handed to a call nor stored into element-wise anywhere in the class (either could fill
                # it with the equilibrium)
                filled_elsewhere = set()
                for t_ in tabs:
                    for n_ in ast.walk(cls_):
                        if isinstance(n_, ast.Call) and any(src(a_) == t_ or (isinstance(a_, ast.Subscript) and src(a_.value) == t_)
                                                            for a_ in list(n_.args) + [k_.value for k_ in n_.keywords]) and \
                                not any(x_ is n_ for x_ in ast.walk(fn)):
                            filled_elsewhere.add(t_)
                        if isinstance(n_, (ast.Assign, ast.AugAssign)) and any(isinstance(x_, ast.Subscript) and src(x_.value) == t_
                                                                               for x_ in (n_.targets if isinstance(n_, ast.Assign) else [n_.target])):
                            filled_elsewhere.add(t_)
                if derived:
                    okf, whyf = True, f"the equilibrium rows come from {sorted(derived)}, which the class derives from the precomputed table"
                elif filled_elsewhere:
                    whyf = (f"the equilibrium argument `{src(fe_x)[:60]}` reads {sorted(tabs)}; {sorted(filled_elsewhere)} is filled through a call "
                            "or element stores that were not followed")
                elif defined == tabs:
                    okf = False
                    whyf = (f"the equilibrium argument `{src(fe_x)[:60]}` is taken from {sorted(tabs)}, not from the table self._fEq that the "
                            "constructor fills with f_eq(r_i, v_j): what is subtracted is not the equilibrium on the quadrature points")
                else:
                    whyf = f"the equilibrium argument `{src(fe_x)[:60]}` reads {sorted(tabs)}, whose definition was not found"
            elif okf is None:
                whyf = f"the equilibrium argument `{src(fe) if fe is not None else '?'}` is not recognised as rows of the table self._fEq"
            chk.ob("E2-argument-role", fe or c, f"{kname}: feq <- {src(fe) if fe is not None else '?'}", okf, whyf, file=U.POISSON,
                   func=f"DensityFinder.{m}")
    # weights: interpolator of the spline handed to the constructor, which the driver takes along v (= last axis)
    qc = [n for n in ast.walk(init) if isinstance(n, ast.Assign) and src(n.targets[0]) == "self._quad_coeffs"]
    okq = len(qc) == 1 and src(qc[0].value).replace(" ", "").replace("\n", "") == "SplineInterpolator1D(bspline).get_quadrature_coefficients()"
    badq = None
    if not okq and len(qc) == 1:
        v_ = qc[0].value
        if isinstance(v_, ast.Name):
            # the weights pass through a local: followed only when the local is bound once and its only other uses are
            # `<local>.setflags(...)` statements (which change the writeable flag, not the values); anything else may modify them
            uses_ = [n for n in ast.walk(init) if isinstance(n, ast.Name) and n.id == v_.id and n is not v_]
            defs_ = [n for n in ast.walk(init) if isinstance(n, ast.Assign) and len(n.targets) == 1 and any(u is n.targets[0] for u in uses_)]
            flag_ = [n.value.func.value for n in ast.walk(init) if isinstance(n, ast.Expr) and isinstance(n.value, ast.Call)
                     and isinstance(n.value.func, ast.Attribute) and n.value.func.attr == "setflags"
                     and isinstance(n.value.func.value, ast.Name)]
            if len(defs_) == 1 and v_.id not in {a.arg for a in init.args.args} and \
                    all(u is defs_[0].targets[0] or any(u is f_ for f_ in flag_) for u in uses_):
                v_ = defs_[0].value
        # resolve a local interpolator: interp = SplineInterpolator1D(<x>); self._quad_coeffs = interp.get_quadrature_coefficients()
        if isinstance(v_, ast.Call) and isinstance(v_.func, ast.Attribute) and v_.func.attr == "get_quadrature_coefficients":
            recv = v_.func.value
            if isinstance(recv, ast.Name):
                d_ = [n for n in ast.walk(init) if isinstance(n, ast.Assign) and src(n.targets[0]) == recv.id]
                recv = d_[0].value if len(d_) == 1 else recv
            if isinstance(recv, ast.Call) and src(recv.func) == "SplineInterpolator1D" and (recv.args or recv.keywords):
                a0 = _resolved(init, recv.args[0] if recv.args else recv.keywords[0].value)
                if isinstance(a0, ast.Attribute) and isinstance(a0.value, ast.Name) and a0.value.id == "self":
                    ad = [n for n in ast.walk(init) if isinstance(n, ast.Assign) and any(src(t) == src(a0) for t in n.targets)]
                    if len(ad) == 1:
                        a0 = _resolved(init, ad[0].value)
                params_ = {a.arg for a in init.args.args}
                if src(a0) == "bspline":
                    okq = True
                elif isinstance(a0, ast.Name) and a0.id in params_:
                    # AUDIT: the interpolator is built on another PARAMETER of the constructor (a spline rebuilt from the v spline by a
                    # call is not followed: undecided)
                    badq = f"the weights come from an interpolator built on `{src(a0)[:60]}`, not on the constructor's v spline `bspline`"
    chk.pat("E3-weights-source", qc[0] if qc else init, "self._quad_coeffs", okq,
            "weights are the quadrature coefficients of the interpolator built on the constructor's spline", badq, file=U.POISSON,
            func="DensityFinder.__init__")
    O = orders(chk)
    amb = I.ambient_from_asserts(chk.func(U.POISSON, "DensityFinder.getPerturbedRho"))
    last = amb.get("grid", (None,))[-1]
    dfn = chk.func(U.DRIVER, "main")
    dc = [c for c in ast.walk(dfn) if isinstance(c, ast.Call) and isinstance(c.func, ast.Name) and c.func.id == "DensityFinder"]
    if len(dc) != 1:
        chk.ob("E3-weights-dimension", dfn, "DensityFinder(degree, spline of v, ...)", None,
               f"{len(dc)} constructions of DensityFinder in fullSimulation.main: the spline the weights are built on was not identified",
               file=U.DRIVER, func="main")
        dc = [None]
    b = (agree.bind_call(dc[0], ["degree", "bspline", "eta_grid", "constants"]) or {}) if dc[0] is not None else {}
    sp_arg = b.get("bspline")
    sp_x = _resolved(dfn, sp_arg) if sp_arg is not None else None
    okd, whyd = None, f"the spline handed to DensityFinder, `{src(sp_arg) if sp_arg is not None else '?'}`, is not recognised as `<grid>.getSpline(<dimension>)`"
    if last is None:
        whyd = "the layout assertion of getPerturbedRho (which names the integration axis) was not found"
    elif isinstance(sp_x, ast.Call) and isinstance(sp_x.func, ast.Attribute) and sp_x.func.attr == "getSpline" and len(sp_x.args) == 1 \
            and not sp_x.keywords and isinstance(sp_x.args[0], ast.Constant) and isinstance(sp_x.args[0].value, int):
        okd = sp_x.args[0].value == last and src(sp_x.func.value) == "distribFunc"
        if sp_x.args[0].value == last and not okd:
            okd = None
            whyd = f"`{src(sp_x)}`: the grid `{src(sp_x.func.value)}` is not the distribution function of the driver"
        elif okd:
            whyd = f"the quadrature spline is the one of dimension {last} (v), the last axis of the layout the kernels assert"
        else:
            whyd = (f"the spline handed to DensityFinder is `{src(sp_x)}` (dimension {sp_x.args[0].value}) but the kernels integrate over the "
                    f"last axis of the asserted layout, dimension {last} (v): the weights belong to another coordinate")
    if dc[0] is not None:
        chk.ob("E3-weights-dimension", dc[0], src(dc[0])[:90], okd, whyd, file=U.DRIVER, func="main")
    # no mutation of the stored basis integrals while computing the weights
    imod = chk.mod(U.INTERP)
    gq = chk.func(U.INTERP, "SplineInterpolator1D.get_quadrature_coefficients")
    muts = lints.shared_state_mutations(gq, lambda s: s.endswith(".integrals") or s.endswith("._integrals"))
    chk.ob("G2-no-shared-mutation", gq, "get_quadrature_coefficients vs basis.integrals", not muts,
           "the stored basis integrals are only read (copies are modified)" if not muts else
           "; ".join(d for _, d in muts) + " - the next interpolator/DensityFinder built on the same spline gets wrong weights",
           file=U.INTERP, func="SplineInterpolator1D.get_quadrature_coefficients")
    # possible mutations the engine could not establish (alias liveness / view-or-copy not followed): undecided, not HOLDS
    for node, desc, why in getattr(muts, "undecided", ()):
        okm, whym = None, f"{desc}: not established ({why})"
        # the engine leaves "a slice is a view of an array, a copy of a list" open when it cannot see what the stored object is: the
        # rule establishes it across the two classes (the interpolator's basis is a BSplines, whose `integrals` is a numpy array)
        if "a view for an array, a copy for a list" in why and "`self._basis.integrals`" in why:
            est, how = _basis_integrals_are_arrays(chk, gq)
            if est:
                okm = False
                whym = (f"{desc} ({how}: the slice is a view, not a copy) - the next interpolator/DensityFinder built on the same "
                        "spline gets wrong weights")
            else:
                whym += f"; {how}"
        from .C17 import _arith_inplace_on_slice
        if okm is None and _arith_inplace_on_slice(node, why):
            okm = False
            whym = (f"{desc}: `{src(node)[:50]}` updates a slice in place with an operator that lists do not have, so the slice is one of a "
                    "numpy array: a view - the next interpolator/DensityFinder built on the same spline gets wrong weights")
        chk.ob("G2-no-shared-mutation", node, f"get_quadrature_coefficients vs basis.integrals: {desc}"[:160], okm, whym,
               file=U.INTERP, func="SplineInterpolator1D.get_quadrature_coefficients")
    from .C17 import unfollowed_view_writes
    done = [m[0] for m in muts] + [m[0] for m in getattr(muts, "undecided", ())]
    for node, desc in unfollowed_view_writes(gq, lambda s: s.endswith(".integrals") or s.endswith("._integrals"), done):
        chk.ob("G2-no-shared-mutation", node, f"get_quadrature_coefficients vs basis.integrals: {desc}"[:160], None,
               f"{desc}: whether the stored basis integrals are modified is not followed", file=U.INTERP,
               func="SplineInterpolator1D.get_quadrature_coefficients")
    quadrature_system(chk)
    chk.floor("F3-", 3)
    # the co-indexing obligations come from the element loops of the kernels: whole-array kernels have none (their axis
    # correspondence is part of the extracted formula), the four obligations on DensityFinder's own indexing always remain
    chk.floor("C-", 4)
    chk.floor("E2-argument-role", 6)


# --- engine I (pgverif/oneshot.py): one-shot iterators handed out by the grid accessors are walked once per creation and never memoised.
# Run first so that its reports do not depend on the idiom recognition of the rules above.
_run_before_engine_I = run


def run(chk):  # noqa: F811
    from ..oneshot import attach
    attach(chk, [(U.POISSON, {"DensityFinder"})])
    _run_before_engine_I(chk)
