"""C11 - v-parallel advection evaluates the interpolant at v - c*dt; boundary rule holds."""
from __future__ import annotations

import ast

import sympy as sp
from sympy import Symbol, Integer

from ..core import src, AnalysisError
from .. import units as U
from ..symx import SymExec, ITE, WhileShift, sym_equal, make_args, Undecided, alg_equal
from ..symx import canon_rel, bool_atoms, collect_ites, consistent, resolve_ite
from ..kernels import SPLINE_HANDLERS, S1, FEQ, h_scalar1
from .. import agree

GEN = "general_v_parallel_advection_eval_step"
MODES = {"fEq": "equilibrium distribution at (r, foot)", "null": "zero", "periodic": "periodic image"}


def kernel_mode(chk, mod, code):
    from .C05 import structured
    # early exits of the loop over the feet (`...; continue`) are read in their if/else form
    fn, why = structured(mod.func(GEN))
    if why:
        raise Undecided(why)
    args = make_args(fn, funcs={"eval_spline_1d_scalar": h_scalar1}, overrides={"bound": Integer(code)})
    ex = SymExec(fn, args, calls=dict(SPLINE_HANDLERS))
    ex.run()
    i = Symbol("i", integer=True)
    return ex.env["f"].read([i]), args, i


def spec_mode(name, args, i):
    v = args["vPts"].fn(i)
    fam = (Symbol("arr_kts"), args["deg"], Symbol("arr_coeffs"))
    consts = [args[n] for n in ("CN0", "kN0", "deltaRN0", "rp", "CTi", "kTi", "deltaRTi")]
    out = sp.Or(sp.Lt(v, args["vMin"]), sp.Gt(v, args["vMax"]))
    if name == "fEq":
        return ITE(out, FEQ(args["rPos"], v, *consts), S1(v, 0, *fam))
    if name == "null":
        return ITE(out, Integer(0), S1(v, 0, *fam))
    if name == "periodic":
        w = args["vMax"] - args["vMin"]
        v1 = WhileShift(v, Integer(1), args["vMin"], w)
        v2 = WhileShift(v1, Integer(3), args["vMax"], -w)
        return S1(v2, 0, *fam)
    raise AnalysisError(name)


def _ws_entry(W, inner=None):
    """the condition under which the shift loop that produced W runs at least once"""
    v, kind, bound, _ = W.args
    v = inner if inner is not None else v
    return {1: sp.Lt, 2: sp.Le, 3: sp.Gt, 4: sp.Ge}[int(kind)](v, bound)


def _ws_core(e):
    while isinstance(e, WhileShift):
        e = e.args[0]
    return e


def _ws_simplify(e, val):
    """`while v < b: v += w` leaves v unchanged when v < b is false on entry: under the truth assignment `val` every shift loop
    whose entry condition is assigned False is the identity (innermost first)"""
    if not isinstance(e, sp.Basic) or not e.has(WhileShift):
        return e
    if not e.args:
        return e
    args = [_ws_simplify(a, val) for a in e.args]
    e2 = e.func(*args)
    if isinstance(e2, WhileShift):
        k, c, n = canon_rel(_ws_entry(e2))
        if (k, c) in val and (val[(k, c)] != n) is False:
            return e2.args[0]
    return e2


def sym_equal_ws(a, b, max_atoms=10):
    """symx.sym_equal with one more fact: a shift loop not entered returns its argument.  The entry conditions of the shift loops
    (on the unshifted value) join the case split."""
    import itertools
    atoms, ites = set(), []
    collect_ites(a, ites)
    collect_ites(b, ites)
    for i in ites:
        bool_atoms(i.args[0], atoms)
    if not ites:
        return sym_equal(a, b, max_atoms)
    for e in (a, b):
        for W in e.atoms(WhileShift):
            bool_atoms(_ws_entry(W, _ws_core(W)), atoms)
    atoms = sorted(atoms, key=str)
    if len(atoms) > max_atoms:
        raise Undecided(f"{len(atoms)} atomic conditions")
    for bits in itertools.product([False, True], repeat=len(atoms)):
        val = dict(zip(atoms, bits))
        if not consistent(val):
            continue
        ra, rb = _ws_simplify(resolve_ite(a, val), val), _ws_simplify(resolve_ite(b, val), val)
        if not alg_equal(ra, rb):
            w = {f"{k}:{e}": v for (k, e), v in val.items()}
            return False, {"case": w, "code": str(ra)[:300], "spec": str(rb)[:300]}
    return True, None


def edge_codes(chk):
    """E-enum: string -> code table of VParallelAdvection.__init__"""
    fn = chk.func(U.ADV, "VParallelAdvection.__init__")
    table = {}
    has_raise = False
    node = None
    for n in fn.body:
        if isinstance(n, ast.If) and "edge" in src(n.test):
            node = n
    # table form: self._edgeType = {'fEq': 0, ...}[edge] (an unknown string raises KeyError: refused)
    for a in ast.walk(fn):
        if isinstance(a, ast.Assign) and src(a.targets[0]) == "self._edgeType" and isinstance(a.value, ast.Subscript) and src(a.value.slice) == "edge":
            d = a.value.value
            if isinstance(d, ast.Name):
                defs = [x for x in ast.walk(fn) if isinstance(x, ast.Assign) and src(x.targets[0]) == d.id]
                d = defs[0].value if len(defs) == 1 else None
            if isinstance(d, ast.Dict) and all(isinstance(k, ast.Constant) and isinstance(v, ast.Constant) for k, v in zip(d.keys, d.values)):
                return {k.value: v.value for k, v in zip(d.keys, d.values)}, True, a
    if node is None:
        raise AnalysisError("C11: boundary-mode dispatch not found in VParallelAdvection.__init__")
    cur = node
    while True:
        t = cur.test
        if isinstance(t, ast.Compare) and len(t.ops) == 1 and isinstance(t.ops[0], ast.Eq) and src(t.left) == "edge" \
                and isinstance(t.comparators[0], ast.Constant):
            key = t.comparators[0].value
            for a in cur.body:
                if isinstance(a, ast.Assign) and src(a.targets[0]) == "self._edgeType" and isinstance(a.value, ast.Constant):
                    table[key] = a.value.value
        if len(cur.orelse) == 1 and isinstance(cur.orelse[0], ast.If):
            cur = cur.orelse[0]
            continue
        has_raise = any(isinstance(x, ast.Raise) for x in cur.orelse)
        break
    return table, has_raise, node


def run(chk):
    chk.explanation = (
        "Engine F: for each boundary mode the kernel's assignment to f[i] is extracted and compared with "
        "ITE(foot outside [vMin,vMax], fill, S(foot)) (fill = f_eq(r of the line, foot) / 0) or, for the periodic mode, "
        "S(foot shifted by whole periods until inside) - early exits (`continue`) are read in their if/else form and a shift loop that "
        "is not entered is the identity; the feet handed to the kernel normalise to v_node - c*dt; the row of the gradient table read "
        "by gridStepKeepGradient is written by gridStep in every iteration over the radii; "
        "producer/consumer agreement of the mode codes; dispatch and argument roles; the interpolant is recomputed from "
        "the current nodal values before evaluation; index-space typing of the grid-level loops (advection speed and "
        "radius of the line (i,j,k) being advanced). Interpolation accuracy is not decided.")
    chk.assumptions += ["spline evaluators have the semantics stated by C07 (uninterpreted S1(x,der;family))"]
    kmod = chk.mod(U.ADVK)
    chk.in_file(U.ADVK)
    chk.functions.add(f"{U.ADVK}:{GEN}")
    table, has_raise, node = edge_codes(chk)
    ok = bad = None
    dup = {v for v in table.values() if list(table.values()).count(v) > 1}
    if set(table) == set(MODES) and not dup and has_raise:
        ok = True
    elif dup:
        bad = f"modes {sorted(k for k, v in table.items() if v in dup)} share the code {sorted(dup)[0]}: one of them runs the other's boundary rule"
    elif set(MODES) - set(table) and set(table) <= set(MODES) and table:
        bad = f"mode(s) {sorted(set(MODES) - set(table))} of the property are no longer offered (mode table {table})"
    chk.pat("E3-edge-modes", node, "edge -> self._edgeType", ok, f"modes {table}; any other string is refused", bad,
            file=U.ADV, func="VParallelAdvection.__init__")
    fnk = kmod.func(GEN)
    for name, what in MODES.items():
        if name not in table:
            continue
        try:
            got, args, i = kernel_mode(chk, kmod, table[name])
            spec = spec_mode(name, args, i)
            okm, wit = sym_equal_ws(got, spec)
            why = f"kernel branch for code {table[name]} does not implement mode '{name}': {wit}"
            if not okm and spec.has(WhileShift) and not got.has(WhileShift):
                # the periodic image is computed by a closed form instead of the two shift loops
                if got.has(sp.Function("toint")):
                    why = (f"the periodic image of a foot outside [vMin, vMax] is computed with int(), which truncates towards zero, where the "
                           f"number of periods to shift is a floor/ceiling: in the case {wit['case']} the kernel evaluates {wit['code']}, i.e. a "
                           "foot on one side of the domain is shifted by one period too few (or not at all) and the spline is evaluated outside "
                           "[vMin, vMax]")
                elif any(a.func == S1 and alg_equal(a.args[0], args["vMin"] + sp.Function("mod")(args["vPts"].fn(i) - args["vMin"], args["vMax"] - args["vMin"]))
                         for a in got.atoms(sp.Function)):
                    why = ("the periodic image is computed as vMin + (v - vMin) % (vMax - vMin), which folds the feet into the half-open interval "
                           "[vMin, vMax): a foot lying exactly on vMax (zero displacement at the last node, or vMax plus whole periods) is moved "
                           "to vMin, whereas shifting by whole periods until inside leaves it on vMax; the spline in v is clamped, not periodic, "
                           "so the two values differ")
                elif got.has(sp.floor) or got.has(sp.ceiling) or got.has(sp.Function("mod")):
                    okm = None
                    why = (f"the periodic image is computed by the closed form {str(got)[:160]} instead of shift loops: equivalence with "
                           "'shift by whole periods until inside (vMin, vMax]' is outside the algebra of this rule")
            chk.ob("F2-boundary-rule", fnk, f"mode '{name}' (code {table[name]}): f[i] = ...", okm,
                   f"feet outside the domain take the {what}; inside, the interpolant at the foot" if okm else why, file=U.ADVK, func=GEN,
                   facts={"code": str(got)[:300], "spec": str(spec)[:300]})
        except Undecided as e:
            chk.ob("F2-boundary-rule", fnk, f"mode '{name}'", None, f"outside the extractable fragment: {e}", file=U.ADVK, func=GEN)
    agree.check_wrapper_dispatch(chk, kmod, "v_parallel_advection_eval_step", GEN)
    # call site in VParallelAdvection.step
    step = chk.func(U.ADV, "VParallelAdvection.step")
    calls = [c for c in ast.walk(step) if isinstance(c, ast.Call) and isinstance(c.func, ast.Name)
             and c.func.id == "v_parallel_advection_eval_step"]
    if len(calls) != 1:
        raise AnalysisError("C11: kernel call not found in VParallelAdvection.step")
    c = calls[0]
    formals = [a.arg for a in kmod.func("v_parallel_advection_eval_step").args.args]
    agree.check_roles(chk, U.ADV, "VParallelAdvection.step", c, formals, {
        "f": "f", "r": "rPos", "self._points[0]": "vMin", "self._points[-1]": "vMax",
        "self._spline.basis.knots": "kts", "self._spline.basis.degree": "deg", "self._spline.coeffs": "coeffs",
        "self._edgeType": "bound", "self._spline.basis.cubic_uniform": "cubic_uniform_splines",
    }, const_recv="self._constants")
    b = agree.bind_call(c, formals) or {}
    from ..core import same_expr
    from ..npsym import NpSym
    feet = b.get("vPts")
    feet_node = feet
    okf, detail = None, "no argument bound to vPts"
    if isinstance(feet, ast.Name):
        # a local computed once in the method stands for its defining expression
        fd = [n_ for n_ in ast.walk(step) if isinstance(n_, (ast.Assign, ast.AugAssign)) and
              src(n_.targets[0] if isinstance(n_, ast.Assign) else n_.target) == feet.id]
        if len(fd) == 1 and isinstance(fd[0], ast.Assign):
            feet = fd[0].value
        else:
            # the feet are re-assigned before the kernel sees them: folding them into the domain with `%`/np.mod uses the half-open
            # interval [vMin, vMax), the kernel's periodic image (shift loops) the interval (vMin, vMax]
            wrap = [n_ for n_ in fd if any((isinstance(x_, ast.Call) and src(x_.func) in ("np.mod", "np.remainder", "np.fmod")) or
                                           (isinstance(x_, ast.BinOp) and isinstance(x_.op, ast.Mod)) for x_ in ast.walk(n_.value))]
            feet = None
            detail = f"`{feet_node.id}` is assigned {len(fd)} times before the kernel call: feet not extractable"
            if wrap:
                okf = False
                feet_node = wrap[0]
                detail = (f"`{src(wrap[0])[:90]}` folds the feet into [vMin, vMax) before the kernel is called: a foot lying exactly on vMax "
                          "(zero displacement, or a displacement of a whole number of cells reaching vMax) is moved to vMin and takes the "
                          "spline's value there, whereas the kernel's own periodic image leaves it on vMax; the spline in v is clamped, "
                          "so the two values differ")
    if feet is not None:
        P, cc, dt = sp.symbols("P c dt", real=True)
        try:
            val = NpSym(env={"c": cc, "dt": dt}, hooks={"self._points": P}).ev(feet)
            okf = bool(alg_equal(val, P - cc * dt))
            detail = "feet are v_node - c*dt" if okf else \
                f"the feet handed to the kernel are `{src(feet)}` = {val}, expected v_node - c*dt = {P - cc * dt}: the interpolant is evaluated at other points"
        except Undecided as e:
            detail = f"feet expression `{src(feet)}` outside the extractable fragment: {e}"
    chk.ob("F2-feet", feet_node if feet_node is not None else c, f"vPts <- {src(feet_node)[:90] if feet_node is not None else '?'}", okf, detail,
           file=U.ADV, func="VParallelAdvection.step")
    pts = [n for n in ast.walk(chk.func(U.ADV, "VParallelAdvection.__init__")) if isinstance(n, ast.Assign)
           and src(n.targets[0]) == "self._points"]
    okp = badp = None
    if len(pts) == 1:
        v_ = pts[0].value
        if same_expr(v_, "eta_vals[3]"):
            okp = True
        elif isinstance(v_, ast.Subscript) and same_expr(v_.value, "eta_vals") and isinstance(v_.slice, ast.Constant):
            badp = f"the nodes are `{src(v_)}`, not the v grid eta_vals[3]: feet, domain ends and spline refer to another dimension"
    chk.pat("E2-point-order", pts[0] if pts else step, "self._points = eta_vals[3]", okp, "nodes are the v grid (dimension 3)", badp,
            file=U.ADV, func="VParallelAdvection.__init__")
    ci = [n_ for n_ in ast.walk(step) if isinstance(n_, ast.Call) and isinstance(n_.func, ast.Attribute) and n_.func.attr == "compute_interpolant"]
    oki = badi = None
    pos = lambda n_: (n_.lineno, n_.col_offset)
    if not ci:
        badi = ("the spline of f is not recomputed in step: the kernel evaluates the spline left over from the previous call (another "
                "line's values) at the feet")
    elif len(ci) == 1 and src(ci[0].func.value) == "self._interpolator":
        bi = agree.bind_call(ci[0], ["ug", "spl"]) or {}
        if set(bi) == {"ug", "spl"} and same_expr(bi["ug"], "f") and same_expr(bi["spl"], "self._spline"):
            if pos(ci[0]) < pos(c):
                oki = True
            else:
                badi = ("the spline is recomputed only after the kernel has evaluated it: the kernel sees the previous call's spline and the "
                        "new one interpolates already advected values")
    chk.pat("E2-interpolate-before-evaluate", ci[0] if ci else step, "compute_interpolant(f, self._spline)", oki,
            "the spline is recomputed from the current nodal values before it is evaluated at the feet", badi,
            file=U.ADV, func="VParallelAdvection.step")
    # grid-level wiring (index spaces)
    from .C05 import parallel_gradient, v_parallel
    pg_attrs, pg_summ = parallel_gradient(chk)
    v_parallel(chk, pg_summ)
    from .. import lints as _l
    _l.check_cache_keys(chk, U.ADV, "VParallelAdvection")
    chk.floor("F2-", 3)
    chk.floor("E2-argument-role", 8)
    chk.floor("C", 4)
