"""C19 - accelerated kernels compute the same results as the pure-Python reference.

Decides: the documented build front end accepts the five kernels of the working tree
(compile-fail witness: pyccel translation on a scratch copy); every library call site of a
kernel fits its signature; the numba/pythran source copies define what their consumers import
with the same parameters, agree in export arity, the duplicated copies are identical, and
every variant body is either AST-identical to the reference (after stripping decorators,
annotations, docstrings) or proved equal to the same specification formula as the reference
(engine F); no kernel relies on negative-index wrap-around, which compiled code does not do.
Numerical equality of compiled and interpreted results is inherently dynamic: not decided.
"""
from __future__ import annotations

import ast
import os
import re
import shutil
import subprocess
import tempfile
from concurrent.futures import ThreadPoolExecutor

from ..core import src, AnalysisError, parent, REPO
from .. import units as U
from .. import agree
from ..symx import Undecided

BUILD_ORDER = [U.NU, U.CU, U.INITF, U.ADVK, U.PTOOLS]


def norm_fn(fn: ast.FunctionDef) -> str:
    f = ast.parse(ast.unparse(fn)).body[0]
    f.decorator_list = []
    f.returns = None
    for a in f.args.args + f.args.kwonlyargs:
        a.annotation = None
    if f.body and isinstance(f.body[0], ast.Expr) and isinstance(f.body[0].value, ast.Constant) and isinstance(f.body[0].value.value, str):
        f.body = f.body[1:] or [ast.Pass()]
    f.body = [s for s in f.body if not isinstance(s, (ast.Import, ast.ImportFrom))] or [ast.Pass()]
    return ast.dump(f)


def consumers(chk):
    """{kernel module rel: set of function names the library imports from it}"""
    want = {k: set() for k in U.KERNELS}
    modname = {k: k.split("/")[-1][:-3] for k in U.KERNELS}
    libs = [U.SPLINES, U.INTERP, U.ADV, U.ADVK, U.POISSON, U.INITIALISER, U.CU, U.NU]
    for rel in libs:
        mod = chk.mod(rel)
        for st in mod.tree.body:
            if isinstance(st, ast.ImportFrom) and st.module:
                base = st.module.split(".")[-1]
                for k, mn in modname.items():
                    if base == mn:
                        for a in st.names:
                            want[k].add(a.name)
                    elif any(a.name == mn for a in st.names):
                        # `from ..initialisation import initialiser_funcs as init` -> attribute uses
                        alias = [a.asname or a.name for a in st.names if a.name == mn][0]
                        for n in ast.walk(mod.tree):
                            if isinstance(n, ast.Attribute) and isinstance(n.value, ast.Name) and n.value.id == alias:
                                want[k].add(n.attr)
    return want


def variant_agreement(chk):
    want = consumers(chk)
    proved = unproved = 0
    from . import C07, C12
    for ref, variants in U.VARIANTS.items():
        rm = chk.mod(ref)
        for v in variants:
            vm = chk.mod(v)
            flavour = "numba" if "numba_" in v else "pythran"
            # V1: consumer names and parameter lists
            missing = sorted(n for n in want[ref] if rm.has(n) and not vm.has(n))
            chk.ob("V1-consumer-names", vm.tree, f"{v}: names imported by the library from {ref.split('/')[-1]}", not missing,
                   f"all {len(want[ref])} imported names are defined by the {flavour} copy" if not missing else
                   f"the {flavour} copy does not define {missing}, which the library imports from the module it replaces",
                   file=v, func="<module>")
            for q, fn in rm.functions().items():
                if "." in q or not vm.has(q):
                    continue
                vf = vm.func(q)
                pa, pb = [a.arg for a in fn.args.args], [a.arg for a in vf.args.args]
                da, db = [src(d) for d in fn.args.defaults], [src(d) for d in vf.args.defaults]
                # a copy may add defaults (calls written for the reference still bind); it may not drop or change one
                okp = pa == pb and len(db) >= len(da) and (db[len(db) - len(da):] == da if da else True)
                chk.ob("V1-parameter-lists", vf, f"{v}:{q}", okp, "same positional parameters; every default of the reference is kept" if okp else
                       f"parameters {pb} (defaults {db}) differ from the reference {pa} (defaults {da})", file=v, func=q, nontrivial=False)
                # V2: export arity
                ar = export_arity(vm, q, flavour)
                if ar is not None:
                    oka = ar == len(pb)
                    chk.ob("V2-export-arity", vf, f"{v}:{q} export signature", oka, f"export declares {ar} arguments = def arity" if oka else
                           f"export declares {ar} arguments but the function takes {len(pb)}", file=v, func=q, nontrivial=False)
                # V5: arrays the reference declares read-only (Final) are not written by the copy, also not through a view
                final = {a.arg for a in fn.args.args if a.annotation is not None and "Final" in src(a.annotation)
                         and "[" in src(a.annotation).replace("Final[", "", 1)}
                if final:
                    from .. import lints
                    # follow the read-only arrays into helpers that exist only in the copy
                    work, seen_h, muts = [(vf, q, frozenset(final))], set(), []
                    while work:
                        hf, hq, hfinal = work.pop()
                        if (hq, hfinal) in seen_h:
                            continue
                        seen_h.add((hq, hfinal))
                        for node, desc in lints.shared_state_mutations(hf, lambda s_, hfinal=hfinal: s_ in hfinal):
                            muts.append((hq, node, desc))
                        for c in ast.walk(hf):
                            if isinstance(c, ast.Call) and isinstance(c.func, ast.Name) and vm.has(c.func.id) and not rm.has(c.func.id):
                                cf = vm.func(c.func.id)
                                formals = [a.arg for a in cf.args.args]
                                passed = {formals[k] for k, a in enumerate(c.args) if k < len(formals) and isinstance(a, ast.Name) and a.id in hfinal}
                                passed |= {k.arg for k in c.keywords if isinstance(k.value, ast.Name) and k.value.id in hfinal}
                                if passed:
                                    work.append((cf, c.func.id, frozenset(passed)))
                    for hq, node, desc in muts:
                        chk.ob("V5-inputs-not-written", node, f"{v}:{hq}: {src(node)[:70]}", False,
                               desc.replace("the stored", "the caller's read-only input") + f" - the reference kernel `{q}` declares "
                               f"{sorted(final)} Final (never written); this copy changes the caller's array, so later calls give other "
                               "results than the reference", file=v, func=hq)
                    chk.ob("V5-inputs-not-written", vf, f"{v}:{q} leaves {sorted(final)} unchanged", not muts,
                           f"no store, in-place update or overwrite flag reaches an input array of the reference, directly, through a view or in "
                           f"the {len(seen_h) - 1} helper(s) it is handed to", file=v, func=q, nontrivial=False)
                # V4: body equivalence
                if norm_fn(fn) == norm_fn(vf):
                    proved += 1
                    chk.ob("V4-body-equivalence", vf, f"{v}:{q}", True, "AST-identical to the reference after stripping decorators, "
                           "annotations, docstrings and local imports", file=v, func=q)
                    continue
                res = spec_check(chk, v, q, vm)
                if res is True:
                    proved += 1
                elif res is None:
                    unproved += 1
                    chk.note(f"variant body not proved equivalent (no specification formula): {v}:{q}")
    chk.extra["variant_bodies_proved"] = proved
    chk.extra["variant_bodies_unproved"] = unproved
    if proved < 55:
        raise AnalysisError(f"C19: only {proved} variant bodies proved equivalent (floor 55)")
    # V3: duplicated copies identical
    for a, b in (("pygyro/splines/pythran_spline_eval_funcs.py", "pygyro/advection/pythran_deps/pythran_spline_eval_funcs.py"),
                 ("pygyro/splines/pythran_cubic_uniform_spline_eval_funcs.py", "pygyro/advection/pythran_deps/pythran_cubic_uniform_spline_eval_funcs.py"),
                 ("pygyro/initialisation/pythran_initialiser_funcs.py", "pygyro/advection/pythran_deps/pythran_initialiser_funcs.py")):
        ma, mb = chk.mod(a), chk.mod(b)
        ok = ast.dump(ma.tree) == ast.dump(mb.tree)
        chk.ob("V3-duplicate-identity", mb.tree, f"{b} == {a}", ok, "the copy used as a pythran dependency is AST-identical to its sibling"
               if ok else "the two copies of the same pythran module differ", file=b, func="<module>")


def export_arity(vm, q, flavour):
    if flavour == "pythran":
        m = re.search(r"#\s*pythran export\s+" + re.escape(q) + r"\s*\((.*)\)", vm.src)
        if not m:
            return None
        s = m.group(1).strip()
        if not s:
            return 0
        depth, n = 0, 1
        for ch in s:
            if ch in "([":
                depth += 1
            elif ch in ")]":
                depth -= 1
            elif ch == "," and depth == 0:
                n += 1
        return n
    fn = vm.func(q)
    for d in fn.decorator_list:
        if isinstance(d, ast.Call) and src(d.func).endswith(".export") and len(d.args) >= 2 and isinstance(d.args[1], ast.Constant):
            sig = d.args[1].value
            inner = sig[sig.index("(") + 1: sig.rindex(")")] if "(" in sig else ""
            if not inner.strip():
                return 0
            depth, n = 0, 1
            for ch in inner:
                if ch in "([":
                    depth += 1
                elif ch in ")]":
                    depth -= 1
                elif ch == "," and depth == 0:
                    n += 1
            return n
    return None


def spec_check(chk, v, q, vm):
    """prove a variant body against the same specification formula as the reference -> True/False/None"""
    from . import C07, C12
    from .. import symx
    before = len(chk.obs)
    for k in U.KERNELS:
        for name, f in chk.mod(k).functions().items():
            if "." not in name:
                symx.ANNOTATION_SOURCE[name] = f
    try:
        if "eval_spline" in q and q.split("_")[-1] in ("scalar", "vector", "cross") and not re.search(r"_\d\d$", q):
            _with_module_funcs(C07.check_evaluator, chk, v, q, vm, rule="V4-body-equivalence")
        elif q == "general_poloidal_advection_step_impl":
            C12.check_implicit(chk, vm, modname=v, qname=q)
        elif q == "general_poloidal_advection_step_expl":
            C12.check_explicit(chk, vm, modname=v, qname=q)
        elif q == "f_eq":
            return feq_equal(chk, v, vm)
        else:
            return None
    except (Undecided, AnalysisError) as e:
        chk.ob("V4-body-equivalence", vm.func(q), f"{v}:{q}", None, f"specification check not applicable: {e}", file=v, func=q)
        return None
    symx.ANNOTATION_SOURCE.clear()
    new = chk.obs[before:]
    for o in new:
        o.file = v
    if not new:
        return None
    if any(o.status == "VIOLATED" for o in new):
        return False
    if any(o.status == "UNDECIDED" for o in new):
        return None
    return True


def _with_module_funcs(fn, chk, v, q, vm, **kw):
    # variants may split an evaluator into helper functions: let the symbolic interpreter inline them
    from .. import symx
    orig = symx.SymExec.__init__

    def patched(self, f, args, calls=None, consts=None):
        orig(self, f, args, calls, consts)
        self.module_funcs = {n: d for n, d in vm.functions().items() if "." not in n and n != q and n not in (calls or {})}
    symx.SymExec.__init__ = patched
    try:
        fn(chk, v, q, **kw)
    finally:
        symx.SymExec.__init__ = orig


def feq_equal(chk, v, vm):
    """f_eq of the variant equals the reference as a formula (n0, Ti uninterpreted)"""
    import sympy as sp
    from ..npsym import NpSym
    rm = chk.mod(U.INITF)

    def formula(mod, name="f_eq", actuals=None, depth=0):
        fn = mod.func(name)
        ps = [a.arg for a in fn.args.args]
        if actuals is None:
            actuals = [sp.Symbol(f"a{k}", positive=True) for k in range(len(ps))]
        env = dict(zip(ps, actuals))
        env["pi"] = sp.Symbol("pi", positive=True)
        env["real"] = lambda x: x
        for other in mod.functions():
            if "." not in other and other != name and depth < 3:
                env[other] = (lambda *xs, other=other: formula(mod, other, list(xs), depth + 1))
        n = NpSym(env=env)
        ret = [s for s in ast.walk(fn) if isinstance(s, ast.Return)][0]
        return n.ev(ret.value)
    try:
        a, b = formula(rm), formula(vm)
        ok = sp.simplify(a - b) == 0
    except (Undecided, Exception) as e:
        chk.ob("V4-body-equivalence", vm.func("f_eq"), f"{v}:f_eq", None, f"formula not extractable: {e}", file=v, func="f_eq")
        return None
    chk.ob("V4-body-equivalence", vm.func("f_eq"), f"{v}:f_eq", ok, "same formula as the reference (n0, Ti uninterpreted)" if ok else
           f"formula {b} differs from the reference {a}", file=v, func="f_eq")
    return ok


def call_sites(chk):
    """I1: every library call of a kernel function fits the kernel's signature"""
    kernels = {}
    for k in U.KERNELS:
        for q, fn in chk.mod(k).functions().items():
            if "." not in q:
                kernels[q] = (k, fn)
    n = 0
    for rel in (U.SPLINES, U.INTERP, U.ADV, U.ADVK, U.POISSON, U.INITIALISER, U.CU, U.NU, U.INITF, U.PTOOLS):
        mod = chk.mod(rel)
        for c in ast.walk(mod.tree):
            if isinstance(c, ast.Call):
                name = c.func.id if isinstance(c.func, ast.Name) else (c.func.attr if isinstance(c.func, ast.Attribute) and
                                                                     isinstance(c.func.value, ast.Name) and c.func.value.id == "init" else None)
                if name in kernels and not _shadowed(c, name) and _imported(mod, name, c):
                    k, fn = kernels[name]
                    formals = [a.arg for a in fn.args.args]
                    nd = len(fn.args.defaults)
                    if any(isinstance(a, ast.Starred) for a in c.args):
                        continue
                    b = agree.bind_call(c, formals)
                    required = formals[:len(formals) - nd]
                    ok = b is not None and all(r in b for r in required)
                    n += 1
                    from ..core import qual
                    chk.ob("I1-call-fits-signature", c, f"{name}(...) in {rel.split('/')[-1]}:{qual(c)}", ok,
                           f"{len(c.args)} positional + {len(c.keywords)} keyword arguments bind {len(formals)} parameters" if ok else
                           f"call does not fit `{name}({', '.join(formals)})`", file=rel, func=qual(c), nontrivial=False)
    if n < 60:
        raise AnalysisError(f"C19: only {n} kernel call sites found (floor 60)")
    chk.extra["kernel_call_sites"] = n


def _shadowed(call, name):
    """is `name` re-bound (nested def, parameter, assignment) in a function enclosing the call?"""
    p = parent(call)
    while p is not None:
        if isinstance(p, (ast.FunctionDef, ast.Lambda)):
            args = p.args
            if any(a.arg == name for a in args.args + args.kwonlyargs):
                return True
            if isinstance(p, ast.FunctionDef):
                for n in ast.walk(p):
                    if isinstance(n, ast.FunctionDef) and n.name == name and n is not p:
                        return True
                    if isinstance(n, ast.Assign) and any(isinstance(t, ast.Name) and t.id == name for t in n.targets):
                        return True
        p = parent(p)
    return False


def _imported(mod, name, call):
    if isinstance(call.func, ast.Attribute):
        return True       # init.<name>
    for st in mod.tree.body:
        if isinstance(st, ast.ImportFrom) and any((a.asname or a.name) == name for a in st.names):
            return True
        if isinstance(st, ast.FunctionDef) and st.name == name:
            return True
    return False


def index_wrap(chk):
    """K1: compiled code does not wrap negative indices: no subscript of the form  X - (Y % n)"""
    files = list(U.KERNELS) + [v for vs in U.VARIANTS.values() for v in vs]
    n = 0
    n2 = [0]
    for rel in files:
        mod = chk.mod(rel)
        for q, fn in mod.functions().items():
            env = {}
            for st in ast.walk(fn):
                if isinstance(st, ast.Assign) and isinstance(st.targets[0], ast.Name):
                    env.setdefault(st.targets[0].id, []).append(st.value)
            for s_ in ast.walk(fn):
                if isinstance(s_, ast.Subscript) and not isinstance(s_.slice, ast.Slice):
                    items = s_.slice.elts if isinstance(s_.slice, ast.Tuple) else [s_.slice]
                    for it in items:
                        exprs = [it] + (env.get(it.id, []) if isinstance(it, ast.Name) else [])
                        for e in exprs:
                            if isinstance(e, ast.BinOp) and isinstance(e.op, ast.Sub) and isinstance(e.right, ast.BinOp) \
                                    and isinstance(e.right.op, ast.Mod):
                                n += 1
                                chk.ob("K1-no-negative-index-wrap", s_, f"{src(s_)[:60]} with index {src(e)}", False,
                                       f"the index `{src(e)}` is negative whenever `{src(e.right)}` exceeds `{src(e.left)}`: interpreted Python "
                                       "wraps it around, the compiled (pyccel/pythran) kernel reads/writes out of bounds", file=rel, func=q)
            # single-step periodic correction of an index computed by subtraction: still negative when the shift exceeds one period
            idx_names = set()
            for s_ in ast.walk(fn):
                if isinstance(s_, ast.Subscript):
                    for it in (s_.slice.elts if isinstance(s_.slice, ast.Tuple) else [s_.slice]):
                        if isinstance(it, ast.Name):
                            idx_names.add(it.id)
            for iff in ast.walk(fn):
                if isinstance(iff, ast.If) and isinstance(iff.test, ast.Compare) and len(iff.test.ops) == 1 \
                        and isinstance(iff.test.ops[0], ast.Lt) and isinstance(iff.test.left, ast.Name) \
                        and src(iff.test.comparators[0]) == "0" and iff.test.left.id in idx_names and len(iff.body) == 1:
                    x = iff.test.left.id
                    b0 = iff.body[0]
                    add = (isinstance(b0, ast.AugAssign) and isinstance(b0.op, ast.Add) and src(b0.target) == x) or \
                        (isinstance(b0, ast.Assign) and src(b0.targets[0]) == x and isinstance(b0.value, ast.BinOp)
                         and isinstance(b0.value.op, ast.Add) and x in (src(b0.value.left), src(b0.value.right)))
                    defs = [e for e in env.get(x, []) if isinstance(e, ast.BinOp) and isinstance(e.op, ast.Sub)
                            and not any(isinstance(m, ast.Mod) for m in ast.walk(e))]
                    if add and defs:
                        n += 1
                        chk.ob("K1-no-negative-index-wrap", iff, f"index {x} = {src(defs[0])}; if {x} < 0: {src(b0)}", False,
                               f"`{x} = {src(defs[0])}` is brought back into range by adding the period once: when the shift exceeds one period "
                               f"`{x}` stays negative - interpreted Python then indexes from the end (silently, and here even correctly), the "
                               "compiled kernel reads/writes before the start of the array", file=rel, func=q)
            # K2: value of a loop variable after its loop: Python keeps the last value taken, Fortran/C the first value not taken
            for lp in ast.walk(fn):
                if not isinstance(lp, ast.For) or any(isinstance(b_, ast.Break) for b_ in ast.walk(lp)):
                    continue
                tnames = {t.id for t in ast.walk(lp.target) if isinstance(t, ast.Name)}
                if isinstance(lp.iter, ast.Call) and src(lp.iter.func) == "enumerate" and isinstance(lp.target, ast.Tuple) \
                        and isinstance(lp.target.elts[0], ast.Name):
                    counters = {lp.target.elts[0].id}
                elif isinstance(lp.iter, ast.Call) and src(lp.iter.func) == "range":
                    counters = tnames
                else:
                    counters = set()
                inside = {id(x_) for x_ in ast.walk(lp)}
                for nm in counters:
                    later = [x_ for x_ in ast.walk(fn) if isinstance(x_, ast.Name) and x_.id == nm and id(x_) not in inside
                             and (x_.lineno, x_.col_offset) > (lp.end_lineno, 0)]
                    stores = [x_ for x_ in later if isinstance(x_.ctx, ast.Store)]
                    first_store = min(((x_.lineno, x_.col_offset) for x_ in stores), default=(10 ** 9, 0))
                    for x_ in later:
                        if isinstance(x_.ctx, ast.Load) and (x_.lineno < first_store[0] or
                                                             (x_.lineno == first_store[0] and isinstance(parent(x_), ast.AugAssign) is False and
                                                              x_.col_offset > first_store[1])):
                            n2[0] += 1
                            st_ = x_
                            while not isinstance(st_, ast.stmt):
                                st_ = parent(st_)
                            chk.ob("K2-loop-variable-after-loop", st_, f"`{nm}` read in `{src(st_)[:60]}` after `for {src(lp.target)} in {src(lp.iter)[:40]}`", False,
                                   f"after the loop Python leaves `{nm}` at the last value it took, the compiled Fortran/C loop at the first "
                                   f"value it did not take: `{src(st_)[:60]}` addresses a different element in the compiled kernel (one past the "
                                   "intended one)", file=rel, func=q)
                            break
    chk.ob("K2-loop-variable-after-loop", None, "kernels and variants", n2[0] == 0, f"{len(files)} kernel files scanned: no counter of a "
           "for loop is read after its loop" if n2[0] == 0 else f"{n2[0]} reads of a loop counter after its loop", file="pygyro",
           func="<kernels>", nontrivial=False)
    chk.ob("K1-no-negative-index-wrap", None, "kernels and variants", n == 0, f"{len(files)} kernel files scanned: no index of the form "
           "X - (Y % n) and no single-step wrap of a subtracted index" if n == 0 else f"{n} indices rely on negative wrap-around", file="pygyro", func="<kernels>", nontrivial=False)


def build_witness(chk, tier):
    """B1: the documented compiler front end accepts the kernels of the working tree"""
    pyccel = "/venv/bin/pyccel"
    if not os.path.exists(pyccel):
        raise AnalysisError("pyccel not found in /venv")
    tmp = tempfile.mkdtemp(prefix="pgverif_c19_")
    try:
        shutil.copytree(chk.repo.root / "pygyro", os.path.join(tmp, "pygyro"),
                        ignore=shutil.ignore_patterns("__pycache__", "__pyccel__", "*.so", "*.o", "*.mod", "tests"))
        for f in ("Makefile",):
            shutil.copy(chk.repo.root / f, os.path.join(tmp, f))

        def one(rel):
            d, f = os.path.split(rel)
            p = subprocess.run([pyccel, "-t", f], cwd=os.path.join(tmp, d), capture_output=True, text=True, timeout=600,
                               env={**os.environ, "PYTHONWARNINGS": "ignore"})
            return rel, p.returncode, (p.stdout + p.stderr)[-1500:]
        # the advection kernel imports the three others: translate it after them (as the Makefile does)
        first = [r for r in BUILD_ORDER if r != U.ADVK]
        with ThreadPoolExecutor(max_workers=4) as ex:
            results = list(ex.map(one, first))
        results.append(one(U.ADVK))
        for rel, rc, out in results:
            errs = [l for l in out.splitlines() if "error" in l.lower() or "ERROR" in l]
            chk.ob("B1-build-front-end", None, f"pyccel -t {rel}", rc == 0, "translated (syntax, semantic/type analysis and code generation) "
                   "without error" if rc == 0 else "pyccel rejects the kernel: " + " | ".join(errs[-3:] or out.splitlines()[-3:]),
                   file=rel, func="<module>")
        if tier == "thorough":
            for lang in ("fortran", "c"):
                p = subprocess.run(["make", "ACC=pycc", f"LANGUAGE={lang}", "PYTHON=/venv/bin/python"], cwd=tmp, capture_output=True, text=True,
                                   timeout=1800, env={**os.environ, "PATH": "/venv/bin:" + os.environ.get("PATH", ""), "PYTHONWARNINGS": "ignore"})
                tail = (p.stdout + p.stderr).splitlines()[-4:]
                chk.ob("B1-documented-make", None, f"make ACC=pycc LANGUAGE={lang}", p.returncode == 0,
                       "the documented build completes" if p.returncode == 0 else "build fails: " + " | ".join(tail), file="Makefile",
                       func="<build>")
                subprocess.run(["make", "clean"], cwd=tmp, capture_output=True, text=True, timeout=600,
                               env={**os.environ, "PATH": "/venv/bin:" + os.environ.get("PATH", "")})
    finally:
        shutil.rmtree(tmp, ignore_errors=True)


def makefile_targets(chk):
    """the documented build compiles exactly the five kernel modules"""
    found = set()
    for d, names in (("pygyro/splines", ("spline_eval_funcs", "cubic_uniform_spline_eval_funcs")),
                     ("pygyro/initialisation", ("initialiser_funcs",)), ("pygyro/advection", ("accelerated_advection_steps",)),
                     ("pygyro/poisson", ("poisson_tools",))):
        txt = chk.repo.text(d + "/Makefile")
        for nm in names:
            if re.search(r"^" + nm + r"\$\(SO_EXT\):\s*(?:pythran_deps/)?\$\(NAME_PREFIX\)" + nm + r"\.py", txt, re.M):
                found.add(nm)
    ok = len(found) == 5
    chk.ob("B1-makefile-targets", None, "kernel targets of pygyro/*/Makefile", ok, "the five kernels are the build targets, each built from "
           "$(NAME_PREFIX)<kernel>.py" if ok else f"targets found: {sorted(found)}", file="pygyro/Makefile", func="<build>", nontrivial=False)


def run(chk):
    chk.explanation = (
        "Compile-fail witness: pyccel (the repository's own compiler) translates each of the five kernels of the working tree on a "
        "scratch copy (thorough: the documented make for Fortran and C); every library call site of a kernel fits its signature; "
        "numba/pythran copies define the consumer-imported names with identical parameter lists and matching export arity; "
        "duplicated pythran copies are AST-identical; each variant body is AST-identical to the reference after normalisation or is "
        "proved against the same specification formula as the reference (engine F, with helper functions inlined); no kernel index "
        "relies on negative wrap-around. Equality of compiled and interpreted numerical results is inherently dynamic and is not decided.")
    chk.trusted.append("pyccel 2.0.1 front end (type/semantic analysis) from /venv")
    chk.in_file("pygyro")
    makefile_targets(chk)
    variant_agreement(chk)
    call_sites(chk)
    index_wrap(chk)
    build_witness(chk, chk.tier)
    chk.floor("B1-build-front-end", 5)
    chk.floor("V4-body-equivalence", 55)
    chk.floor("V1-", 60)
