"""Triage (not part of any check): stored basis integrals of a periodic NON-uniform space vs numerical integration."""
import numpy as np
from pygyro.splines.splines import BSplines, make_knots, Spline1D
from pygyro.splines.spline_interpolators import SplineInterpolator1D
from scipy.integrate import quad

rng = np.random.default_rng(1)
for d in (1, 2, 3, 4):
    breaks = np.concatenate(([0.0], np.sort(rng.uniform(0.05, 0.95, 7)), [1.0]))
    knots = make_knots(breaks, d, True)
    b = BSplines(knots, d, True, False)
    n = b.nbasis
    worst = 0.0
    for i in range(n):
        s = b[i]           # periodic basis function i (wrapped copies included)
        exact = sum(quad(lambda x: s.eval(x), breaks[k], breaks[k+1])[0] for k in range(len(breaks)-1))
        stored = b.integrals[i] + (b.integrals[n+i] if i < d else 0.0)
        worst = max(worst, abs(exact-stored))
    w = SplineInterpolator1D(b).get_quadrature_coefficients()
    print(f"degree {d}: max |stored - exact| basis integral = {worst:.3e}; sum of weights = {w.sum():.12f} (domain length 1)")
